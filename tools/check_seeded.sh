#!/bin/sh
# tools/check_seeded.sh : every seeded patch must still apply to /repo HEAD (no checks are run).
WT=/var/tmp/seedapply-$$
git -C /repo worktree add -q "$WT" HEAD
for d in /verif/seeded/*/; do
  id=$(basename "$d")
  if git -C "$WT" apply --check "$d/patch.diff" 2>/dev/null; then echo "applies   $id"; else echo "CONFLICT  $id"; fi
done
git -C /repo worktree remove --force "$WT"
