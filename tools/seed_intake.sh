#!/bin/sh
# tools/seed_intake.sh <tag> <Cxx> <seed-id> [check-ids...] : confirm a seeded change (demo both ways), run the check(s) against it, store it.
TAG="$1"; PROP="$2"; SID="$3"; shift 3; CHECKS="${*:-$PROP}"
OUT="/var/tmp/mut-$TAG-out"; WT="/var/tmp/seedchk-$$"
[ -f "$OUT/patch.diff" ] || { echo "no $OUT/patch.diff"; exit 2; }
git -C /repo worktree add -q "$WT" HEAD || exit 2
COQPRIV="/var/tmp/gv-coq-$(printf %s "$WT" | sha1sum | cut -c1-10)"
trap 'git -C /repo worktree remove --force "$WT" >/dev/null 2>&1; rm -rf "$COQPRIV" "$COQPRIV.lock"' EXIT
git -C "$WT" apply "$OUT/patch.diff" || { echo "patch does not apply"; exit 2; }
export PATH="/verif/harness/bin:$PATH"
(cd "$OUT" && PYTHONPATH=/repo timeout 900 /venv/bin/python demo.py >/dev/null 2>&1); A=$?
(cd "$OUT" && PYTHONPATH="$WT" timeout 900 /venv/bin/python demo.py >/dev/null 2>&1); B=$?
echo "demo: unchanged exit=$A mutated exit=$B"
/verif/tools/baseline.py "$WT" | tail -3
EVBAK=$(mktemp -d /var/tmp/evbak.XXXX); cp /verif/evidence/*.json "$EVBAK"/ 2>/dev/null
for C in $CHECKS; do
  echo "== check $C against the seeded change"
  (cd /verif && GV_REPO="$WT" ./check "$C" --tier "${TIER:-quick}" 2>&1 | grep -E "VIOLATION|KNOWN|^\[|broken" | cut -c1-400 | head -12)
done
cp "$EVBAK"/*.json /verif/evidence/ 2>/dev/null; rm -rf "$EVBAK"
mkdir -p "/verif/seeded/$SID" && cp "$OUT/patch.diff" "$OUT/demo.py" "$OUT/meta.json" "/verif/seeded/$SID/"
echo "stored /verif/seeded/$SID (edit meta.json: verified + caught_by)"
