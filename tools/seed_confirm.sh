#!/bin/sh
# tools/seed_confirm.sh Cxx <suffix>: run the check against seeded/Cxx-<suffix>/patch.diff and print the first failing inputs
P="$1"; S="$2"
rm -f /verif/replays/$P-*.json
echo "## $P-$S"
TAIL=80 /verif/tools/try_seed.sh /verif/seeded/$P-$S/patch.diff $P 2>&1 | grep -E "^VIOLATION|^\[" | cut -c1-160 | tail -4
python3 - <<PY
import json,glob
for f in sorted(glob.glob('/verif/replays/$P-*.json'))[:2]:
    d=json.load(open(f)); print('    >', (d.get('what') or d.get('explanation') or '')[:260].replace('\n',' '))
PY
rm -f /verif/replays/$P-*.json
