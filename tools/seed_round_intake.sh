#!/bin/sh
# tools/seed_round_intake.sh NN <round-suffix>: tools/seed_intake.sh for /var/tmp/mut-cNN<s>-out, compact result
t="$1"; R="${2:-e}"; P="C$t"
rm -f /verif/replays/$P-*.json
echo "######## $P-$R"
/verif/tools/seed_intake.sh c${t}$R $P $P-$R > /var/tmp/intake-$P-$R.log 2>&1
grep -E "^demo|^baseline|^\[" /var/tmp/intake-$P-$R.log | cut -c1-200
echo "  VIOLATION lines: $(grep -c '^VIOLATION' /var/tmp/intake-$P-$R.log), of which no-failing-input-found: $(grep -c 'no-failing-input-found' /var/tmp/intake-$P-$R.log)"
python3 - <<PY
import json,glob
for f in sorted(glob.glob('/verif/replays/$P-*.json'))[:3]:
    d=json.load(open(f)); print('    >', (d.get('what') or d.get('explanation') or '')[:300].replace('\n',' '))
    pass
PY
rm -f /verif/replays/$P-*.json
