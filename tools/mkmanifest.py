#!/venv/bin/python
"""Write MANIFEST.json from tools/claims.json (claimed properties) + properties.jsonl (everything else -> not_applicable)."""
import json, os
V = "/verif"
props = [json.loads(l) for l in open(f"{V}/properties.jsonl")]
claims = {f[:-5]: json.load(open(f"{V}/tools/claims.d/{f}")) for f in sorted(os.listdir(f"{V}/tools/claims.d")) if f.endswith(".json")}
checks, na = [], []
for p in props:
    c = claims.get(p["id"])
    if not c or c.get("not_applicable"):
        na.append({"property_id": p["id"], "reason": (c or {}).get("reason", "not yet covered by a check in this tree; see DESIGN.md section 6 for the planned model and theorems")})
        continue
    checks.append({
        "property_id": p["id"],
        "quick_cmd": f"./check {p['id']} --tier quick",
        "thorough_cmd": f"./check {p['id']} --tier thorough",
        "evidence_file": f"/verif/evidence/{p['id']}.json",
        "replay_cmd_template": f"./check {p['id']} --replay {{path}}",
        "engine": "coq-gv",
        "level_claimed": {"category": "proof", "text": c["text"], "design_ref": c["design_ref"]},
        "level_note": c["note"],
        "technique": c["technique"],
    })
m = {
    "version": 1,
    "setup_cmd": "./setup.sh",
    "hooks": {"guard": "GAPIC_VERIF", "enable": "no source hooks: every observation point is public (response files, emitted modules, channel=/transport= injection); checks export GAPIC_VERIF=1 for uniformity",
              "baseline_off_cmd": "cd /repo && /venv/bin/python -m pytest -ra -q -p no:cacheprovider --timeout=900 --continue-on-collection-errors",
              "source_commits": [], "add_only": True},
    "engines": [{"name": "coq-gv", "path": "/verif/coq", "serves_properties": [c["property_id"] for c in checks],
                 "kind_free_text": "Coq 8.16.1 development (hand-written Gallina models, theorems in Properties/Cxx.v) + Python harness that regenerates constants from /repo (T0), "
                                   "extracts emitted artefacts (T1) and compares model and implementation behaviour inside coqc by vm_compute (T2)"}],
    "checks": checks,
    "not_applicable": na,
    "notes": "See DESIGN.md. Fix commits in /repo are listed in findings/known_findings.json (status fixed).",
}
json.dump(m, open(f"{V}/MANIFEST.json", "w"), indent=1)
print(f"MANIFEST: {len(checks)} checks, {len(na)} not_applicable")
