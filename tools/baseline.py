#!/venv/bin/python
"""Run the pinned baseline suite (guard off) and compare with /root/.vp/BASELINE.json stable_pass."""
import json, os, subprocess, sys, tempfile, xml.etree.ElementTree as ET
repo = sys.argv[1] if len(sys.argv) > 1 else "/repo"
base = json.load(open("/root/.vp/BASELINE.json"))
want = set(base["stable_pass"])
with tempfile.TemporaryDirectory(dir="/var/tmp") as d:
    x = os.path.join(d, "j.xml")
    e = dict(os.environ); e.pop("GAPIC_VERIF", None); e.pop("PYTHONPATH", None)
    subprocess.run(["/venv/bin/python", "-m", "pytest", "-ra", "-q", "-p", "no:cacheprovider", "--timeout=900",
                    "--continue-on-collection-errors", f"--junitxml={x}"], cwd=repo, env=e,
                   stdout=subprocess.DEVNULL, stderr=subprocess.DEVNULL)
    passed = set()
    for tc in ET.parse(x).getroot().iter("testcase"):
        if not any(c.tag in ("failure", "error", "skipped") for c in tc):
            passed.add(f"{tc.get('classname')}::{tc.get('name')}")
missing = sorted(want - passed)
print(f"baseline: {len(want & passed)}/{len(want)} stable tests pass")
for m in missing[:20]:
    print("  MISSING", m)
sys.exit(1 if missing else 0)
