#!/bin/sh
# tools/seed_sweep.sh <seed>... : quick tier of every property under each VERIF_SEED on the unchanged tree; prints only non-zero exits.
# PROPS="01 02" restricts the properties (two sweeps over disjoint sets may run side by side). Evidence files are restored afterwards (the committed evidence is that of the default seed).
cd /verif
EVBAK=$(mktemp -d /var/tmp/evbak.XXXX); cp evidence/*.json "$EVBAK"/ 2>/dev/null
for S in "$@"; do
  for i in ${PROPS:-01 02 03 04 05 06 07 08 09 10 11 12 13 14 15 16 17 18 19 20}; do
    OUT=$(VERIF_SEED=$S ./check C$i --tier quick 2>&1); RC=$?
    if [ $RC -ne 0 ] || echo "$OUT" | grep -q '^VIOLATION'; then
      echo "seed=$S C$i rc=$RC :: $(echo "$OUT" | grep -E '^VIOLATION|broken' | head -3 | cut -c1-300 | tr '\n' '|')"
    fi
  done
  echo "seed=$S done"
done
cp "$EVBAK"/*.json evidence/ 2>/dev/null; rm -rf "$EVBAK"; rm -f replays/*.json
