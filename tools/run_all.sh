#!/bin/sh
# tools/run_all.sh [quick|thorough] : run every claimed check sequentially, validate MANIFEST and evidence, print a summary.
TIER="${1:-quick}"
cd /verif
IDS=$(/venv/bin/python -c "import json; print(' '.join(c['property_id'] for c in json.load(open('MANIFEST.json'))['checks']))")
for id in $IDS; do
  rm -f evidence/$id.json
  S=$(date +%s)
  OUT=$(./check $id --tier $TIER 2>&1); RC=$?
  E=$(( $(date +%s) - S ))
  V=$(echo "$OUT" | grep -c "^VIOLATION")
  K=$(echo "$OUT" | grep -c "^KNOWN-FINDING")
  echo "$id rc=$RC violations=$V known=$K wall=${E}s :: $(echo "$OUT" | grep '^\[' | tail -1)"
  [ $RC -ne 0 ] && echo "$OUT" | grep -E "VIOLATION|broken" | cut -c1-300 | head -6
done
python3-vt - <<'PY'
import json, jsonschema, glob
m = json.load(open('/verif/MANIFEST.json'))
jsonschema.validate(m, json.load(open('/root/.vp/MANIFEST.schema.json')))
s = json.load(open('/root/.vp/EVIDENCE.schema.json'))
bad = 0
for c in m['checks']:
    try:
        jsonschema.validate(json.load(open(c['evidence_file'])), s)
    except Exception as e:
        bad += 1; print('EVIDENCE INVALID', c['property_id'], str(e)[:200])
props = [json.loads(l)['id'] for l in open('/verif/properties.jsonl')]
claimed = {c['property_id'] for c in m['checks']}; na = {n['property_id'] for n in m.get('not_applicable', [])}
print('manifest valid; evidence invalid:', bad, '; claimed', len(claimed), 'not_applicable', len(na), 'unaccounted', sorted(set(props) - claimed - na))
PY
