#!/venv/bin/python
"""Rewrite the generated tables of DESIGN.md section 13 (between the BEGIN/END GENERATED markers) from
findings/known_findings.json and seeded/*/meta.json."""
import json, glob, os, re
V = "/verif"
f = json.load(open(f"{V}/findings/known_findings.json"))
out = []
out.append("### 13.2 Genuine defects found by the checks and repaired in /repo (`fix:` commits)\n")
out.append("Each row is one entry of `findings/known_findings.json` with status `fixed`; the failing input is the witness kept in the\n"
           "corpus of the property's check, so the violation is reported again if it ever returns.\n")
out.append("| property | commit | what failed (input -> behaviour) |")
out.append("|----------|--------|----------------------------------|")
for e in f:
    if e["status"] == "fixed":
        rec = e.get("record", "")
        rec = re.sub(r"^fixed: property=\S+ \S+ ", "", rec)
        out.append(f"| {e['property']} | {e.get('commit','')} | {rec.replace('|', '/')} |")
out.append("")
out.append("### 13.3 Known findings (genuine, recorded, not repaired)\n")
out.append("Each prints one `KNOWN-FINDING:` line when its witness still fails; a different violation of the same property is still a VIOLATION.\n")
out.append("| property | id | what fails |")
out.append("|----------|----|------------|")
for e in f:
    if e["status"] == "known":
        out.append(f"| {e['property']} | {e['id']} | {e['what'].replace('|', '/')[:420]} |")
out.append("")
out.append("### 13.4 Seeded changes (independent sub-agents) and which checks catch them\n")
out.append("Every change compiles, passes the 609 pinned tests, and comes with a demonstration that passes on the unchanged tree and fails with the change\n"
           "(confirmed by `tools/seed_intake.sh`). `history` says whether the check caught it at once or had to be strengthened first.\n")
out.append("| seed | property | change (summary) | needs | caught by | history |")
out.append("|------|----------|------------------|-------|-----------|---------|")
for d in sorted(glob.glob(f"{V}/seeded/*/meta.json")):
    m = json.load(open(d))
    sid = os.path.basename(os.path.dirname(d))
    cb = "; ".join(m.get("caught_by", ["(pending)"]))
    out.append(f"| {sid} | {m.get('property','')} | {str(m.get('summary',''))[:260].replace('|','/')} | {str(m.get('needs',''))[:200].replace('|','/')} | {cb[:300].replace('|','/')} | {str(m.get('history',''))[:260].replace('|','/')} |")
# ---- 13.5 per property: what is claimed, theorems, evidence numbers
out.append("")
out.append("### 13.5 Per property: claim, theorems (all `Print Assumptions`: closed under the global context), last quick run\n")
props = [json.loads(l) for l in open(f"{V}/properties.jsonl")]
for pr in props:
    pid = pr["id"]
    cf = f"{V}/tools/claims.d/{pid}.json"
    if not os.path.exists(cf):
        continue
    c = json.load(open(cf))
    src = open(f"{V}/coq/theories/Properties/{pid}.v").read()
    thms = re.findall(r"^(?:Theorem|Lemma|Corollary)\s+([\w']+)", src, flags=re.M)
    exs = re.findall(r"^Example\s+([\w']+)", src, flags=re.M)
    ev = {}
    try:
        ev = json.load(open(f"{V}/evidence/{pid}.json"))
    except Exception:
        pass
    cov = ev.get("coverage", {})
    out.append(f"**{pid} — {pr['title']}**  ")
    out.append(f"*Claim:* {c['text']}  ")
    out.append(f"*Theorems ({len(thms)}):* " + ", ".join(f"`{t}`" for t in thms) + (f"; *examples ({len(exs)}):* " + ", ".join(f"`{t}`" for t in exs) if exs else "") + "  ")
    refuted = [t for t in thms if "refuted" in t]
    partial = [t for t in thms if "partial" in t]
    if refuted or partial:
        out.append(f"*Refuted/partial statements kept visible:* " + ", ".join(f"`{t}`" for t in refuted + partial) + "  ")
    if cov:
        out.append(f"*Last {ev.get('tier')} run (seed {ev.get('seed')}):* {cov.get('discharged')}/{cov.get('obligations')} obligations, "
                   f"{cov.get('evaluations')} evaluations ({cov.get('distinct_nontrivial')} distinct non-trivial), {ev.get('wall_s')} s.  ")
    out.append(f"*Trusted / not verified:* {c['note']}\n")
text = "\n".join(out) + "\n"
p = f"{V}/DESIGN.md"
s = open(p).read()
B, E = "<!-- BEGIN GENERATED 13 -->", "<!-- END GENERATED 13 -->"
if B not in s:
    a = s.index("### 13.2 Genuine defects")
    b = s.index("--------------------------------------------------------------------------------------------------\n\n## Appendix A.")
    s = s[:a] + B + "\n" + E + "\n\n" + s[b:]
a, b = s.index(B) + len(B), s.index(E)
s = s[:a] + "\n" + text + s[b:]
open(p, "w").write(s)
print("DESIGN.md section 13 tables rewritten:", sum(1 for e in f if e['status']=='fixed'), "fixed,", sum(1 for e in f if e['status']=='known'), "known,", len(glob.glob(f"{V}/seeded/*/meta.json")), "seeded")
