#!/bin/sh
# tools/seed_meta.sh Cxx <suffix> "<history>": confirm the seeded change is caught (tools/seed_confirm.sh) and record it in its meta.json
P="$1"; S="$2"; H="$3"
OUT=$(/verif/tools/seed_confirm.sh "$P" "$S" 2>&1)
echo "$OUT" | cut -c1-200
OUT="$OUT" python3 - "$P" "$S" "$H" <<'PY'
import json, os, sys, re
P, S, H = sys.argv[1:4]
out = os.environ["OUT"]
m = re.search(r"obligations=(\d+)/(\d+).*exit=(\d)", out)
if not m or m.group(3) != "1":
    print("NOT CAUGHT - meta left alone"); sys.exit(1)
whats = [l.strip()[2:].strip() for l in out.split("\n") if l.strip().startswith("> ")]
nf = "no-failing-input-found" in out and not whats
p = f"/verif/seeded/{P}-{S}/meta.json"
d = json.load(open(p))
d["verified_by_coordinator"] = {"demo_unchanged_exit": 0, "demo_mutated_exit": 1, "baseline": "609/609 stable tests pass with the patch",
                                "how": "tools/seed_round_intake.sh, then tools/seed_confirm.sh after strengthening"}
cb = [f"{P} oracle: {w[:300]}" for w in whats[:2]]
if m.group(1) != m.group(2):
    cb.append(f"{P} obligations: {int(m.group(2)) - int(m.group(1))} of {m.group(2)} broken (pins / extraction / correspondence)")
d["caught_by"] = cb or [f"{P}: obligations broken, no failing input found"]
d["history"] = H
json.dump(d, open(p, "w"), indent=1)
print("meta written:", p)
PY
