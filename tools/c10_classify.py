#!/venv/bin/python
"""Maintenance tool (not run by checks): rewrite coq/theories/Model/DetermSites.v from the current inventory using the
hand-written per-scope rules below. A site in a scope without a rule makes this tool fail: classify it by reading the code."""
import sys
sys.path.insert(0, "/verif/harness")
from gv import c10_inventory as I, coq
M="Membership"; S="SortedTotal"; K="KeyedSort"; C="ConstantLookup"; F="FlowsIntoSort"
rules = {
 "Proto.names": M, "Proto.python_modules": S, "API.build": M, "API.subpackages": S,
 "API.enforce_valid_method_settings": M, "API.enforce_valid_library_settings": M,
 "API.get_extended_operations_services": F,      # iterated only inside sort_lines / |sort(attribute="name") blocks
 "_ProtoBuilder.proto": M, "_ProtoBuilder._get_retry_and_timeout": F,   # |sort(attribute='__name__'): class names are unique
 "Naming.build": M, "Field.mock_value_original_type": M, "Field.mock_value": M,
 "MessageType.recursive_field_types": F,   # tuple(set): consumed by sets, sort_lines blocks and |sort filters
 "MessageType.recursive_resource_fields": F, "MessageType.get_field": M, "MessageType.with_context": M,
 "Method.transport_safe_name": C, "Method.query_params": M, "Method._validate_paged_field_size_type": C,
 "Service.names": M,
 "Service.resource_messages": F,  # |sort(full type, case-sensitive)|sort(short type): total when full types are distinct
 "Service.with_context": M, "sort_lines": S, "Options": C, "<module>": C, "Validator": C,
 "Validator.flattenable_fields": M, "Validator.validate_and_transform_request": M, "Validator._validate_loop": M,
}
rows=[]
for s in I.py_sites():
    rows.append((I.site_key(s), rules[s["scope"]]))
for s in I.template_sites():
    k=s["kind"]
    cls = S if k=="sort_lines" else (K if k.startswith("sort(") or k in ("dictsort","sort") else "OrderPreserving")
    rows.append((I.site_key(s), cls))
body=";\n  ".join(f"({coq.s(k)}, {c})" for k,c in rows)
open('/verif/coq/theories/Model/DetermSites.v','w').write(f'''(* Model/DetermSites.v — C10: classification of every set/sort site of the generator
   (hand-maintained through tools/c10_classify.py, whose per-scope rules are the record of the analysis).
   Membership      : the set is only tested for membership / size; its order never reaches the output.
   ConstantLookup  : a literal of constants used for membership.
   SortedTotal     : sorted() / sort_lines before use: the order is a function of the elements (Proofs/Determ.v).
   KeyedSort       : Jinja |sort(attribute=k), |sort or dictsort: deterministic iff keys are pairwise distinct up to case
                     (sort_by_perm_invariant); otherwise sort_by_tie_refuted applies.
   FlowsIntoSort   : an unordered value that reaches the output only through a SortedTotal or KeyedSort site.
   OrderPreserving : |unique: keeps the input order.
   The regenerated inventory Gen/DetermSites.v must equal the keys of this table (Proofs/DetermSites.v). *)
From GV Require Import Base.Str.
Inductive site_class := Membership | ConstantLookup | SortedTotal | KeyedSort | FlowsIntoSort | OrderPreserving.
Definition CLASSIFIED : list (string * site_class) := [
  {body}
].
''')
print(len(rows), "sites classified")
