#!/bin/sh
# tools/flake_sweep.sh <runs> [props...] : run each property's quick check <runs> times (seeds 0..runs-1) on the unchanged tree,
# four properties side by side (so the machine is loaded), print every non-zero exit. Evidence is restored afterwards.
cd /verif
N="$1"; shift
PROPS="${*:-01 02 03 04 05 06 07 08 09 10 11 12 13 14 15 16 17 18 19 20}"
EVBAK=$(mktemp -d /var/tmp/evbak.XXXX); cp evidence/*.json "$EVBAK"/ 2>/dev/null
one() {
  i="$1"
  k=0
  while [ $k -lt $N ]; do
    OUT=$(VERIF_SEED=$k ./check C$i --tier quick 2>&1); RC=$?
    if [ $RC -ne 0 ] || echo "$OUT" | grep -q '^VIOLATION'; then
      echo "FLAKE? C$i seed=$k rc=$RC :: $(echo "$OUT" | grep -E '^VIOLATION|broken|^\[' | head -4 | cut -c1-260 | tr '\n' '|')"
    fi
    k=$((k+1))
  done
  echo "C$i: $N runs done"
}
export N
# portable parallelism without exported functions: background jobs in groups of four
set -- $PROPS
while [ $# -gt 0 ]; do
  for i in "$1" "$2" "$3" "$4"; do [ -n "$i" ] && one "$i" & done
  wait
  shift; [ $# -gt 0 ] && shift; [ $# -gt 0 ] && shift; [ $# -gt 0 ] && shift
done
cp "$EVBAK"/*.json evidence/ 2>/dev/null; rm -rf "$EVBAK"; rm -f replays/*.json
