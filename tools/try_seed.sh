#!/bin/sh
# tools/try_seed.sh <patch.diff> <Cxx> [tier]  — run a check against a scratch worktree of /repo with the patch applied.
set -e
P="$(realpath "$1")"; ID="$2"; TIER="${3:-quick}"
WT="/var/tmp/seedwt-$$"
git -C /repo worktree add -q "$WT" HEAD
COQPRIV="/var/tmp/gv-coq-$(printf %s "$WT" | sha1sum | cut -c1-10)"
trap 'git -C /repo worktree remove --force "$WT" >/dev/null 2>&1 || true; rm -rf "$COQPRIV" "$COQPRIV.lock"' EXIT
git -C "$WT" apply "$P"
EVBAK=$(mktemp -d /var/tmp/evbak.XXXX); cp /verif/evidence/*.json "$EVBAK"/ 2>/dev/null
cd /verif && GV_REPO="$WT" ./check "$ID" --tier "$TIER" 2>&1 | tail -${TAIL:-12}
cp "$EVBAK"/*.json /verif/evidence/ 2>/dev/null; rm -rf "$EVBAK"
