"""Random API generator (DESIGN.md section 5): conventional, resource-oriented APIs with knobs.

Everything is derived from the random.Random passed in, so (seed, property, index) replays a case;
case files nevertheless store the serialized request."""
import random
from . import apigen
from .apigen import File, SCALARS, INT_SCALARS, MAP_KEY_SCALARS

WORDS = ["book", "shelf", "topic", "note", "job", "ring", "fleet", "widget", "asset", "feed", "zone", "glossary",
         "pipeline", "tensor", "invoice", "site", "queue", "key_ring", "data_item", "entry"]
EMPTY = ".google.protobuf.Empty"
OPERATION = ".google.longrunning.Operation"
WKT = {"any": ".google.protobuf.Any", "struct": ".google.protobuf.Struct", "value": ".google.protobuf.Value",
       "duration": ".google.protobuf.Duration", "timestamp": ".google.protobuf.Timestamp",
       "field_mask": ".google.protobuf.FieldMask", "int32value": ".google.protobuf.Int32Value",
       "uint32value": ".google.protobuf.UInt32Value", "stringvalue": ".google.protobuf.StringValue"}
WKT_FILE = {"any": "google/protobuf/any.proto", "struct": "google/protobuf/struct.proto", "value": "google/protobuf/struct.proto",
            "duration": "google/protobuf/duration.proto", "timestamp": "google/protobuf/timestamp.proto",
            "field_mask": "google/protobuf/field_mask.proto", "int32value": "google/protobuf/wrappers.proto",
            "uint32value": "google/protobuf/wrappers.proto", "stringvalue": "google/protobuf/wrappers.proto"}


def camel(s):
    return "".join(p.capitalize() for p in s.split("_"))


def lower_camel(s):
    c = camel(s)
    return c[0].lower() + c[1:]


class Api:
    """One target package in one or more files, with a record of what was put in it."""

    def __init__(self, r, package="google.example.library.v1", nfiles=1, host="library.example.com"):
        self.r = r
        self.package = package
        self.dir = "/".join(package.split("."))
        self.files = [File(f"{self.dir}/{n}.proto", package, deps=list(apigen.STD_DEPS))
                      for n in (["library", "resources", "extra"][:nfiles])]
        self.main = self.files[0]
        for i, f in enumerate(self.files[1:], 1):
            self.main.dep(f.proto.name)
        self.host = host
        self.services = []
        self.info = {"package": package, "services": {}, "resources": {}, "messages": {}, "features": []}
        self._num = {}

    # -- helpers --
    def fq(self, name):
        return f".{self.package}.{name}"

    def other_file(self):
        return self.files[-1]

    def feat(self, f):
        if f not in self.info["features"]:
            self.info["features"].append(f)

    def need(self, file, dep):
        file.dep(dep)

    def add_random_fields(self, msg, start, count, file=None, allow=("scalar", "repeated", "optional", "enum", "map", "msg", "oneof", "wkt")):
        r = self.r
        file = file or msg.file
        n = start
        used = {f.name for f in msg.proto.field}
        for _ in range(count):
            kind = r.choice(allow)
            name = r.choice(["title", "count", "rating", "flags", "labels", "payload", "weight", "kind", "state", "tags",
                             "detail", "blob", "ratio", "size", "owner", "notes", "level", "mode", "extra", "stamp"])
            if name in used:
                name = f"{name}_{n}"
            used.add(name)
            if kind == "scalar":
                msg.field(name, n, r.choice(list(SCALARS)))
            elif kind == "repeated":
                msg.field(name, n, r.choice(list(SCALARS)), repeated=True)
            elif kind == "optional":
                msg.field(name, n, r.choice(list(SCALARS)), optional=True)
            elif kind == "enum":
                en = msg.enum(camel(name) + "Kind", [camel(name).upper() + "_UNSPECIFIED", camel(name).upper() + "_A", camel(name).upper() + "_B"])
                msg.field(name, n, ("enum", en), repeated=r.random() < 0.2)
            elif kind == "map":
                vt = r.choice(["string", "int32", "bool", "bytes", "double"])
                msg.map_field(name, n, r.choice(MAP_KEY_SCALARS), vt)
            elif kind == "msg":
                sub = msg.nested(camel(name) + "Info")
                sub.field("text", 1, "string").field("amount", 2, r.choice(INT_SCALARS))
                msg.field(name, n, sub.fqn, repeated=r.random() < 0.3)
            elif kind == "oneof":
                msg.field(name + "_a", n, "string", oneof=name + "_choice")
                n += 1
                msg.field(name + "_b", n, r.choice(INT_SCALARS), oneof=name + "_choice")
            elif kind == "wkt":
                w = r.choice(list(WKT))
                self.need(file, WKT_FILE[w])
                msg.field(name, n, WKT[w])
            n += 1
        return n

    # -- resources --
    def resource(self, word, parent_pattern="", *, file=None, extra_fields=2, pattern=None, type_domain="library.example.com"):
        """A resource message <Word> with name field; returns dict(name, fqn, type, pattern, ...)."""
        file = file or self.main
        Name = camel(word)
        coll = lower_camel(word) + "s"
        pat = pattern or (f"{parent_pattern}/{coll}/{{{word}}}" if parent_pattern else f"{coll}/{{{word}}}")
        m = file.message(Name)
        m.field("name", 1, "string")
        m.resource(f"{type_domain}/{Name}", [pat])
        if extra_fields:
            self.add_random_fields(m, 2, extra_fields, file=file)
        res = {"word": word, "name": Name, "fqn": m.fqn, "type": f"{type_domain}/{Name}", "pattern": pat, "file": file, "msg": m,
               "coll": coll}
        self.info["resources"][res["type"]] = pat
        return res

    def service(self, name, file=None, host="default"):
        file = file or self.main
        s = file.service(name, host=self.host if host == "default" else host,
                         scopes="https://www.googleapis.com/auth/cloud-platform")
        self.services.append(s)
        self.info["services"][name] = {}
        s.name = name
        return s

    def _uri_vars(self, pattern):
        """resource pattern -> http template for {name=...}"""
        import re
        return re.sub(r"\{[^}]*\}", "*", pattern)

    def _rec(self, svc, rpc, **kw):
        self.info["services"][svc.name][rpc] = kw

    # -- CRUD --
    def add_get(self, svc, res, http=True, sig=True, file=None):
        file = file or svc.file
        req = file.message(f"Get{res['name']}Request")
        req.field("name", 1, "string", required=True, ref=res["type"])
        svc.rpc(f"Get{res['name']}", req.fqn, res["fqn"],
                http=("get", f"/v1/{{name={self._uri_vars(res['pattern'])}}}") if http else None,
                sigs=["name"] if sig else [])
        self._rec(svc, f"Get{res['name']}", kind="get", req=req.fqn, resp=res["fqn"])
        return req

    def add_list(self, svc, res, parent_pattern=None, http=True, sig=True, size_field="page_size", size_type="int32", file=None):
        file = file or svc.file
        req = file.message(f"List{res['name']}sRequest")
        if parent_pattern:
            req.field("parent", 1, "string", required=True, child_ref=res["type"])
        if size_type in SCALARS:
            req.field(size_field, 2, size_type)
        else:
            self.need(file, WKT_FILE[size_type])
            req.field(size_field, 2, WKT[size_type])
        req.field("page_token", 3, "string")
        req.field("filter", 4, "string")
        resp = file.message(f"List{res['name']}sResponse")
        resp.field(res["coll"].lower() if False else res["word"] + "s", 1, res["fqn"], repeated=True)
        resp.field("next_page_token", 2, "string")
        resp.field("unreachable", 3, "string", repeated=True)
        uri = f"/v1/{{parent={self._uri_vars(parent_pattern)}}}/{res['coll']}" if parent_pattern else f"/v1/{res['coll']}"
        svc.rpc(f"List{res['name']}s", req.fqn, resp.fqn, http=("get", uri) if http else None,
                sigs=(["parent"] if parent_pattern else []) if sig else [])
        self._rec(svc, f"List{res['name']}s", kind="list", req=req.fqn, resp=resp.fqn, item_field=res["word"] + "s")
        return req, resp

    def add_create(self, svc, res, parent_pattern=None, http=True, sig=True, file=None):
        file = file or svc.file
        req = file.message(f"Create{res['name']}Request")
        if parent_pattern:
            req.field("parent", 1, "string", required=True, child_ref=res["type"])
        req.field(res["word"], 2, res["fqn"], required=True)
        req.field(res["word"] + "_id", 3, "string")
        uri = f"/v1/{{parent={self._uri_vars(parent_pattern)}}}/{res['coll']}" if parent_pattern else f"/v1/{res['coll']}"
        sigs = [",".join((["parent"] if parent_pattern else []) + [res["word"], res["word"] + "_id"])] if sig else []
        svc.rpc(f"Create{res['name']}", req.fqn, res["fqn"], http=("post", uri) if http else None,
                body=res["word"] if http else None, sigs=sigs)
        self._rec(svc, f"Create{res['name']}", kind="create", req=req.fqn, resp=res["fqn"])
        return req

    def add_update(self, svc, res, http=True, sig=True, file=None):
        file = file or svc.file
        self.need(file, "google/protobuf/field_mask.proto")
        req = file.message(f"Update{res['name']}Request")
        req.field(res["word"], 1, res["fqn"], required=True)
        req.field("update_mask", 2, ".google.protobuf.FieldMask")
        svc.rpc(f"Update{res['name']}", req.fqn, res["fqn"],
                http=("patch", f"/v1/{{{res['word']}.name={self._uri_vars(res['pattern'])}}}") if http else None,
                body=res["word"] if http else None, sigs=[f"{res['word']},update_mask"] if sig else [])
        self._rec(svc, f"Update{res['name']}", kind="update", req=req.fqn, resp=res["fqn"])
        return req

    def add_delete(self, svc, res, http=True, sig=True, file=None):
        file = file or svc.file
        self.need(file, "google/protobuf/empty.proto")
        req = file.message(f"Delete{res['name']}Request")
        req.field("name", 1, "string", required=True, ref=res["type"])
        svc.rpc(f"Delete{res['name']}", req.fqn, EMPTY,
                http=("delete", f"/v1/{{name={self._uri_vars(res['pattern'])}}}") if http else None,
                sigs=["name"] if sig else [])
        self._rec(svc, f"Delete{res['name']}", kind="delete", req=req.fqn, resp=EMPTY)
        return req

    def add_custom(self, svc, res, verb="archive", http=True, body="*", file=None):
        file = file or svc.file
        req = file.message(f"{camel(verb)}{res['name']}Request")
        req.field("name", 1, "string", required=True, ref=res["type"])
        self.add_random_fields(req, 2, 2, file=file, allow=("scalar", "repeated", "enum", "optional"))
        resp = file.message(f"{camel(verb)}{res['name']}Response")
        resp.field("done", 1, "bool").field("note", 2, "string")
        svc.rpc(f"{camel(verb)}{res['name']}", req.fqn, resp.fqn,
                http=("post", f"/v1/{{name={self._uri_vars(res['pattern'])}}}:{verb}") if http else None,
                body=body if http else None, sigs=["name"])
        self._rec(svc, f"{camel(verb)}{res['name']}", kind="custom", req=req.fqn, resp=resp.fqn)
        return req, resp

    def add_lro(self, svc, res, verb="import", http=True, resp_type=None, meta_type=None, file=None, relative=True):
        file = file or svc.file
        self.need(file, "google/longrunning/operations.proto")
        req = file.message(f"{camel(verb)}{res['name']}sRequest")
        req.field("parent", 1, "string", required=True)
        req.field("source", 2, "string")
        if resp_type is None:
            rm = file.message(f"{camel(verb)}{res['name']}sResponse")
            rm.field("imported", 1, "int32").field(res["word"] + "s", 2, res["fqn"], repeated=True)
            resp_type = rm.proto.name if relative else rm.fqn[1:]
        if meta_type is None:
            mm = file.message(f"{camel(verb)}{res['name']}sMetadata")
            mm.field("progress", 1, "int32")
            meta_type = mm.proto.name if relative else mm.fqn[1:]
        svc.rpc(f"{camel(verb)}{res['name']}s", req.fqn, OPERATION,
                http=("post", f"/v1/{{parent=projects/*}}/{res['coll']}:{verb}") if http else None, body="*" if http else None,
                lro=(resp_type, meta_type))
        self._rec(svc, f"{camel(verb)}{res['name']}s", kind="lro", req=req.fqn, resp=OPERATION, lro=(resp_type, meta_type))
        return req

    def add_streaming(self, svc, res, kind="server", file=None):
        file = file or svc.file
        req = file.message(f"{camel(kind)}Stream{res['name']}Request")
        req.field("name", 1, "string")
        req.field("chunk", 2, "bytes")
        resp = file.message(f"{camel(kind)}Stream{res['name']}Response")
        resp.field("chunk", 1, "bytes").field("seq", 2, "int64")
        cs, ss = {"server": (False, True), "client": (True, False), "bidi": (True, True)}[kind]
        http = ("post", f"/v1/{{name={self._uri_vars(res['pattern'])}}}:stream{kind}") if kind == "server" else None
        svc.rpc(f"{camel(kind)}Stream{res['name']}", req.fqn, resp.fqn, cs=cs, ss=ss, http=http, body="*" if http else None)
        self._rec(svc, f"{camel(kind)}Stream{res['name']}", kind=f"stream_{kind}", req=req.fqn, resp=resp.fqn)
        return req, resp

    def request(self, parameter="", extra_files=(), to_generate=None):
        files = list(extra_files) + self.files[1:] + [self.main]
        return apigen.request(files, to_generate=to_generate or [f.proto.name for f in self.files], parameter=parameter)


PACKAGES = [
    ("google.example.library.v1", "library.example.com"),
    ("google.cloud.widgets.v1beta1", "widgets.googleapis.com"),
    ("acme.storage.v2", "storage.acme.test"),
    ("google.cloud.data.fleet.v1p1beta1", "fleet.googleapis.com"),
    ("simple.v1", "simple.example.org"),
    ("google.ads.things.v3", "things.googleapis.com"),
]


def conventional(r: random.Random, *, size=None, features=None, package=None):
    """A conventional, resource-oriented API. features: subset of
    {'lro','streaming','custom','second_service','multi_file','nested_resource','deep'}; random if None."""
    pkg, host = r.choice(PACKAGES)
    if package is not None:
        pkg, host = package
    allf = ["lro", "streaming", "custom", "second_service", "multi_file", "nested_resource"]
    if features is None:
        features = {f for f in allf if r.random() < 0.45}
    api = Api(r, pkg, nfiles=2 if "multi_file" in features else 1, host=host)
    words = r.sample(WORDS, 3)
    parent = api.resource(words[0], file=api.other_file() if "multi_file" in features else None)
    child = api.resource(words[1], parent_pattern=parent["pattern"] if "nested_resource" in features or r.random() < 0.5 else "")
    svc = api.service(camel(words[0]) + "Service" if r.random() < 0.5 else camel(words[2]) + "Admin")
    child_parent = parent["pattern"] if child["pattern"].startswith(parent["pattern"] + "/") else None
    for res, pp in ((parent, None), (child, child_parent)):
        api.add_get(svc, res)
        api.add_list(svc, res, parent_pattern=pp)
        if r.random() < 0.8:
            api.add_create(svc, res, parent_pattern=pp)
        if r.random() < 0.6:
            api.add_update(svc, res)
        if r.random() < 0.6:
            api.add_delete(svc, res)
    if "custom" in features:
        api.add_custom(svc, child, verb=r.choice(["archive", "publish", "move", "check"]))
    if "lro" in features:
        api.add_lro(svc, child, verb=r.choice(["import", "export", "reindex"]))
    if "streaming" in features:
        for k in r.sample(["server", "client", "bidi"], r.randint(1, 3)):
            api.add_streaming(svc, child, kind=k)
    if "second_service" in features:
        third = api.resource(words[2])
        svc2 = api.service(camel(words[2]) + "Catalog")
        api.add_get(svc2, third)
        api.add_list(svc2, third)
    for f in sorted(features):
        api.feat(f)
    return api
