"""Fixed harness environment (DESIGN.md 3.6)."""
import os, sys, tempfile, shutil, atexit, hashlib, json, random

VERIF = os.path.abspath(os.path.join(os.path.dirname(__file__), "..", ".."))
REPO = os.environ.get("GV_REPO", "/repo")
COQ = os.path.join(VERIF, "coq")
LOCK = os.path.join(VERIF, ".build.lock")
if os.path.realpath(REPO) != "/repo":
    # A check pointed at another tree (a scratch worktree with a seeded change) regenerates Gen/*.v from that tree: it works on a
    # private copy of the Coq development so that checks of /repo running at the same time keep their own regenerated constants.
    _priv = os.environ.get("GV_COQ_PRIVATE")
    if not _priv:
        import fcntl, subprocess
        _priv = "/var/tmp/gv-coq-" + hashlib.sha1(os.path.realpath(REPO).encode()).hexdigest()[:10]
        with open(LOCK, "w") as _f:
            fcntl.flock(_f, fcntl.LOCK_EX)
            os.makedirs(_priv, exist_ok=True)
            subprocess.run(["rsync", "-a", "--delete", COQ + "/", _priv + "/"], check=True)
            fcntl.flock(_f, fcntl.LOCK_UN)
        os.environ["GV_COQ_PRIVATE"] = _priv
    COQ = _priv
    LOCK = _priv + ".lock"
THEORIES = os.path.join(COQ, "theories")
PY = "/venv/bin/python"
NCPU = int(os.environ.get("GV_JOBS", str(os.cpu_count() or 8)))

_scratch = None


def scratch() -> str:
    """Per-process scratch directory outside /repo and /verif, removed at exit."""
    global _scratch
    if _scratch is None:
        base = os.environ.get("VERIF_TMP", "/var/tmp")
        os.makedirs(base, exist_ok=True)
        _scratch = tempfile.mkdtemp(prefix="gv-", dir=base)
        atexit.register(lambda: shutil.rmtree(_scratch, ignore_errors=True))
    return _scratch


def child_env(hashseed="0", extra=None):
    e = dict(os.environ)
    e["PYTHONPATH"] = os.path.join(VERIF, "harness") + ":" + REPO
    e["PYTHONHASHSEED"] = str(hashseed)
    e["PYTHONDONTWRITEBYTECODE"] = "1"
    e["PATH"] = os.path.join(VERIF, "harness", "bin") + ":" + e.get("PATH", "")
    e["GAPIC_VERIF"] = "1"
    if extra:
        e.update(extra)
    return e


def seed() -> int:
    try:
        return int(os.environ.get("VERIF_SEED", "0"))
    except ValueError:
        return 0


def rng(prop: str, index: int = 0) -> random.Random:
    h = hashlib.sha256(f"{seed()}:{prop}:{index}".encode()).digest()
    return random.Random(int.from_bytes(h[:8], "big"))


def canon_hash(obj) -> str:
    return hashlib.sha256(json.dumps(obj, sort_keys=True, default=str).encode()).hexdigest()[:16]
