"""setup: regenerate Gen/*.v for every property that has a regen step, then build everything."""
import importlib, os, pkgutil, sys
from . import coq, env, main as M
import gv.props as P

def run():
    for m in pkgutil.iter_modules(P.__path__):
        mod = importlib.import_module(f"gv.props.{m.name}")
        if hasattr(mod, "regen"):
            try:
                mod.regen(M.Ctx(m.name.upper(), "quick"))
            except Exception as e:
                print(f"setup: regen {m.name}: {type(e).__name__}: {e}")
    bad = coq.hygiene()
    if bad:
        print("setup: forbidden vernacular:", bad)
    ok, log, cmd = coq.build(None, timeout=3000)
    print(log[-3000:])
    print("setup:", "ok" if ok else "BUILD FAILED (individual checks will report what no longer checks)")
    # a failed build is not a failed setup: checks must still run and report
    sys.exit(0)

run()
