"""API generator and descriptor-to-Coq translation shared by the C05 and C03 checks (owned by those checks).

The APIs have: a main package (proto-plus), optionally a dependency package whose messages are plain protobuf (_pb2), optionally
a sub-package of the main package (proto-plus, but a different package than the service's), request messages with every field
kind (scalars, enum, message, repeated scalar/message/enum, maps, proto3 optional, oneof members, reserved-word names,
google.protobuf.Value / FieldMask), methods of every streaming arity, void methods, and 0..3 method signatures per method
drawn from top-level and dotted paths."""
from google.protobuf import descriptor_pb2 as dp
from .. import apigen, coq
from ..apigen import File, SCALARS
from . import callutil as U

F = dp.FieldDescriptorProto
MAIN_PKGS = [("google.example.library.v1", "library.example.com"), ("acme.storage.v2", "storage.acme.test"),
             ("google.cloud.widgets.v1beta1", "widgets.googleapis.com"), ("simple.v1", "simple.example.org")]
DEP_PKGS = ["acme.common.v1", "google.example.shared.v1", "zed.types"]
RESERVED_SAMPLE = ["class", "type", "from", "in", "next", "format", "any", "import", "license", "hash", "max", "filter_"]
SCALAR_POOL = ["string", "string", "int32", "int64", "bool", "bytes", "double", "uint32", "sint64", "fixed32", "float"]


def camel(s):
    return "".join(p.capitalize() for p in s.split("_"))


class FlatApi:
    def __init__(self, r, *, dep=None, sub=None, reserved=True, main=None):
        self.r = r
        self.pkg, self.host = main or r.choice(MAIN_PKGS)
        d = self.pkg.replace(".", "/")
        deps = list(apigen.STD_DEPS) + ["google/protobuf/empty.proto", "google/protobuf/struct.proto", "google/protobuf/field_mask.proto"]
        self.dep = self.sub = None
        self.extra = []
        if dep:
            self.dep_pkg = dep
            self.dep = File(dep.replace(".", "/") + "/common.proto", dep, deps=["google/protobuf/struct.proto", "google/protobuf/field_mask.proto"])
            deps.append(self.dep.proto.name)
            self.extra.append(self.dep)
        if sub:
            self.sub_pkg = self.pkg + "." + sub
            self.sub = File(d + "/" + sub + "/shared.proto", self.sub_pkg, deps=["google/protobuf/struct.proto", "google/protobuf/field_mask.proto"])
            deps.append(self.sub.proto.name)
        self.main = File(d + "/service.proto", self.pkg, deps=deps)
        self.reserved = reserved
        self.requests = []     # (fqn, file)

    def zoo(self, file, name, depth=0):
        """A message with every field kind; returns Msg."""
        r = self.r
        m = file.message(name) if isinstance(file, File) else file.nested(name)
        f = m.file
        n = 1
        m.field("name", n, "string"); n += 1
        if r.random() < 0.6:      # a field whose name has another field's name as textual prefix (name / name_suffix, name / names)
            m.field(r.choice(["name_suffix", "names"]), n, "string"); n += 1
        for nm in r.sample(["title", "count", "ratio", "flag", "blob", "size", "code"], r.randint(2, 4)):
            # some fields carry google.api.field_behavior = REQUIRED: the declared order of a method signature does not depend on it
            m.field(nm, n, r.choice(SCALAR_POOL), required=r.random() < 0.35); n += 1
        if r.random() < 0.6:   # real oneofs must be declared before the synthetic ones of proto3 optional fields
            m.field("choice_a", n, "string", oneof="choice"); n += 1
            m.field("choice_b", n, "int32", oneof="choice"); n += 1
        m.field("note", n, "string", optional=True); n += 1
        if r.random() < 0.5:
            m.field("level", n, r.choice(["int32", "bool", "double"]), optional=True); n += 1
        en = m.enum(name + "Kind", [name.upper() + "_KIND_UNSPECIFIED", name.upper() + "_A", name.upper() + "_B"])
        m.field("kind", n, ("enum", en)); n += 1
        if r.random() < 0.5:
            m.field("kinds", n, ("enum", en), repeated=True); n += 1
        m.field("tags", n, "string", repeated=True, required=r.random() < 0.2); n += 1
        m.field("nums", n, r.choice(["int32", "int64", "uint32", "double"]), repeated=True); n += 1
        m.map_field("labels", n, r.choice(["string", "int32", "bool", "int64"]), r.choice(["string", "int32", "bytes", "bool"])); n += 1
        if self.reserved:
            for w in r.sample(RESERVED_SAMPLE, r.randint(1, 3)):
                m.field(w, n, r.choice(["string", "int32", "bool"]), repeated=r.random() < 0.15); n += 1
        if depth < 2:
            inner = self.zoo(m, name + "Part", depth + 1) if r.random() < 0.5 else self.zoo(f, name + "Item", depth + 1)
            m.field("item", n, inner.fqn); n += 1
            m.field("items", n, inner.fqn, repeated=True); n += 1
            if r.random() < 0.5:
                m.map_field("by_key", n, "string", inner.fqn); n += 1
            if self.reserved and r.random() < 0.4:
                free = [w for w in ["class", "import", "type", "next", "global"] if w not in [x.name for x in m.proto.field]]
                m.field(r.choice(free), n, inner.fqn); n += 1
        if r.random() < 0.5:
            m.field("values", n, ".google.protobuf.Value", repeated=True); n += 1
        if r.random() < 0.4:
            m.field("value", n, ".google.protobuf.Value"); n += 1
        if r.random() < 0.3:
            m.field("mask", n, ".google.protobuf.FieldMask"); n += 1
        return m

    def request(self, req_params="transport=grpc", extra_params=()):
        files = list(self.extra) + ([self.sub] if self.sub else []) + [self.main]
        gen = [self.main.proto.name] + ([self.sub.proto.name] if self.sub else [])
        params = ",".join([req_params] + list(extra_params))
        return apigen.request(files, to_generate=gen, parameter=params)


# ---------------------------------------------------------------- signature material
def paths_of(idx, fqn, depth=2, prefix=""):
    """[(dotted path, FieldDescriptorProto, container fqn)] reachable through singular message fields."""
    out = []
    m = idx.msgs[fqn][0]
    for f in m.field:
        p = prefix + f.name
        out.append((p, f, fqn))
        if f.type == F.TYPE_MESSAGE and f.label != F.LABEL_REPEATED and depth > 0 and f.type_name in idx.msgs \
                and not f.type_name.startswith(".google.protobuf."):
            out.extend(paths_of(idx, f.type_name, depth - 1, p + "."))
    return out


# ---------------------------------------------------------------- descriptors -> Coq terms (Model/Flatten.v schema)
def struct_value(idx, f):
    if f.type != F.TYPE_MESSAGE or f.type_name not in idx.msgs:
        return False
    m, fp, top = idx.msgs[f.type_name]
    base = fp.name.rsplit("/", 1)[-1][:-len(".proto")]
    return top and m.name == "Value" and base == "struct" and not idx.proto_plus_pkg(fp.package)


def field_term(idx, f):
    if f.type == F.TYPE_MESSAGE:
        t = f"(TMessage {coq.s(f.type_name)})"
    elif f.type == F.TYPE_ENUM:
        t = "TEnum"
    else:
        t = "TScalar"
    rep = f.label == F.LABEL_REPEATED
    is_map = rep and f.type == F.TYPE_MESSAGE and idx.is_map_entry(f.type_name)
    presence = (not rep) and (f.proto3_optional or f.HasField("oneof_index") or f.type == F.TYPE_MESSAGE)
    return f"(mkField {coq.s(f.name)} {t} {coq.b(rep)} {coq.b(is_map)} {coq.b(struct_value(idx, f))} {coq.b(presence)})"


def closure(idx, fqn):
    seen, todo = [], [fqn]
    while todo:
        x = todo.pop()
        if x in seen or x not in idx.msgs:
            continue
        seen.append(x)
        for f in idx.msgs[x][0].field:
            if f.type == F.TYPE_MESSAGE:
                todo.append(f.type_name)
    return seen


def schema_term(idx, roots):
    names = []
    for r in roots:
        for x in closure(idx, r):
            if x not in names:
                names.append(x)
    items = []
    for x in sorted(names):
        m, fp, _ = idx.msgs[x]
        items.append(f"({coq.s(x)}, mkMsg {coq.b(idx.proto_plus_pkg(fp.package))} {coq.lst(field_term(idx, f) for f in m.field)})")
    return coq.lst(items)
