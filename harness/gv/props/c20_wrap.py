"""C20 — wrap / rst / Metadata.doc / textwrap contract: case grammar, direct oracle, T2 against Model/Wrap.v."""
import ast, re
from .. import env, coq, gen
from .c20_fixws import IMPORTS, RES_EQB, PYWS

TWWS = "\t\n\x0b\x0c\r "
TW_SPLIT = re.compile("[\t\n\x0b\x0c\r ]+")

WORDS = ["a", "bb", "ccc", "dddd", "eeeee", "the", "quick", "brown", "fox", "x" * 12, "y" * 25, "z" * 41, "foo:", "bar.", "Note:", "-", "+", "1.", "22.",
         "*", '"q"', "'s", "\\", "a\\b", "it-em", "http://a-b/c-d", "\x1c", "z:", ":", "e.g.", "(see", "below)", "3.", "i.e.,", "end\"",
         '"""', '""', '"""""', '\\"""', "C:\\", "\\\\", "\\\\\\", "x\\\\\\\\", "y" + "\\" * 5]
SEPS = [" "] * 12 + ["\n"] * 6 + ["  ", "   ", "\n\n", "\n ", "\n  ", "\t", " \n", "\r", "\x0c", ":\n", "\n- ", "\n+ ", "\n1. ", "\n22. ", "\n\n\n", "\x1d", ":\n\n", "\n\n- "]

CORPUS = [
    ("", 10, None, 0), ("a", 1, 0, 0), ("a\tb cccc dddd eeee", 12, 0, 0), ("  ab cd", 3, 0, 0), ("    ", 3, 0, 0), ("   ab", 4, 0, 0),
    ("foo bar baz", 72, None, 0), ("The quick brown fox jumps over the lazy dog. The quick brown fox", 40, 7, 4),
    ("abc:\ndef", 72, 0, 0), ("abc:", 72, 0, 0), ("abc:\n", 72, 0, 0), ("abc:\n\ndef", 72, 0, 0), ("x:\n:\ny", 20, 0, 0),
    ("Title\n- item one is here\n- item two\n", 20, 0, 4), ("1. first item which is long enough to wrap around\n22. second", 24, 3, 2),
    ("word " * 30, 30, 3, 8), ("a\n b\n c", 10, 0, 0), ("a\n\n\nb", 10, 0, 0), ("x" * 50 + " y", 20, 5, 4), ("ends with quote\"", 72, 7, 4),
    ("tab\there", 72, 0, 0), ("- a list item only", 10, 0, 0), ("short\n" + "long line " * 10 + "\nshort", 40, 3, 4),
    ("\nleading newline", 20, 0, 0), ("trailing   \n\n", 20, 0, 0), ("a \x1c b", 1, 0, 0), ("colon at 75 percent:" + " w" * 20, 40, 0, 0),
]


# texts ending in runs of 1..6 backslashes (one line and several lines), and a few quote endings: the tail of rst must make each safe
RST_CORPUS = [("ends with quote\"", 72, 4, None), ("a `b`", 72, 4, None), ("", 72, 0, None), ('five """"" quotes', 72, 8, None), ('\\"""', 72, 0, False)]
for _k in range(1, 7):
    for _t in ("UNC path ends here " + "\\" * _k, "\\" * _k, "line one\nline two " + "\\" * _k, "Note:\n- item " + "\\" * _k + "\n", "a\n\n" + "\\" * _k):
        for _w, _i, _nl in ((72, 4, None), (72, 0, False), (40, 8, True), (72, 16, False)):
            RST_CORPUS.append((_t, _w, _i, _nl))


def gen_text(r):
    k = r.randint(0, 12)
    t = ""
    if r.random() < 0.08:
        t = r.choice([" ", "  ", "\n", "\t", "   "])
    for i in range(k):
        t += r.choice(WORDS)
        if i < k - 1 or r.random() < 0.2:
            t += r.choice(SEPS)
    return t


def gen_case(r):
    text = gen_text(r)
    width = r.choice([r.randint(1, 12), r.randint(8, 40), r.randint(8, 40), 72, 80, 70])
    indent = r.choice([0, 0, 2, 4, 8, 12, 16])
    offset = r.choice([None, 0, 3, indent + 3, r.randint(0, max(0, width - 1))])
    off = indent if offset is None else offset
    if off >= width:                       # the quantifier demands offset < width
        offset = r.randint(0, width - 1)
    return text, width, offset, indent


# ---------------------------------------------------------------- the direct oracle
def words(s):
    return s.split()


def first_line_class(text, width, off):
    """Where the known candidate defects live (DESIGN section 9 nos. 6 and 17 and the leading-blank variant)."""
    t1 = text.replace("\n ", "\n")
    line0 = t1.split("\n")[0]
    first = line0 + "\n" + ("\n" if line0.endswith(":") else "")
    if len(first) <= width - off:
        return None
    if line0.strip(PYWS) == "" and line0 != "":
        return "wrap.blank_overlong_first_line"
    if "\t" in line0:
        return "wrap.tab_in_overlong_first_line"
    if line0[:1] in PYWS and line0:
        return "wrap.leading_blank_in_overlong_first_line"
    return None


def oracle_wrap(text, width, offset, indent, rec):
    off = indent if offset is None else offset
    sig = first_line_class(text, width, off)
    if "ok" not in rec:
        return [("raises", f"{rec.get('err')}", sig if rec.get("err") == "IndexError" else None)]
    out, bad = rec["ok"], []
    if words(out) != words(text):
        lost = [w for w in words(text) if w not in words(out)]
        bad.append(("words", f"words dropped, duplicated or reordered (e.g. {lost[:3]!r}): {out!r:.160}", sig))
    for i, line in enumerate(out.split("\n")):
        limit = width - off if i == 0 else width
        if len(line) > limit and len([w for w in TW_SPLIT.split(line) if w]) > 1:
            bad.append(("width", f"line {i} has {len(line)} > {limit} columns and more than one word: {line!r:.120}", None))
            break
    return bad


ESCAPED_TERMINATOR = '\\"\\"\\"'


def unescape(s):
    """rst writes the docstring terminator with a backslash before each quote; read it back as the terminator."""
    return s.replace(ESCAPED_TERMINATOR, '"""')


def docstring_body(out):
    """What Python reads when `out` is placed between r\"\"\" and \"\"\" (None: the source does not parse)."""
    try:
        tree = ast.parse('x = r"""' + out + '"""\n')
    except (SyntaxError, ValueError):
        return None
    if len(tree.body) != 1 or not isinstance(tree.body[0], ast.Assign) or not isinstance(tree.body[0].value, ast.Constant):
        return None
    return tree.body[0].value.value


def oracle_rst(text, width, indent, nl, rec):
    if "ok" not in rec:
        sig = first_line_class(text, width - indent, indent + 3)
        return [("raises", f"{rec.get('err')}", sig if rec.get("err") == "IndexError" else None)]
    out, bad = rec["ok"], []
    # text placed inside a generated docstring can never terminate the string literal early (both paths of rst)
    body = docstring_body(out)
    if body is None:
        bad.append(("docstring-safe", f"r\"\"\"...\"\"\" around the result is not a string literal: {out!r:.160}",
                    "docstring.triple_quote_in_comment" if '"""' in text else "docstring.trailing_backslash_in_service_comment" if text.rstrip().endswith("\\") else None))
    elif body != out.replace("\r\n", "\n").replace("\r", "\n"):
        bad.append(("docstring-safe", f"the literal read back differs from the result: {body!r:.120}", None))
    if rec.get("pandoc"):
        return bad
    w_out, w_in = words(unescape(out)), words(unescape(text))
    if w_out != w_in and not (w_in and w_in[-1].endswith('"') and w_out == w_in[:-1] + [w_in[-1] + "."]):
        bad.append(("words", f"rst (plain path) changed the words: {out!r:.160}", first_line_class(text, width - indent, indent + 3)))
    run = len(out) - len(out.rstrip("\\"))
    if out.endswith('"') or run % 2 == 1:
        bad.append(("quote-guard", f"the result ends in a double quote or in an odd run of {run} backslash(es): the closing triple quote would absorb it / be escaped: {out[-12:]!r}", None))
    return bad


def feats_wrap(text, width, offset, indent):
    f = []
    off = indent if offset is None else offset
    f.append("wrap:overlong-first" if len(text.replace("\n ", "\n").split("\n")[0]) + 1 > width - off else "wrap:first-fits")
    for name, pat in [("tab", "\t"), ("list", r"\n[-+] |\n\d+\. "), ("colon-nl", ":\n"), ("blank-line", "\n\n"), ("quote", '"'), ("backslash", r"\\"),
                      ("runs-of-spaces", "  "), ("long-token", r"\S{25}")]:
        if re.search(pat, text):
            f.append("wrap:" + name)
    if width <= 12:
        f.append("wrap:narrow")
    return f


def res_term(rec, field="ok"):
    if field in rec:
        return f"Ok {coq.s(rec[field])}"
    return {"IndexError": "IndexErr", "ValueError": "ValueErr"}.get(rec.get("err"), "OutOfFuel")


def run_wrap(ctx, cases, kind="grammar"):
    """cases: [(text,width,offset,indent)]"""
    recs = gen.impl("c20pure", {"wrap": [list(c) for c in cases]})["wrap"]
    checks = []
    for (text, width, offset, indent), rec in zip(cases, recs):
        case = {"kind": "wrap", "text": text, "width": width, "offset": offset, "indent": indent}
        ctx.case(case, nontrivial=bool(text.strip()), feature=feats_wrap(text, width, offset, indent) + [f"wrap:src={kind}"])
        for clause, detail, sig in oracle_wrap(text, width, offset, indent, rec):
            ctx.violation(f"wrap violates '{clause}': {detail}", {**case, "observed": rec, "clause": clause}, sig)
        if text.isascii() and len(text) < 4000:
            off = indent if offset is None else offset
            checks.append((f"wrap({text!r:.200}, {width}, offset={offset}, indent={indent})",
                           f"res_eqb (wrap {coq.s(text)} {width} {off} {indent}) ({res_term(rec)})"))
    return checks


def run_rst(ctx, cases, kind="grammar"):
    """cases: [(text,width,indent,nl)] — plain path and the pandoc decision"""
    recs = gen.impl("c20pure", {"rst": [list(c) for c in cases]})["rst"]
    checks = []
    for (text, width, indent, nl), rec in zip(cases, recs):
        case = {"kind": "rst", "text": text, "width": width, "indent": indent, "nl": nl}
        ctx.case(case, nontrivial=bool(text.strip()), feature=["rst:pandoc" if rec.get("pandoc") else "rst:plain", f"rst:src={kind}"])
        for clause, detail, sig in oracle_rst(text, width, indent, nl, rec):
            ctx.violation(f"rst violates '{clause}': {detail}", {**case, "observed": rec, "clause": clause}, sig)
        if text.isascii() and len(text) < 4000 and width >= indent:
            obs = "NeedsPandoc" if rec.get("pandoc") else res_term(rec)
            nlt = "None" if nl is None else f"(Some {coq.b(nl)})"
            checks.append((f"rst({text!r:.200}, width={width}, indent={indent}, nl={nl})",
                           f"res_eqb (rst {coq.s(text)} {width} {indent} {nlt}) ({obs})"))
    return checks


def run_contracts(ctx, n):
    """The textwrap contract, Metadata.doc and the three character classes (exhaustively over 0..127)."""
    tw_cases, doc_cases = [], []
    for i in range(n):
        r = env.rng("C20-tw", i)
        tw_cases.append([gen_text(r), r.randint(1, 30), " " * r.choice([0, 0, 2, 4, 9]), " " * r.choice([0, 2, 4, 6, 13])])
    for i in range(max(10, n // 5)):
        r = env.rng("C20-doc", i)
        mk = lambda: r.choice(["", "", " x ", gen_text(r), "\n y\n"])
        doc_cases.append({"leading": mk(), "trailing": mk(), "detached": [mk() for _ in range(r.randint(0, 3))]})
    out = gen.impl("c20pure", {"tw": tw_cases, "doc": doc_cases})
    checks = []
    for (t, w, ii, si), rec in zip(tw_cases, out["tw"]):
        ctx.case({"kind": "tw", "text": t, "width": w, "ii": ii, "si": si}, nontrivial=bool(t.strip()), feature=["contract:textwrap"])
        if t.isascii():
            obs = f"Some (Some {coq.slist(rec['ok'])})" if "ok" in rec else "None"
            checks.append((f"textwrap.wrap({t!r:.200}, {w}, {ii!r}, {si!r})",
                           f"option_eqb (option_eqb (list_eqb String.eqb)) (tw_wrap {w} {coq.s(ii)} {coq.s(si)} {coq.s(t)}) ({obs})"))
    for d, rec in zip(doc_cases, out["doc"]):
        ctx.case({"kind": "doc", **d}, nontrivial=True, feature=["contract:Metadata.doc"])
        if all(x.isascii() for x in [d["leading"], d["trailing"]] + d["detached"]) and "ok" in rec:
            checks.append((f"Metadata.doc({d!r:.200})", f"String.eqb (meta_doc {coq.s(d['leading'])} {coq.s(d['trailing'])} {coq.slist(d['detached'])}) {coq.s(rec['ok'])}"))
        elif "ok" not in rec:
            ctx.oblige(f"Metadata.doc raised on {d!r:.200}", False, str(rec))
    for c in range(128):
        ch = chr(c)
        for name, py in [("is_pyspace", ch.isspace()), ("is_twspace", ch in TWWS), ("is_word", bool(re.match(r"\w", ch))), ("is_digit", bool(re.match(r"\d", ch)))]:
            checks.append((f"{name}(chr {c})", f"Bool.eqb ({name} (chr {c}%N)) {coq.b(py)}"))
    return checks
