"""C10 — generation is a pure, deterministic function of the request (partial: byte identity is observed, not proved)."""
import base64, hashlib, json, os
from .. import env, coq, gen, apigen, apis, c10_inventory as inv
from ..apigen import File

RULE = ("(a) T0 site inventory: every set construction in gapic/*.py and every sorting filter in both template trees, keyed by "
        "(file, scope, kind, ordinal), must be exactly the classified table of Model/DetermSites.v; (b) T2: sort_lines, sorted() and "
        "Jinja's sort filter vs the model on generated line blocks / keyed records incl. equal keys; (c) oracle: the same "
        "CodeGeneratorRequest through `python -m gapic.cli.generate` in separate processes with different PYTHONHASHSEED, working "
        "directory, option-file location and WALL CLOCK (an LD_PRELOAD shim, harness/native/faketime.c, shifts the real-time clock of the k-th "
        "process by months to decades); responses must be byte-identical. Requests stress equal sort keys (resources with equal "
        "short names or names equal up to case, same module name in two packages, several retryable codes, several services, mixins). "
        "distinct = distinct request hash; non-trivial = the request has at least one equal-sort-key feature.")
TRUSTED = [
    "Model/Determ.v: model of sorted(), Jinja sort(attribute) (stable, lower-cased key), sort_lines; a Python set = any duplicate-free enumeration",
    "Model/DetermSites.v: hand classification of each set/sort site (membership-only / totally sorted / sorted by a key that is unique under a stated hypothesis)",
    "harness/gv/c10_inventory.py (ast + a regex over template text for filter names), impl/c10_pure.py",
    "harness/native/faketime.c: LD_PRELOAD shim over clock_gettime/gettimeofday/time (built with cc on first use; notes.clock_shim records whether it was available)",
    "PARTIAL: byte identity of the whole response is only observed on the explored requests and seeds; no theorem covers the generator as a whole",
]
ASSUMES = ["keys of a keyed sort are pairwise distinct up to case (otherwise sort_by_tie_refuted applies: the set's iteration order shows)"]

# seconds added to the real-time clock of the k-th process: now, +13 months, +5 years, -3 years, +37 days, +20 years ...
CLOCK_OFFSETS = [0, 34300800, 157766400, -94608000, 3196800, 631152000, 86400 * 366, -86400 * 200]
CLOCK_SHIM = gen.faketime_lib() is not None
SEEDS_QUICK = ["0", "1", "2", "3"]
SEEDS_THOROUGH = [str(i) for i in range(12)]


def regen(ctx):
    sites = [inv.site_key(s) for s in inv.py_sites()] + [inv.site_key(s) for s in inv.template_sites()]
    text = ("(* Gen/DetermSites.v — REGENERATED site inventory (T0). Do not edit. *)\nFrom GV Require Import Base.Str.\n"
            f"Definition SITES : list string := {coq.slist(sites)}.\n")
    coq.write_gen("DetermSites", text)


# ---------------------------------------------------------------- stress APIs
def stress_api(r, idx):
    api = apis.conventional(r)
    feats = []
    main = api.main
    svc_proto = main.proto.service[0]
    # find one request message to hang references on
    req = next(m for m in main.proto.message_type if m.name.endswith("Request"))

    def add_ref(name, typ):
        f = req.field.add()
        f.name, f.number, f.label, f.type = name, 50 + len(req.field), 1, 9
        from google.api import resource_pb2
        f.options.Extensions[resource_pb2.resource_reference].type = typ

    k = idx % 5
    if k in (0, 3):
        # two resources with the same short type name in different domains
        main.resource_def("alpha.example.com/Vault", ["vaults/{vault}"])
        main.resource_def("beta.example.com/Vault", ["projects/{project}/vaults/{vault}"])
        add_ref("vault_a", "alpha.example.com/Vault"); add_ref("vault_b", "beta.example.com/Vault")
        feats.append("equal-short-resource-name")
    if k in (1, 3):
        # names equal up to case: Jinja's sort is case-insensitive
        main.resource_def("gamma.example.com/Crate", ["crates/{crate}"])
        main.resource_def("gamma.example.com/crate", ["boxes/{box}"])
        add_ref("crate_a", "gamma.example.com/Crate"); add_ref("crate_b", "gamma.example.com/crate")
        feats.append("case-equal-resource-name")
    if k in (0, 2):
        # top-level messages and enums whose names differ only by case (legal: protobuf identifiers are case sensitive)
        a = main.message("IPAddress"); a.field("value", 1, "string")
        b = main.message("IpAddress"); b.field("value", 1, "string")
        main.enum("HTTPCode", ["HTTP_CODE_UNSPECIFIED", "HTTP_CODE_OK"]); main.enum("HttpCode", ["HTTPCODE_UNSPECIFIED", "HTTPCODE_OK"])
        f = req.field.add(); f.name, f.number, f.label, f.type, f.type_name = "ip_a", 80, 1, 11, a.fqn
        f = req.field.add(); f.name, f.number, f.label, f.type, f.type_name = "ip_b", 81, 1, 11, b.fqn
        feats.append("case-equal-message-names")
    if k in (2, 4):
        for i in range(4):
            main.resource_def(f"delta.example.com/Res{i}", [f"res{i}s/{{res{i}}}"])
            add_ref(f"res_{i}", f"delta.example.com/Res{i}")
        feats.append("many-resources")
    if idx % 2 == 0:
        # an oauth_scopes annotation with several scopes, blanks after commas, a trailing comma (and, when the generator accepts it, a
        # scope given twice): the scopes are emitted in AUTH_SCOPES and in the emitted tests, in declared order
        from google.api import client_pb2
        base = "https://www.googleapis.com/auth/"
        sc = [base + n for n in ("cloud-platform", "library", "library.readonly", "library.admin", "devstorage.read_write")]
        svc_proto.options.Extensions[client_pb2.oauth_scopes] = ", ".join(sc) + ("," if idx % 4 == 0 else ", " + sc[0] + ",")
        feats.append("oauth-scopes-with-blanks-trailing-comma" + ("" if idx % 4 == 0 else "-and-duplicate"))
    retry = None
    if k in (2, 3, 4):
        retry = {"methodConfig": [{"name": [{"service": f"{api.package}.{svc_proto.name}"}], "timeout": "60s",
                                   "retryPolicy": {"maxAttempts": 5, "initialBackoff": "0.1s", "maxBackoff": "60s", "backoffMultiplier": 1.3,
                                                   "retryableStatusCodes": ["UNAVAILABLE", "DEADLINE_EXCEEDED", "ABORTED", "INTERNAL", "UNKNOWN", "RESOURCE_EXHAUSTED"]}}]}
        feats.append("many-retry-codes")
    yaml = None
    if k in (1, 4):
        yaml = {"apis": [{"name": "google.longrunning.Operations"}, {"name": "google.cloud.location.Locations"}, {"name": "google.iam.v1.IAMPolicy"}],
                "http": {"rules": [{"selector": "google.longrunning.Operations.GetOperation", "get": "/v1/{name=operations/*}"},
                                   {"selector": "google.longrunning.Operations.ListOperations", "get": "/v1/{name=operations}"},
                                   {"selector": "google.cloud.location.Locations.GetLocation", "get": "/v1/{name=projects/*/locations/*}"},
                                   {"selector": "google.cloud.location.Locations.ListLocations", "get": "/v1/{name=projects/*}/locations"},
                                   {"selector": "google.iam.v1.IAMPolicy.GetIamPolicy", "post": "/v1/{resource=projects/*}:getIamPolicy", "body": "*"}]}}
        feats.append("mixins")
    if idx % 4 in (1, 2):
        # selective generation: the pruned schema is rebuilt from an allow-list (a set of addresses)
        allm = [f"{api.package}.{sv.name}.{m.name}" for sv in main.proto.service for m in sv.method]
        if len(allm) >= 3:
            yaml = dict(yaml or {})
            yaml["publishing"] = {"library_settings": [{"version": api.package, "python_settings": {"common": {"selective_gapic_generation": {
                "methods": r.sample(allm, max(3, len(allm) // 2)), "generate_omitted_as_internal": idx % 8 == 2}}}}]}
            feats.append("selective-generation" + ("-internal" if idx % 8 == 2 else "-omit"))
    if idx % 2 == 1:
        # fields with special annotations whose mock / sample values are rendered into the emitted tests and snippets
        from google.api import field_info_pb2, field_behavior_pb2
        for m in main.proto.message_type[:6]:
            for nm, num in (("uid", 160), ("request_id", 161)):
                if nm not in [x.name for x in m.field]:
                    f = m.field.add(); f.name, f.number, f.label, f.type = nm, num, 1, 9
                    f.options.Extensions[field_info_pb2.field_info].format = field_info_pb2.FieldInfo.UUID4
            f = m.field.add(); f.name, f.number, f.label, f.type = "address_v4", 162, 1, 9
            f.options.Extensions[field_info_pb2.field_info].format = field_info_pb2.FieldInfo.IPV4
        feats.append("uuid4-and-ip-formatted-fields")
        # AIP-4235: several auto-populated fields on one unary rpc (the client emits one block per field, in the configured order)
        fresh = {}
        for m in main.proto.message_type:
            names = {x.name for x in m.field}
            if m.name.endswith("Request") and not ({"trace_uuid", "span_uuid", "dedupe_uuid", "attempt_uuid"} & names):
                for nm, num in (("trace_uuid", 170), ("span_uuid", 171), ("dedupe_uuid", 172), ("attempt_uuid", 173)):
                    f = m.field.add(); f.name, f.number, f.label, f.type = nm, num, 1, 9
                    f.options.Extensions[field_info_pb2.field_info].format = field_info_pb2.FieldInfo.UUID4
                fresh["." + api.package + "." + m.name] = True
        ms = [{"selector": f"{api.package}.{sv.name}.{m.name}", "auto_populated_fields": ["trace_uuid", "span_uuid", "dedupe_uuid", "attempt_uuid"]}
              for sv in main.proto.service for m in sv.method
              if not m.client_streaming and not m.server_streaming and m.input_type in fresh]
        sel = [ls for ls in ((yaml or {}).get("publishing") or {}).get("library_settings", [])]
        if sel:      # selective generation: only methods that stay in the library can carry settings
            kept = set(sel[0]["python_settings"]["common"]["selective_gapic_generation"]["methods"])
            ms = [x for x in ms if x["selector"] in kept]
        ms = ms[:3]
        if ms:
            yaml = dict(yaml or {})
            pub = dict(yaml.get("publishing") or {})
            pub["method_settings"] = ms
            yaml["publishing"] = pub
            feats.append("several-auto-populated-fields")
    api.extra_targets = []
    if idx % 3 != 2:
        # several proto sub-packages of the API package (the generator walks them when it emits the %sub templates)
        names = r.sample(["catalog", "lending", "admin", "billing", "search", "audit", "zeta", "alpha"], r.randint(2, 5))
        first = main.proto.message_type[0]
        for n, sub in enumerate(names):
            sf = File(f"{api.dir}/{sub}/{sub}.proto", f"{api.package}.{sub}", deps=list(apigen.STD_DEPS))
            sm = sf.message(sub.capitalize() + "Note"); sm.field("text", 1, "string")
            sq = sf.message("Get" + sub.capitalize() + "NoteRequest"); sq.field("name", 1, "string")
            if n % 2 == 0:
                ss = sf.service(sub.capitalize() + "Service", host=api.host)
                ss.rpc("Get" + sub.capitalize() + "Note", sq.fqn, sm.fqn, http=("get", "/v1/{name=%sNotes/*}" % sub), sigs=["name"])
            main.dep(sf.proto.name)
            f = first.field.add(); f.name, f.number, f.label, f.type, f.type_name = f"{sub}_note", 140 + n, 1, 11, sm.fqn
            api.extra_targets.append(sf)
        feats.append("several-sub-packages")
    api.extra_deps = []
    if idx % 2 == 0:
        # field types from several separately published packages (the setup.py / constraints dependency lists)
        table = [("google.geo.type", "Viewport"), ("google.shopping.type", "Price"), ("google.cloud.kms.v1", "CryptoKey"),
                 ("google.iam.v2", "Policy"), ("google.cloud.osconfig.v1", "Inventory"), ("google.apps.card.v1", "Card"),
                 ("google.cloud.documentai.v1", "Document"), ("google.identity.accesscontextmanager.v1", "AccessLevel"),
                 ("google.apps.script.type", "AddOnWidgetSet")]
        for n, (pk, mname) in enumerate(r.sample(table, r.randint(3, 6))):
            dep = File("/".join(pk.split(".")) + "/" + mname.lower() + ".proto", pk)
            dm = dep.message(mname); dm.field("name", 1, "string")
            main.dep(dep.proto.name)
            f = req.field.add(); f.name, f.number, f.label, f.type, f.type_name = f"ext_{mname.lower()}", 120 + n, 1, 11, dm.fqn
            api.extra_deps.append(dep)
        feats.append("several-published-dependency-packages")
    return api, feats, retry, yaml


def extended_multi_request(r, idx):
    """Compute-style API: one service whose rpcs are polled through several extended-operation services."""
    from google.cloud import extended_operations_pb2 as ex_pb2
    from ..apigen import File
    fp = apigen.dp.FileDescriptorProto(); ex_pb2.DESCRIPTOR.CopyToProto(fp)
    pkg = ["google.cloud.fakecompute.v1", "acme.fleet.v2"][idx % 2]
    f = File("/".join(pkg.split(".")) + "/compute.proto", pkg, deps=list(apigen.STD_DEPS) + ["google/cloud/extended_operations.proto"])
    op = f.message("Operation")
    st = op.enum("Status", ["STATUS_UNSPECIFIED", "DONE", "RUNNING"])
    for i, (n, t) in enumerate([("name", "string"), ("status", ("enum", st)), ("error_code", "int32"), ("error_message", "string")], 1):
        op.field(n, i, t)
        op.proto.field[-1].options.Extensions[ex_pb2.operation_field] = i
    scopes = r.sample(["Zone", "Region", "Global", "Org", "Folder", "Rack", "Aisle", "Bay"], r.randint(3, 6))
    for sc in scopes:
        greq = f.message(f"Get{sc}OperationRequest")
        greq.field("operation", 1, "string", required=True).field("project", 2, "string", required=True)
        greq.proto.field[0].options.Extensions[ex_pb2.operation_response_field] = "name"
        ops = f.service(f"{sc}Operations", host="compute.example.com")
        ops.rpc("Get", greq.fqn, op.fqn, http=("get", f"/v1/projects/{{project}}/{sc.lower()}/operations/{{operation}}"))
        ops.proto.method[-1].options.Extensions[ex_pb2.operation_polling_method] = True
    s = f.service("Instances", host="compute.example.com")
    for i, sc in enumerate(scopes):
        rq = f.message(f"Insert{sc}InstanceRequest")
        rq.field("project", 1, "string", required=True).field("instance_name", 2, "string")
        rq.proto.field[0].options.Extensions[ex_pb2.operation_request_field] = "project"
        s.rpc(f"Insert{sc}Instance", rq.fqn, op.fqn, http=("post", f"/v1/projects/{{project}}/{sc.lower()}/instances"), body="*")
        s.proto.method[-1].options.Extensions[ex_pb2.operation_service] = f"{sc}Operations"
    return apigen.request([fp, f], to_generate=[f.proto.name], parameter="transport=rest")


def diff_lines(a, b):
    la, lb = a.split("\n"), b.split("\n")
    for i, (x, y) in enumerate(zip(la, lb)):
        if x != y:
            return i + 1, x[:160], y[:160]
    return min(len(la), len(lb)) + 1, "", ""


def run_seeds(args):
    """Returns {"errors": {...}} or {"diff": None | {seed_a, seed_b, file, line, a, b, differing}}."""
    idx, req_b, retry, yaml, seeds = args
    outs, errs = {}, {}
    for s in seeds:
        d = gen.case_dir(f"c10-{idx}-{s}")          # different cwd and option-file location per process
        req = apigen.plugin_pb2.CodeGeneratorRequest(); req.ParseFromString(req_b)
        r2 = gen.with_params(req, [req.parameter], d, service_yaml=yaml, retry=retry)
        # every process also sees another wall clock (seed k: shifted by CLOCK_OFFSETS[k]); the first is the real time
        res, err = gen.run_generator(r2, hashseed=s, cwd=d, clock_offset=CLOCK_OFFSETS[seeds.index(s) % len(CLOCK_OFFSETS)] if CLOCK_SHIM else 0)
        gen.rm(d)
        if res is None:
            errs[s] = err[-400:]
        else:
            outs[s] = [(f.name, f.content) for f in res.file]
    if errs:
        return {"errors": errs}
    base = seeds[0]
    for s in seeds[1:]:
        if outs[s] == outs[base]:
            continue
        na, nb = [n for n, _ in outs[base]], [n for n, _ in outs[s]]
        if na != nb:
            return {"diff": {"seed_a": base, "seed_b": s, "file": "<file order/set>", "line": 0, "a": str(na[:5]), "b": str(nb[:5]), "differing": []}}
        differing = [n for (n, ca), (_, cb) in zip(outs[base], outs[s]) if ca != cb]
        ca, cb = dict(outs[base])[differing[0]], dict(outs[s])[differing[0]]
        ln, x, y = diff_lines(ca, cb)
        return {"diff": {"seed_a": base, "seed_b": s, "file": differing[0], "line": ln, "a": x, "b": y, "differing": differing[:10]}}
    return {"diff": None}


def run_sweep(ctx, n, seeds):
    jobs = []
    for i in range(n):
        r = env.rng("C10-api", i)
        try:
            api, feats, retry, yaml = stress_api(r, i)
            req = api.request("transport=" + ["grpc+rest", "grpc", "rest"][i % 3] + (",metadata" if i % 2 else ""), extra_files=api.extra_deps + api.extra_targets,
                              to_generate=[f.proto.name for f in api.files + api.extra_targets])
        except apigen.Invalid:
            ctx.features["invalid-candidate"] += 1
            continue
        jobs.append((i, req.SerializeToString(), retry, yaml, seeds, feats))
    for k in range(1 if ctx.quick() else 4):
        i = 1000 + k
        try:
            req = extended_multi_request(env.rng("C10-extended", k), k)
        except apigen.Invalid as e:
            ctx.oblige(f"sweep #{i}: the extended-operations API is a valid input", False, str(e)[:300])
            continue
        jobs.append((i, req.SerializeToString(), None, None, seeds, ["extended-operations-several-services"]))
    results = gen.pmap(lambda j: run_seeds(j[:5]), jobs, workers=max(2, env.NCPU // 2))
    for (i, req_b, retry, yaml, _, feats), resd in zip(jobs, results):
        case = {"index": i, "request_b64": base64.b64encode(req_b).decode(), "retry": retry, "service_yaml": yaml, "seeds": seeds}
        ctx.case({"request": hashlib.sha256(req_b).hexdigest(), "features": feats}, nontrivial=bool(feats), feature=feats or ["plain"])
        if "errors" in resd:
            ctx.oblige(f"sweep #{i}: generation succeeds under every seed", False, str(resd["errors"])[:400])
            continue
        d = resd["diff"]
        if d:
            sig = None
            if "_path" in (d["a"] + d["b"]) and ("equal-short-resource-name" in feats or "case-equal-resource-name" in feats):
                sig = "determ.resource_sort_tie"
            ctx.violation(f"response differs between PYTHONHASHSEED={d['seed_a']} and {d['seed_b']} (other process, working directory and wall clock): file {d['file']} line {d['line']}: {d['a']!r} vs {d['b']!r}",
                          dict(case, diff=d), sig)


# ---------------------------------------------------------------- T2 on the combinators
def run_pure(ctx):
    r = env.rng("C10-pure", 0)
    words = ["import a", "import b", "from x import y", "  indented", "", "   ", "B", "b", "a", "A", "zeta", "from a import (", "x = 1", "é", "tab\tsep"]
    texts = []
    for i in range(ctx.n(60, 300)):
        k = r.randint(0, 7)
        lines = [r.choice(words) for _ in range(k)]
        t = "\n".join(lines)
        if r.random() < 0.4:
            t = "\n" + t
        if r.random() < 0.4:
            t = t + "\n"
        if r.random() < 0.2:
            t = "  " + t + "  "
        texts.append(t)
    recs = []
    for i in range(ctx.n(40, 200)):
        k = r.randint(0, 6)
        recs.append([[r.choice(["Book", "book", "shelf", "Shelf", "a", "B", "zoo", "Zoo", "item_1", "Item-2"]), f"t{j}"] for j in range(k)])
    # selective generation requests: the order of the pruned schema dicts (model: prune_decl)
    selective = []
    for i in range(1, ctx.n(10, 60)):
        if i % 4 not in (1, 2):
            continue
        try:
            api, feats, retry, yaml = stress_api(env.rng("C10-api", i), i)
            req = api.request("transport=grpc", extra_files=api.extra_deps + api.extra_targets, to_generate=[f.proto.name for f in api.files + api.extra_targets])
        except apigen.Invalid:
            continue
        if not any(f.startswith("selective-generation") for f in feats):
            continue
        req = gen.with_params(req, [req.parameter], gen.case_dir(f"c10-prune-{i}"), service_yaml=yaml, retry=None)
        selective.append({"index": i, "request_b64": base64.b64encode(req.SerializeToString()).decode(), "features": feats})
    out = gen.impl("c10_pure", {"texts": texts, "recs": recs, "selective": selective})
    # direct oracle on the combinators themselves: the same call in processes with other hash seeds
    for seed in (["1", "2", "3"] if ctx.quick() else [str(i) for i in range(1, 9)]):
        other = gen.impl("c10_pure", {"texts": texts, "recs": recs}, hashseed=seed)
        for k in ("sort_lines_dedupe", "sort_lines_nodedupe"):
            for t, a, b in zip(texts, out[k], other[k]):
                if a != b:
                    ctx.violation(f"{k}({t!r}) differs between PYTHONHASHSEED=0 ({a!r}) and {seed} ({b!r})", {"text": t, "function": k, "seeds": ["0", seed]},
                                  None)
                    break
    checks = []
    for t, d1, d0 in zip(texts, out["sort_lines_dedupe"], out["sort_lines_nodedupe"]):
        ctx.case({"sort_lines": t}, nontrivial=len(set(t.split("\n"))) > 1, feature="sort_lines")
        checks.append((f"sort_lines dedupe {t!r}", f"String.eqb (sort_lines true {coq.s(t)}) {coq.s(d1)}"))
        checks.append((f"sort_lines nodedupe {t!r}", f"String.eqb (sort_lines false {coq.s(t)}) {coq.s(d0)}"))
    for rec, got, srt in zip(recs, out["jinja_sort"], out["sorted_names"]):
        ctx.case({"jinja_sort": rec}, nontrivial=len(rec) > 1, feature="jinja-sort" + ("-tie" if len({a.lower() for a, _ in rec}) < len(rec) else ""))
        term = coq.lst(f"({coq.s(a)}, {coq.s(b)})" for a, b in rec)
        want = coq.lst(f"({coq.s(a)}, {coq.s(b)})" for a, b in got)
        checks.append((f"jinja sort {rec}", f"list_eqb (pair_eqb String.eqb String.eqb) (jinja_sort fst {term}) {want}"))
        checks.append((f"sorted {rec}", f"list_eqb String.eqb (sorted_strs {coq.slist([a for a, _ in rec])}) {coq.slist(srt)}"))
    for sel, rows in zip(selective, out["prune"]):
        for row in rows:
            ctx.case({"prune": sel["index"], "file": row["file"], "dict": row["dict"]}, nontrivial=0 < len(row["pruned"]) < len(row["decl"]) and len(row["pruned"]) > 1,
                     feature="pruned-" + row["dict"])
            checks.append((f"selective api #{sel['index']} {row['file']} {row['dict']}: pruned keys {row['pruned'][:6]} of declared {row['decl'][:6]}",
                           f"list_eqb String.eqb (prune_decl {coq.slist(row['decl'])} {coq.slist(sorted(row['pruned']))}) {coq.slist(row['pruned'])}"))
    failing, errors, nf = coq.eval_checks("c10pure", "From GV Require Import Model.Determ.", "", checks)
    ctx.oblige(f"T2 model = implementation on {len(checks)} evaluations of sort_lines / sorted / Jinja sort / selective pruning order", not failing and not errors,
               "; ".join((failing + errors)[:6]))


def run(ctx):
    ctx.notes["clock_shim"] = CLOCK_SHIM
    ctx.stage("pure T2", run_pure, ctx)
    ctx.stage("sweep", run_sweep, ctx, ctx.n(6, 60), SEEDS_QUICK if ctx.quick() else SEEDS_THOROUGH)


def replay(ctx, rep):
    c = rep.get("case", {})
    if "request_b64" in c:
        resd = run_seeds((c.get("index", 0), base64.b64decode(c["request_b64"]), c.get("retry"), c.get("service_yaml"), c.get("seeds", SEEDS_THOROUGH)))
        ctx.case({"replay": c.get("index")})
        if resd.get("diff"):
            d = resd["diff"]
            ctx.violation(f"response differs between PYTHONHASHSEED={d['seed_a']} and {d['seed_b']}: file {d['file']} line {d['line']}", c)
    else:
        run(ctx)
