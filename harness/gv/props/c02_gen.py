"""C02 — input generation (descriptor sets), schema extraction from a request, Coq term rendering.

Everything here is independent of /repo: type names are resolved with our own walk over the FileDescriptorProtos
(DescriptorPool is the validity judge), the module-collision closure is our own traversal."""
import keyword
from google.protobuf import descriptor_pb2 as dp
from .. import apigen, coq, t0
from ..apigen import File, SCALARS, MAP_KEY_SCALARS

F = dp.FieldDescriptorProto
TARGET = "google.example.c02.v1"
TARGET_DIR = "google/example/c02/v1"
PYPKG = "google.example.c02_v1"
TYPES_PREFIX = ["google", "example", "c02_v1"]
SCALAR_NAMES = {v: k.upper() for k, v in SCALARS.items()}       # type code -> proto.<NAME>
TOP_NAMES = ["Alpha", "Beta", "Gamma", "Delta", "Epsilon", "Zeta", "Eta", "Theta", "Iota", "Kappa", "Lambda", "Mu", "Nu", "Xi",
             "Omicron", "Rho", "Sigma", "Tau", "Upsilon", "Phi", "Chi", "Psi", "Omega", "Book", "Shelf", "Node", "Tree", "Edge"]
NESTED_NAMES = ["Inner", "Part", "Item", "Detail", "Leaf", "Cell", "Meta", "Spec", "State", "Opts", "Entry2", "Row"]
ENUM_NAMES = ["Kind", "Level", "Mode", "Color", "Phase", "Flavor", "Rank"]
FIELD_NAMES = ["title", "count", "rating", "flags", "labels", "payload", "weight", "state", "tags", "detail", "blob", "ratio", "size",
               "owner", "notes", "level", "stamp", "foo_bar", "x1_y2", "a_b_c", "data2", "display_name", "create_time",
               "page_token", "etag", "uid", "parent_ref", "next_node", "left", "right", "child", "items", "by_key", "options2", "v"]
BIG_NUMBERS = [15, 16, 127, 128, 2047, 2048, 16383, 16384, 18999, 20000, 536870911]
WKT = [(".google.protobuf.Struct", "google/protobuf/struct.proto"), (".google.protobuf.Value", "google/protobuf/struct.proto"),
       (".google.protobuf.Timestamp", "google/protobuf/timestamp.proto"), (".google.protobuf.Duration", "google/protobuf/duration.proto"),
       (".google.protobuf.FieldMask", "google/protobuf/field_mask.proto"), (".google.protobuf.Int32Value", "google/protobuf/wrappers.proto"),
       (".google.protobuf.StringValue", "google/protobuf/wrappers.proto"), (".google.protobuf.Empty", "google/protobuf/empty.proto"),
       (".google.type.Expr", "google/type/expr.proto"), (".google.rpc.Status", "google/rpc/status.proto")]
WKT_ENUM = [(".google.protobuf.NullValue", "google/protobuf/struct.proto")]


class Invalid(Exception):
    pass


# ------------------------------------------------------------------------------------------------ universe / schema
def universe(req):
    """full name (no leading dot) -> {kind, pkg, module, parent, name, file, pb} for every type of every file of the request."""
    u = {}

    def walk(fp, pb, parent, kind):
        pkg = fp.package.split(".") if fp.package else []
        full = ".".join(pkg + parent + [pb.name])
        u[full] = {"kind": kind, "pkg": pkg, "module": fp.name.split("/")[-1][:-len(".proto")], "parent": list(parent),
                   "name": pb.name, "file": fp.name, "pb": pb, "full": full}
        if kind == "m":
            for e in pb.enum_type:
                walk(fp, e, parent + [pb.name], "e")
            for n in pb.nested_type:
                walk(fp, n, parent + [pb.name], "m")

    for fp in req.proto_file:
        for e in fp.enum_type:
            walk(fp, e, [], "e")
        for m in fp.message_type:
            walk(fp, m, [], "m")
    return u


def target_files(req):
    gen = set(req.file_to_generate)
    return [fp for fp in req.proto_file if fp.name in gen and fp.package.startswith(TARGET)]


def _addr(t):
    return {"pkg": t["pkg"], "module": t["module"], "parent": t["parent"], "name": t["name"]}


def schema_msg(u, pb):
    fields = []
    for f in pb.field:
        if f.type in SCALAR_NAMES:
            ty = ("s", SCALAR_NAMES[f.type])
        elif f.type in (F.TYPE_MESSAGE, F.TYPE_ENUM):
            t = u.get(f.type_name.lstrip("."))
            if t is None:
                raise Invalid(f"unresolved {f.type_name}")
            ty = ("m" if f.type == F.TYPE_MESSAGE else "e", _addr(t))
        else:
            raise Invalid(f"unsupported field type {f.type}")
        fields.append({"name": f.name, "number": f.number, "type": ty, "repeated": f.label == F.LABEL_REPEATED,
                       "oneof": f.oneof_index if f.HasField("oneof_index") else None, "opt": bool(f.proto3_optional)})
    return {"name": pb.name, "fields": fields, "oneofs": [o.name for o in pb.oneof_decl],
            "nested": [schema_msg(u, n) for n in pb.nested_type],
            "enums": [schema_enum(e) for e in pb.enum_type], "map_entry": bool(pb.options.map_entry)}


def schema_enum(pb):
    return {"name": pb.name, "values": [(v.name, v.number) for v in pb.value]}


def schema_file(u, fp):
    return {"pkg": fp.package.split("."), "module": fp.name.split("/")[-1][:-len(".proto")], "file": fp.name,
            "enums": [schema_enum(e) for e in fp.enum_type], "msgs": [schema_msg(u, m) for m in fp.message_type]}


def is_pp(pkg):
    return ".".join(pkg).startswith(TARGET)


def collide_modules(u, fp):
    """Module names reached (transitively through message fields, across files) under more than one package.
    Our own closure; the generator's Proto.names is compared with the model's proto_names on every run (T2)."""
    mods = {}
    seen = set()
    todo = []

    def push_fields(pb):
        for f in pb.field:
            if f.type in (F.TYPE_MESSAGE, F.TYPE_ENUM):
                todo.append(f.type_name.lstrip("."))

    for full, t in u.items():
        if t["file"] == fp.name and t["kind"] == "m":
            push_fields(t["pb"])
    while todo:
        n = todo.pop()
        if n in seen:
            continue
        seen.add(n)
        t = u[n]
        mods.setdefault(t["module"], set()).add(tuple(t["pkg"]))
        if t["kind"] == "m":
            push_fields(t["pb"])
    return sorted(m for m, pk in mods.items() if len(pk) > 1)


def module_table(u, req, fp):
    """[(key, proto package, [dotted type paths])] for every other file of the request (what `import` binds)."""
    out = {}
    for full, t in u.items():
        if t["file"] == fp.name:
            continue
        key = ".".join(t["pkg"]) + "/" + t["module"]
        out.setdefault(key, (".".join(t["pkg"]), []))[1].append(".".join(t["parent"] + [t["name"]]))
    return [(k, v[0], sorted(v[1])) for k, v in sorted(out.items())]


# ------------------------------------------------------------------------------------------------ Coq terms
def c_addr(a):
    return f"(mkAddr {coq.slist(a['pkg'])} {coq.s(a['module'])} {coq.slist(a['parent'])} {coq.s(a['name'])})"


def c_type(ty):
    if ty[0] == "s":
        return f"(TScalar S_{ty[1]})"
    return f"(TRef {'KMsg' if ty[0] == 'm' else 'KEnum'} {c_addr(ty[1])})"


def c_field(f):
    return (f"(mkField {coq.s(f['name'])} {coq.z(f['number'])} {c_type(f['type'])} {coq.b(f['repeated'])} "
            f"{coq.opt(f['oneof'], coq.nat)} {coq.b(f['opt'])})")


def c_enum(e):
    return f"(mkEnum {coq.s(e['name'])} {coq.lst(f'({coq.s(n)}, {coq.z(v)})' for n, v in e['values'])})"


def c_msg(m):
    return (f"(Msg {coq.s(m['name'])} {coq.lst(c_field(f) for f in m['fields'])} {coq.slist(m['oneofs'])} "
            f"{coq.lst(c_msg(n) for n in m['nested'])} {coq.lst(c_enum(e) for e in m['enums'])} {coq.b(m['map_entry'])})")


def c_file(s):
    return (f"(mkFile {coq.slist(s['pkg'])} {coq.s(s['module'])} {coq.lst(c_enum(e) for e in s['enums'])} "
            f"{coq.lst(c_msg(m) for m in s['msgs'])})")


def c_api(collide):
    return f"(mkApi {coq.s(TARGET)} \"v1\" {coq.slist(TYPES_PREFIX)} {coq.slist(collide)})"


def c_modtab(tab):
    return coq.lst(f"({coq.s(k)}, ({coq.s(p)}, {coq.slist(paths)}))" for k, p, paths in tab)


# ------------------------------------------------------------------------------------------------ defect-class predicates
def rendered_refs(u, t):
    """(field name, target type record) for every type reference the message template prints for message t
    (a map field prints the VALUE type of its entry, relative to the enclosing message)."""
    out = []
    for f in t["pb"].field:
        if f.type not in (F.TYPE_MESSAGE, F.TYPE_ENUM):
            continue
        a = u[f.type_name.lstrip(".")]
        if a["kind"] == "m" and a["pb"].options.map_entry and f.label == F.LABEL_REPEATED:
            v = next((x for x in a["pb"].field if x.name == "value"), None)
            if v is None or v.type not in (F.TYPE_MESSAGE, F.TYPE_ENUM):
                continue
            a = u[v.type_name.lstrip(".")]
        out.append((f.name, a))
    return out


def rel_misfire_sites(u, fp):
    """Fields of a nested message X.N whose type is N'.… with N' = N a different top-level message of the same file."""
    out = []
    for full, t in u.items():
        if t["file"] != fp.name or t["kind"] != "m" or not t["parent"] or t["pb"].options.map_entry:
            continue
        for fname, a in rendered_refs(u, t):
            if a["file"] == fp.name and a["parent"] and a["parent"][0] == t["name"] and a["parent"][0] != t["parent"][0]:
                out.append((full, fname))
    return out


def defect_classes(req):
    """Known-defect input classes present in the request: {signature: detail} (computed on the input only)."""
    u = universe(req)
    out = {}
    reserved = set(t0.reserved_names())
    for fp in target_files(req):
        neg = [n for n, t in u.items() if t["file"] == fp.name and t["kind"] == "e" and any(v.number < 0 for v in t["pb"].value)]
        if neg:
            out.setdefault("enum.negative_value", []).append((fp.name, neg))
        seen = {}
        for n, t in u.items():
            if t["file"] != fp.name or t["kind"] != "m":
                continue
            for f in t["pb"].field:
                if f.type in (F.TYPE_MESSAGE, F.TYPE_ENUM):
                    a = u[f.type_name.lstrip(".")]
                    if not is_pp(a["pkg"]):
                        seen.setdefault(a["module"], set()).add(tuple(a["pkg"]))
        clash = sorted(m for m, pk in seen.items() if len(pk) > 1)
        if clash:
            # DESIGN section 9 no. 15b: the alias scheme (initials of the package components) cannot tell foo.bar from fab.baz;
            # kept apart so that a repair of no. 15 that reuses module_alias is not masked by 15b
            def initials(pk):
                return "".join(part[:1] for comp in pk if comp != "v1" for part in comp.split("_"))
            same = [m for m in clash if len({initials(pk) for pk in seen[m]}) < len(seen[m])]
            sig = "import.alias_equal_initials" if same else "import.pb2_same_basename"
            out.setdefault(sig, []).append((fp.name, clash))
    return out


# ------------------------------------------------------------------------------------------------ random APIs
class Builder:
    """Two phases: a skeleton of type names (so that forward, recursive and cross-file references exist), then fields."""

    def __init__(self, r, flavor=None):
        self.r = r
        self.flavor = flavor or {}
        self.reserved = sorted(set(t0.reserved_names()) - {"__peg_parser__"})
        self.files = []          # (File, [top msg nodes], [enum fqns])
        self.types = []          # dicts: fqn kind file(name) top(str) depth node
        self.features = set()
        self.used_top = set()

    # ---- skeleton
    def enum_values(self, prefix):
        r = self.r
        n = r.choice([1, 1, 2, 3, 4, 6])
        names = [f"{prefix}_UNSPECIFIED"] + [f"{prefix}_{w}" for w in r.sample(["ONE", "TWO", "RED", "BLUE", "HOT", "COLD", "UP", "DOWN"], n - 1)]
        pool = [1, 2, 3, 5, 7, 10, 100, 1000, 2 ** 31 - 1]
        if self.flavor.get("negative_enum"):
            pool += [-1, -3, -2 ** 31]
        nums = [0] + r.sample(pool, n - 1)
        if self.flavor.get("negative_enum") and n > 1 and not any(x < 0 for x in nums):
            nums[-1] = -r.choice([1, 7, 2 ** 31])
        if n == 1:
            self.features.add("enum-single-value")
        if any(x < 0 for x in nums):
            self.features.add("enum-negative")
        if nums != sorted(nums):
            self.features.add("enum-unsorted")
        return list(zip(names, nums))

    def add_enum(self, owner, file, parent_fqn, name, depth):
        prefix = name.upper() + (str(depth) if depth else "")
        fqn = owner.enum(name, self.enum_values(prefix))
        if not isinstance(fqn, str):
            raise Invalid("enum")
        self.types.append({"fqn": fqn, "kind": "e", "file": file.proto.name, "depth": depth})
        return fqn

    def add_msg(self, owner, file, name, depth, top):
        node = owner.message(name) if depth == 0 else owner.nested(name)
        self.types.append({"fqn": node.fqn, "kind": "m", "file": file.proto.name, "depth": depth, "node": node, "top": top})
        r = self.r
        if depth < 3 and r.random() < (0.55 if depth == 0 else 0.4):
            names = r.sample(NESTED_NAMES, r.randint(1, 2))
            if r.random() < (0.4 if self.flavor.get("proto_names") else 0.04):
                names[0] = "proto"
                self.features.add("message-named-proto")
            if self.flavor.get("misfire") and depth == 0 and self.used_top and r.random() < 0.7:
                names[0] = r.choice(sorted(self.used_top - {name}) or names[:1])
            for nm in names:
                self.add_msg(node, file, nm, depth + 1, top)
                self.features.add(f"nesting-depth={depth + 2}")
        if r.random() < (0.7 if self.flavor.get("proto_names") else 0.3):
            en = r.choice(ENUM_NAMES)
            if "proto" not in [n.name for n in node.proto.nested_type] and r.random() < (0.3 if self.flavor.get("proto_names") else 0.04):
                en = "proto"
                self.features.add("enum-named-proto")
            self.add_enum(node, file, node.fqn, en, depth + 1)
            self.features.add("nested-enum")
        return node

    def skeleton(self, nfiles, pkg=TARGET, dirn=TARGET_DIR, names=("res", "extra", "main")):
        r = self.r
        for i in range(nfiles):
            f = File(f"{dirn}/{names[i]}.proto", pkg)
            for _ in range(r.randint(1, 4) if i < nfiles - 1 else r.randint(2, 5)):
                nm = r.choice([n for n in TOP_NAMES if n not in self.used_top])
                self.used_top.add(nm)
                self.add_msg(f, f, nm, 0, nm)
            for _ in range(r.choice([0, 1, 1, 2]) if not self.flavor.get("proto_names") else r.choice([1, 2])):
                nm = r.choice([n for n in ENUM_NAMES if n not in self.used_top])
                self.used_top.add(nm)
                self.add_enum(f, f, None, nm, 0)
            self.files.append(f)

    def dep_package(self, pkg, fname, tag):
        """A small self-contained non-proto-plus dependency package."""
        r = self.r
        f = File(f"{pkg.replace('.', '/')}/{fname}.proto", pkg)
        thing = f.message(f"{tag}Thing")
        thing.field("id", 1, r.choice(["int64", "string", "fixed32"])).field("names", 2, "string", repeated=True)
        part = thing.nested("Part")
        part.field("weight", 1, r.choice(["double", "float", "sint32"]))
        thing.field("part", 3, part.fqn)
        lvl = f.enum(f"{tag}Level", [f"{tag.upper()}_LEVEL_UNSPECIFIED", (f"{tag.upper()}_HIGH", 4)])
        nested_e = thing.enum("Shape", ["SHAPE_UNSPECIFIED", "ROUND", "SQUARE"])
        thing.field("level", 4, ("enum", lvl)).field("shape", 5, ("enum", nested_e))
        for fqn, kind in ((thing.fqn, "m"), (part.fqn, "m"), (lvl, "e"), (nested_e, "e")):
            self.types.append({"fqn": fqn, "kind": kind, "file": f.proto.name, "depth": 0, "dep": True})
        self.dep_files.append(f)
        return f

    # ---- fields
    def visible(self, file, kind):
        """Types a field of `file` may name: own file, earlier target files, dependency files."""
        idx = {f.proto.name: i for i, f in enumerate(self.files)}
        me = idx[file.proto.name]
        out = []
        for t in self.types:
            if t["kind"] != kind:
                continue
            if t.get("dep") or idx.get(t["file"], 99) <= me:
                out.append(t)
        return out

    def pick_ref(self, node, file, kind):
        r = self.r
        cands = self.visible(file, kind)
        own = [t for t in cands if t["file"] == file.proto.name]
        other = [t for t in cands if t["file"] != file.proto.name and not t.get("dep")]
        dep = [t for t in cands if t.get("dep")]
        roll = r.random()
        group = own
        if roll < 0.18 and other:
            group = other
            self.features.add("ref-other-file")
        elif roll < 0.30 and dep:
            group = dep
            self.features.add("ref-dep-package")
        elif roll < 0.42:
            w = r.choice(WKT if kind == "m" else WKT_ENUM)
            file.dep(w[1])
            if w[0].endswith("Value") and "Struct" not in w[0] and kind == "m" and w[0] == ".google.protobuf.Value":
                pass
            self.features.add("ref-well-known")
            return w[0]
        if not group:
            group = cands
        if not group:
            return None
        me = node.fqn
        top = me.split(".")[len(TARGET.split(".")) + 1]
        for _ in range(8):
            t = r.choice(group)
            fq = t["fqn"]
            break
        else:
            return None
        if t["file"] != file.proto.name:
            file.dep(t["file"])
        if fq == me:
            self.features.add("ref-self")
        elif fq.startswith(me + "."):
            self.features.add("ref-own-nested")
        elif me.startswith(fq + "."):
            self.features.add("ref-enclosing")
        elif t["file"] == file.proto.name and fq.split(".")[-len(fq.split(".")) + len(TARGET.split(".")) + 1] == top:
            self.features.add("ref-sibling-nested")
        if self.is_misfire(me, fq):
            self.features.add("ref-from-nested-named-like-toplevel")
        return fq

    @staticmethod
    def is_misfire(me, fq):
        n = len(TARGET.split(".")) + 1
        if not (me.startswith("." + TARGET + ".") and fq.startswith("." + TARGET + ".")):
            return False
        mp, fp = me.split(".")[n:], fq.split(".")[n:]
        return len(mp) > 1 and len(fp) > 1 and fp[0] == mp[-1] and fp[0] != mp[0]

    def fill(self, node, file):
        r = self.r
        pb = node.proto
        nf = r.choice([0, 1, 2, 3, 4, 5, 6, 8]) if not self.flavor.get("wide") else r.randint(10, 18)
        names, numbers = set(), set()
        real, synth = [], []      # (field proto, oneof name)
        taken_json = set()

        # protoc rejects a field named like a nested type of the same message (the upb pool does not notice)
        scope_names = {n.name for n in pb.nested_type} | {e.name for e in pb.enum_type}

        def fresh_name():
            for _ in range(30):
                if r.random() < (0.35 if self.flavor.get("proto_names") else 0.05):
                    # collides with the module the types file itself imports: %proto.py.j2 then does `import proto as _proto`
                    nm, tag = "proto", "field-named-proto"
                elif r.random() < 0.16:
                    nm = r.choice(self.reserved)
                    tag = "reserved-word-field"
                else:
                    nm, tag = r.choice(FIELD_NAMES), None
                js = nm.replace("_", "").lower()
                if nm in scope_names or nm in names or js in taken_json or nm + "_" in names or (nm.endswith("_") and nm[:-1] in names):
                    continue
                names.add(nm)
                taken_json.add(js)
                if tag:
                    self.features.add(tag)
                return nm
            raise Invalid("names exhausted")

        def fresh_number():
            for _ in range(30):
                n = r.choice(BIG_NUMBERS) if r.random() < 0.15 else r.randint(1, 40)
                if n not in numbers:
                    numbers.add(n)
                    return n
            raise Invalid("numbers exhausted")

        def typed(f, kinds=("scalar", "scalar", "enum", "msg")):
            k = r.choice(kinds)
            if k == "msg" and self.flavor.get("wide") and r.random() < 0.6:
                k = "scalar"
            if k == "enum":
                fq = self.pick_ref(node, file, "e")
                if fq:
                    f.type, f.type_name = F.TYPE_ENUM, fq
                    self.features.add("enum-field")
                    return
            if k == "msg":
                fq = self.pick_ref(node, file, "m")
                if fq:
                    f.type, f.type_name = F.TYPE_MESSAGE, fq
                    self.features.add("message-field")
                    return
            s = r.choice(list(SCALARS))
            f.type = SCALARS[s]
            self.features.add("scalar=" + s)

        for _ in range(nf):
            kind = r.choice(["plain", "plain", "plain", "repeated", "optional", "oneof", "map", "map"])
            if kind == "map":
                nm, num = fresh_name(), fresh_number()
                entry = pb.nested_type.add()
                entry.name = "".join(p[:1].upper() + p[1:] for p in nm.split("_")) + "Entry"
                if any(n.name == entry.name for n in pb.nested_type[:-1]):
                    raise Invalid("entry name clash")
                entry.options.map_entry = True
                k = entry.field.add()
                ks = r.choice(MAP_KEY_SCALARS)
                k.name, k.number, k.label, k.type = "key", 1, F.LABEL_OPTIONAL, SCALARS[ks]
                v = entry.field.add()
                v.name, v.number, v.label = "value", 2, F.LABEL_OPTIONAL
                typed(v)
                f = pb.field.add()
                f.name, f.number, f.label, f.type = nm, num, F.LABEL_REPEATED, F.TYPE_MESSAGE
                f.type_name = node.fqn + "." + entry.name
                self.features.add("map-key=" + ks)
                self.features.add("map-value=" + {F.TYPE_ENUM: "enum", F.TYPE_MESSAGE: "message"}.get(v.type, "scalar"))
                continue
            if kind == "oneof":
                oname = r.choice(["pick", "choice", "variant", "source"]) + str(len(real))
                if r.random() < (0.6 if self.flavor.get("underscore_oneof") else 0.25):
                    # a DECLARED oneof may start with an underscore (legal); only protoc's synthetic ones are `_<field>`
                    oname = "_legacy_" + oname
                    self.features.add("oneof-named-with-leading-underscore")
                for _ in range(r.choice([1, 2, 2, 3])):
                    f = pb.field.add()
                    f.name, f.number, f.label = fresh_name(), fresh_number(), F.LABEL_OPTIONAL
                    typed(f)
                    real.append((f, oname))
                self.features.add("oneof")
                continue
            f = pb.field.add()
            f.name, f.number = fresh_name(), fresh_number()
            f.label = F.LABEL_REPEATED if kind == "repeated" else F.LABEL_OPTIONAL
            typed(f)
            if kind == "repeated":
                self.features.add("repeated")
            if kind == "optional":
                f.proto3_optional = True
                synth.append((f, "_" + f.name))
                self.features.add("proto3-optional")
        # real oneofs first, synthetic after (descriptor.proto rule)
        decl = []
        for f, o in real + synth:
            if o not in decl:
                decl.append(o)
                pb.oneof_decl.add().name = o
            f.oneof_index = decl.index(o)
        if self.flavor.get("shuffle_fields") or r.random() < 0.3:
            fs = list(pb.field)
            r.shuffle(fs)
            del pb.field[:]
            pb.field.extend(fs)
            self.features.add("fields-shuffled")

    def module_named_field(self):
        """A NESTED message (depth >= 1) of a later file gets a field named exactly like the module of an earlier file of the
        package, followed by a field whose type comes from that module: only Proto.names (over ALL messages) forces the import
        alias; without it the attribute shadows the module inside the class body."""
        r = self.r
        for _ in range(6):
            fi = r.randrange(1, len(self.files))
            f = self.files[fi]
            src = self.files[r.randrange(0, fi)]
            modname = src.proto.name.split("/")[-1][:-len(".proto")]
            nested = [t for t in self.types if t["kind"] == "m" and t["file"] == f.proto.name and t["depth"] >= 1]
            srcs = [t for t in self.types if t["kind"] == "m" and t["file"] == src.proto.name]
            if not nested or not srcs:
                continue
            pb = r.choice(nested)["node"].proto
            used_names = {x.name for x in pb.field}
            used_nums = {x.number for x in pb.field}
            if modname in used_names or any(n.name == modname for n in pb.nested_type):
                continue
            tgt = r.choice(srcs)["fqn"]
            n1 = next(n for n in range(50, 90) if n not in used_nums)
            n2 = next(n for n in range(n1 + 1, 95) if n not in used_nums)
            a = pb.field.add()
            a.name, a.number, a.label = modname, n1, F.LABEL_OPTIONAL
            if r.random() < 0.5:
                a.type, a.type_name = F.TYPE_MESSAGE, tgt
            else:
                a.type = SCALARS[r.choice(list(SCALARS))]
            b = pb.field.add()
            b.name, b.number, b.type, b.type_name = f"{modname}_items", n2, F.TYPE_MESSAGE, tgt
            b.label = r.choice([F.LABEL_OPTIONAL, F.LABEL_REPEATED])
            f.dep(src.proto.name)
            self.features.add("nested-field-named-like-imported-module")
            return

    def build(self):
        r = self.r
        self.dep_files = []
        fl = self.flavor
        if fl.get("deps", r.random() < 0.6):
            self.dep_package("foo.bar", "common", "Foo")
            if fl.get("pb2_clash"):
                self.clash_pkg = r.choice(["fab.baz", "qux.baz", "qux.baz"])
                self.dep_package(self.clash_pkg, "common", "Fab")
                self.features.add("dep-same-basename")
            elif r.random() < 0.5:
                self.dep_package("fab.baz", "other", "Fab")
        # a target file whose base name equals that of a file of ANOTHER package it takes a type from: a dependency (_pb2)
        # file, or a proto-plus file of a proto sub-package.  Only the package tells the two imports apart.
        same_dep = None
        names = ["res", "extra", "main"]
        if fl.get("same_basename_dep", r.random() < 0.12):
            cands = [("struct", ".google.protobuf.Struct", "google/protobuf/struct.proto"),
                     ("duration", ".google.protobuf.Duration", "google/protobuf/duration.proto"),
                     ("operations", ".google.longrunning.Operation", "google/longrunning/operations.proto"),
                     ("status", ".google.rpc.Status", "google/rpc/status.proto")]
            if any(f.proto.name == "foo/bar/common.proto" for f in self.dep_files):
                cands += [("common", ".foo.bar.FooThing", "foo/bar/common.proto")] * 3
            same_dep = r.choice(cands)
            names[0] = same_dep[0]
        sub = fl.get("subpackage", r.random() < 0.12)
        if sub:
            self.skeleton(1, pkg=TARGET + ".sub", dirn=TARGET_DIR + "/sub", names=(names[0],))
            self.features.add("proto-sub-package")
        self.skeleton(fl.get("nfiles") or r.choice([1, 2, 2, 3]), names=tuple(names))
        for t in list(self.types):
            if t["kind"] == "m" and not t.get("dep"):
                f = next(x for x in self.files if x.proto.name == t["file"])
                self.fill(t["node"], f)
        root0 = self.files[1] if sub else self.files[0]
        tops0 = [t for t in self.types if t["kind"] == "m" and t["file"] == root0.proto.name and t["depth"] == 0]
        if same_dep and tops0:
            node = r.choice(tops0)["node"]
            root0.dep(same_dep[2])
            if r.random() < 0.5:
                node.field("ext_ref", 900, same_dep[1], repeated=r.random() < 0.3)
            else:
                node.map_field("ext_map", 901, r.choice(MAP_KEY_SCALARS), same_dep[1])
            self.features.add("same-basename-dependency-file")
        if sub and tops0:
            subs = [t for t in self.types if t["file"] == self.files[0].proto.name and t["kind"] == "m"]
            if subs:
                node = r.choice(tops0)["node"]
                root0.dep(self.files[0].proto.name)
                node.field("sub_ref", 910, r.choice(subs)["fqn"], repeated=r.random() < 0.3)
                self.features.add("same-basename-sub-package-file")
        if len(self.files) > 1 and fl.get("module_named_field", r.random() < 0.35):
            self.module_named_field()
        if fl.get("pb2_clash"):
            # make sure both clashing modules are really used by one file
            f = self.files[-1]
            m = f.message("ClashHolder")
            m.field("a", 1, ".foo.bar.FooThing").field("b", 2, f".{self.clash_pkg}.FabThing")
            f.dep("foo/bar/common.proto"); f.dep(self.clash_pkg.replace(".", "/") + "/common.proto")
        if len(self.files) > 1:
            self.features.add(f"files={len(self.files)}")
        req = apigen.request(self.dep_files + self.files, to_generate=[f.proto.name for f in self.files], parameter="transport=grpc")
        return req


def context_cost(req, cap=1200):
    """Number of MessageType.with_context calls /repo will make for the target files (its traversal is per PATH of the
    reference graph, so densely recursive schemas take minutes to generate: a performance hazard of the generator that is
    outside C02).  Candidates above the cap are discarded (counted as invalid candidates)."""
    u = universe(req)
    n = [0]

    class Over(Exception):
        pass

    def visit(full, visited):
        n[0] += 1
        if n[0] > cap:
            raise Over()
        t = u[full]
        v2 = visited | {full}
        for f in t["pb"].field:
            if f.type == F.TYPE_MESSAGE:
                tgt = f.type_name.lstrip(".")
                if tgt in v2:
                    n[0] += 1
                else:
                    visit(tgt, v2)
        for nn in t["pb"].nested_type:
            visit(full + "." + nn.name, v2)

    try:
        for fp in target_files(req):
            for full, t in u.items():
                if t["file"] == fp.name and t["kind"] == "m":
                    visit(full, frozenset())
    except Over:
        return None
    return n[0]


def random_request(r, flavor=None):
    """(request, features) or raises apigen.Invalid / Invalid."""
    b = Builder(r, flavor)
    req = b.build()
    if context_cost(req) is None:
        raise Invalid("reference graph too dense for the generator's with_context traversal")
    return req, sorted(b.features | graph_features(req))


def graph_features(req):
    """forward references (to a message declared later in the same file) and reference cycles through two or more messages."""
    u = universe(req)
    feats = set()
    order = {n: i for i, n in enumerate(u)}
    edges = {}
    for n, t in u.items():
        if t["kind"] != "m" or not is_pp(t["pkg"]):
            continue
        outs = set()
        for f in t["pb"].field:
            if f.type == F.TYPE_MESSAGE:
                tgt = f.type_name.lstrip(".")
                a = u[tgt]
                if a["pb"].options.map_entry:
                    v = next((x for x in a["pb"].field if x.name == "value"), None)
                    if v is None or v.type != F.TYPE_MESSAGE:
                        continue
                    tgt = v.type_name.lstrip(".")
                    a = u[tgt]
                outs.add(tgt)
                if a["file"] == t["file"] and not a["parent"] and not t["parent"] and order[tgt] > order[n]:
                    feats.add("ref-forward")
        edges[n] = outs
    # a cycle of length >= 2: n reaches itself through another message
    for n in edges:
        seen, todo = set(), [x for x in edges[n] if x != n]
        while todo:
            x = todo.pop()
            if x == n:
                feats.add("mutual-recursion")
                break
            if x in seen or x not in edges:
                continue
            seen.add(x)
            todo += list(edges[x])
        if "mutual-recursion" in feats:
            break
    return feats


# ------------------------------------------------------------------------------------------------ selective generation
LINKS = ["plain", "repeated", "optional", "map", "map", "oneof", "nested", "nested-enum-holder", "xchain", "xchain"]


def selective_api(r, force=None):
    """(request, [rpc full names], {rpc: [input full name, output full name]}, features): a service whose rpcs reach
    dedicated leaf types through one kind of link each (map value, oneof member, nested type, plain, repeated, optional),
    leaves spread over two files, so that a subset of the rpcs keeps a proper subset of the types."""
    res = File(f"{TARGET_DIR}/res.proto", TARGET)
    main = File(f"{TARGET_DIR}/main.proto", TARGET, deps=list(apigen.STD_DEPS) + [res.proto.name])
    feats = set()
    leaves = []

    def leaf(i, kind=None):
        f = r.choice([res, main])
        kind = kind or r.choice(["m", "m", "e"])
        if kind == "e":
            fq = f.enum(f"Grade{i}", [f"GRADE{i}_UNSPECIFIED", (f"GRADE{i}_A", 1), (f"GRADE{i}_B", r.choice([2, 5, 9]))])
            leaves.append(("e", fq, f))
            return "e", fq
        m = f.message(f"Detail{i}")
        m.field("text", 1, "string").field("n", 2, r.choice(["int32", "sint64", "bool", "bytes", "double"]))
        usable = [x for x in leaves if not (f is res and x[2] is main)]      # res.proto cannot import main.proto
        if usable and r.random() < 0.3:
            k, fq, _ = r.choice(usable)
            # a leaf reachable only through another leaf's map value
            m.map_field("more", 3, "string", ("enum", fq) if k == "e" else fq)
            feats.add("sel-leaf-chain-through-map")
        leaves.append(("m", m.fqn, f))
        return "m", m.fqn

    def link(msg, num, how, k, fq, tag):
        ty = ("enum", fq) if k == "e" else fq
        feats.add(f"sel-link={how}")
        if how == "plain":
            msg.field(f"{tag}_ref", num, ty)
        elif how == "repeated":
            msg.field(f"{tag}_list", num, ty, repeated=True)
        elif how == "map":
            msg.map_field(f"{tag}_map", num, r.choice(["string", "int32", "uint64", "bool"]), ty)
            feats.add("sel-map-value=" + ("enum" if k == "e" else "message"))
        elif how == "oneof":
            msg.field(f"{tag}_alt", num, "string", oneof=f"{tag}_choice").field(f"{tag}_pick", num + 1, ty, oneof=f"{tag}_choice")
        elif how == "nested":
            inner = msg.nested(f"{tag.capitalize()}Inner")
            inner.field("leaf", 1, ty).field("z", 2, "fixed32")
            msg.field(f"{tag}_inner", num, inner.fqn)
        elif how == "nested-enum-holder":
            inner = msg.nested(f"{tag.capitalize()}Holder")
            ne = inner.enum("Mode", ["MODE_UNSPECIFIED", "ON"])
            inner.field("mode", 1, ("enum", ne)).map_field("leafs", 2, "string", ty)
            msg.map_field(f"{tag}_holders", num, "int64", inner.fqn)
        elif how == "xchain":
            xchain(msg, num, k, fq, tag)
        # proto3 optional last: synthetic oneofs must follow the declared ones
        elif how == "optional":
            pass

    chain_no = [0]

    def xchain(msg, num, k, fq, tag):
        """msg -> Outer.Mid ONLY (a type nested in a top-level message nothing else names); Outer's OWN field -> Other.Inner
        (nested in a second top-level message nothing else names); Other's own field -> Third.Leaf (2 or 3 steps); the last
        step holds the rpc's private leaf.  Each step is a nested message or a nested enum, linked plainly / repeated / as a
        map value / inside a oneof.  Every top-level message of the chain is needed only as the ENCLOSER of a needed type."""
        c = chain_no[0]
        chain_no[0] += 1
        depth = r.choice([2, 2, 3])
        feats.add(f"sel-xchain-depth={depth}")
        leaf_file = next(f for kk, q, f in leaves if q == fq)
        files = []
        for lvl in range(depth + 1):
            prev = files[-1] if files else main
            # res.proto cannot import main.proto: once a level is in res.proto the deeper ones are as well
            files.append(res if prev is res and lvl > 0 else r.choice([res, main]))
        names = ["Outer", "Other", "Third", "Fourth"]
        tops = [files[lvl].message(f"{names[lvl]}{c}") for lvl in range(depth + 1)]
        if len({id(f) for f in files}) > 1:
            feats.add("sel-xchain-across-files")
        # the nested type of each level that the level above refers to
        inner = []
        for lvl, top in enumerate(tops):
            last = lvl == depth
            as_enum = (not last) and lvl > 0 and r.random() < 0.3
            if as_enum:
                ne = top.enum(f"Kind{lvl}", [f"KIND{lvl}_UNSPECIFIED", (f"KIND{lvl}_ONE", 1), (f"KIND{lvl}_SIX", 6)])
                inner.append(("e", ne))
                feats.add("sel-xchain-step=nested-enum")
            else:
                nm = top.nested(["Mid", "Inner", "Leaf", "Tip"][lvl])
                nm.field("y", 1, r.choice(["int32", "string", "sfixed64", "bool"]))
                if last and not (files[lvl] is res and leaf_file is main):
                    nm.field("leaf", 2, ("enum", fq) if k == "e" else fq)
                inner.append(("m", nm.fqn))
                feats.add("sel-xchain-step=nested-message")
        # the enclosing message's OWN field (not a field of the nested type) names the next level's nested type
        for lvl in range(depth):
            kk, q = inner[lvl + 1]
            ty = ("enum", q) if kk == "e" else q
            top = tops[lvl]
            style = r.choice(["plain", "plain", "repeated", "map", "oneof"])
            feats.add(f"sel-xchain-link={style}")
            top.field("label", 1, "string")
            if style == "plain":
                top.field("next", 2, ty)
            elif style == "repeated":
                top.field("nexts", 2, ty, repeated=True)
            elif style == "map":
                top.map_field("next_by", 2, r.choice(["string", "int32", "bool"]), ty)
            else:
                top.field("alt", 2, "string", oneof="pick").field("next", 3, ty, oneof="pick")
        tops[depth].field("label", 1, "string")
        k0, q0 = inner[0]
        msg.field(f"{tag}_mid", num, q0)

    svc = main.service("Sel", host="sel.example.com")
    nrpc = r.randint(3, 5)
    rpcs, io = [], {}
    shared = [leaf(100 + j) for j in range(r.randint(1, 2))]
    deferred_optional = []
    for i in range(nrpc):
        req = main.message(f"Op{i}Request")
        req.field("name", 1, "string")
        resp = main.message(f"Op{i}Response")
        resp.field("id", 1, "string")
        num = 10
        hows = [force] if (force and i == 0) else []
        hows += [r.choice(LINKS) for _ in range(r.randint(1, 3) - len(hows))]
        for j, how in enumerate(hows):
            k, fq = leaf(i * 10 + j)                          # private to this rpc, reachable through exactly one link
            target = r.choice([resp, resp, req])
            if how == "optional":
                deferred_optional.append((target, num, k, fq, f"x{j}"))
                feats.add("sel-link=optional")
            else:
                link(target, num, how, k, fq, f"x{j}")
            num += 5
        if r.random() < 0.5:
            k, fq = r.choice(shared)
            link(resp, 80, r.choice(["plain", "map", "repeated"]), k, fq, "sh")
        svc.rpc(f"Op{i}", req.fqn, resp.fqn, http=("post", f"/v1/{{name=ops{i}/*}}:op{i}"), body="*")
        rpcs.append(f"{TARGET}.Sel.Op{i}")
        io[rpcs[-1]] = [req.fqn.lstrip("."), resp.fqn.lstrip(".")]
    for target, num, k, fq, tag in deferred_optional:
        target.field(f"{tag}_opt", num, ("enum", fq) if k == "e" else fq, optional=True)
    request = apigen.request([res, main], parameter="transport=grpc")
    return request, rpcs, io, sorted(feats)


def selective_yaml(rpcs_all, methods, internal=False):
    return {"type": "google.api.Service", "config_version": 3, "apis": [{"name": f"{TARGET}.Sel"}],
            "publishing": {"library_settings": [{"version": TARGET, "python_settings": {"common": {
                "selective_gapic_generation": {"methods": list(methods), "generate_omitted_as_internal": bool(internal)}}}}]}}


# ------------------------------------------------------------------------------------------------ option proto-plus-deps
def ppdeps_api(r, sub_listed=False):
    """(dependency request, target request with proto-plus-deps=acme.dep.v1, features): the listed dependency is generated
    alongside as a proto-plus library; an UNLISTED dependency whose package is a textual-prefix sibling of the listed one stays
    a _pb2 dependency; optionally a sub-package of the listed one (listed as well)."""
    feats = {"option-proto-plus-deps"}
    dep = File("acme/dep/v1/thing.proto", "acme.dep.v1")
    kind = dep.enum("ThingKind", ["THING_KIND_UNSPECIFIED", ("SMALL", 1), ("LARGE", 7)])
    thing = dep.message("Thing")
    part = thing.nested("Part"); part.field("w", 1, r.choice(["double", "sint32", "string"]))
    thing.field("name", 1, "string").field("kind", 2, ("enum", kind)).field("parts", 3, part.fqn, repeated=True)
    dep_files = [dep]
    listed = ["acme.dep.v1"]
    subm = None
    if sub_listed:
        subf = File("acme/dep/v1/common/shared.proto", "acme.dep.v1.common")
        subm = subf.message("Shared"); subm.field("tag", 1, "string")
        dep_files.append(subf)
        listed.append("acme.dep.v1.common")
        feats.add("listed-sub-package-of-listed-dependency")
    sib = r.choice(["acme.dep.v1beta1", "acme.dep.v1p1beta1", "acme.dep.v10", "acme.dep.v1_legacy"])
    feats.add("unlisted-prefix-sibling=" + sib.split(".")[-1])
    old = File(f"{sib.replace('.', '/')}/old_thing.proto", sib)
    okind = old.enum("OldKind", ["OLD_KIND_UNSPECIFIED", "ANCIENT"])
    ot = old.message("OldThing"); ot.field("id", 1, "int32").field("kind", 2, ("enum", okind))
    other = File("zeta/plain/v1/plain.proto", "zeta.plain.v1")
    pl = other.message("Plain"); pl.field("p", 1, "bool")
    main = File(f"{TARGET_DIR}/main.proto", TARGET, deps=[f.proto.name for f in dep_files] + [old.proto.name, other.proto.name])
    foo = main.message("Foo")
    n = 1
    for name, ty in [("thing", thing.fqn), ("old_thing", ot.fqn), ("plain", pl.fqn), ("part", part.fqn)] + ([("shared", subm.fqn)] if subm else []):
        how = r.choice(["plain", "repeated", "map"])
        if how == "map":
            foo.map_field(name, n, r.choice(MAP_KEY_SCALARS), ty)
        else:
            foo.field(name, n, ty, repeated=(how == "repeated"))
        n += 1
    foo.field("thing_kind", 20, ("enum", kind)).field("old_kind", 21, ("enum", okind), repeated=r.random() < 0.5)
    foo.field("alt_thing", 30, thing.fqn, oneof="alt").field("alt_old", 31, ot.fqn, oneof="alt").field("alt_text", 32, "string", oneof="alt")
    bar = main.message("Bar"); bar.field("foo", 1, foo.fqn).field("olds", 2, ot.fqn, repeated=True).field("opt_old", 3, ot.fqn, optional=True)
    dep_req = apigen.request(dep_files, to_generate=[f.proto.name for f in dep_files], parameter="transport=grpc")
    req = apigen.request(dep_files + [old, other, main], to_generate=[main.proto.name],
                         parameter="transport=grpc,proto-plus-deps=" + "+".join(listed))
    return dep_req, req, sorted(feats)
