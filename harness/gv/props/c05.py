"""C05 — flattened keyword arguments are equivalent to an explicit request object."""
import base64, itertools, json, keyword, os, re
from google.protobuf import descriptor_pb2 as dp
from google.protobuf.descriptor import FieldDescriptor as FD
from .. import env, coq, gen, apigen, dyn
from . import callutil as U, flatapi as A, flatgen

F = dp.FieldDescriptorProto

RULE = ("APIs from harness/gv/props/flatapi.py: main package (proto-plus), optionally a dependency package (plain protobuf request "
        "classes, _pb2 modules synthesised) or a sub-package of the main package; request messages with scalars, enums, messages, "
        "repeated scalars/messages/enums, maps, proto3-optional and oneof members, reserved-word names, google.protobuf.Value; "
        "0..3 signatures per method over top-level and dotted paths with varying whitespace and repeats. "
        "For each method: every subset of the flattened parameters when there are at most 3, otherwise the empty set, the full set, "
        "the singletons and random subsets; values from random valuations of the request (defaults and empty containers included). "
        "plus, for every parameter alone and for all together, the default of its type (0, '', False, [], {}, an empty message: "
        "falsy but not None). One case = (API, method, sync|asyncio, subset, values): kwargs call, request call and mixed call against the loopback gRPC "
        "server. distinct = distinct canonical JSON of (descriptor hash, method, variant, subset, expected request bytes); "
        "Paginated RPCs additionally: two listings in a row walked to their end, once passing the same request object twice, once the same "
        "keyword arguments twice (all requests the server saw compared; the caller's object compared before and after each call). "
        "non-trivial = the method has at least one flattened parameter. The witness APIs of corpus/C05 (known findings, defects "
        "repaired in /repo, presence of falsy values) run first.")
TRUSTED = [
    "Model/Flatten.v: hand-written model of Field.name, MessageType.get_field, Method._fields_mapping, of the flattened-params block "
    "emitted by _client_macros.j2 (sync) and async_client.py.j2 as an IR, and of running that block on a message valuation",
    "contract (Values, Model/Flatten.v section 1): proto-plus / protobuf attribute assignment, extend, update and keyword "
    "construction act on a message valuation as assign/extend/update/ctor say, with protobuf presence semantics "
    "(validated on every run by T2 against proto-plus 1.26 / protobuf 5.29 upb on the emitted libraries)",
    "harness/gv/props/callutil.py ast reader of emitted client methods (fail-closed), flatapi.py descriptor-to-Coq translation, "
    "impl/schemafacts.py, impl/calldrive.py + impl/drivelib.py loopback gRPC server, dyn.Dyn decoder built from the input descriptors",
]
ASSUMES = [
    "flattened keys are pairwise distinct (true of every _fields_mapping result: C05_params_in_declared_order) and the passed "
    "values have the kind of their field; dict values have distinct keys",
    "asyncio cross-package block: the mapping has no map fields (true of every cross-package _fields_mapping result: "
    "C05_cross_mapping_no_maps)",
    "the emitted method compiles (block_ok): no flattened parameter is named request/retry/timeout/metadata or like another "
    "parameter, no dotted path goes through a reserved-word segment, no keyword-named field of a plain protobuf request "
    "(each exclusion is a reported finding with a _refuted lemma and a corpus witness)",
    "no empty list/dict is passed for a flattened field reached through a dotted path (there sync and asyncio differ: known finding)",
    "no flattened key is a prefix of another flattened key of the same method (the valuation model keeps such paths apart)",
    "no flattened leaf that is a repeated, map or message field of a plain protobuf message reached from a proto-plus request "
    "(protobuf refuses the assignment the templates emit: reported finding, corpus witness; the Values contract does not cover it)",
    "at most one member of any oneof is passed in one call (the Values contract has no oneofs; such calls are judged by the oracle only)",
    "request call: a cross-package proto-plus request whose set fields all hold false values is replaced by a new empty message "
    "(stated in C05_flattened_equiv's second disjunct; known finding)",
]
CONTROL = ["request", "retry", "timeout", "metadata"]
FIXED_IMPORTS = ["gapic_v1"]     # imported under a fixed name and used inside the method bodies (routing header)


def fixed_import_defect(params, o):
    """exactly the known finding flatten.param_named_like_fixed_import: the rpc flattens a field named gapic_v1 and the call
    raised the AttributeError on routing_header before anything was sent. Any other failure on such an rpc is not this defect."""
    e = o.get("error") or {}
    return (any(q in FIXED_IMPORTS for q in params) and not o.get("ok") and e.get("exception") == "AttributeError"
            and "has no attribute 'routing_header'" in e.get("message", "") and not o.get("calls"))
IMPORTS = "From GV Require Import Model.Flatten."


def regen(ctx):
    flatgen.write_flatten_gen()


# ---------------------------------------------------------------------------------------------- API generation
def pick_sigs(r, idx, req_fqn, cross, hostile, avoid_defects=False):
    """signatures over the paths of a request, outside the regions of the reported findings that break the whole module
    (parameter named like a control argument or like another parameter, reserved-word intermediate segment, keyword-named
    field of a plain protobuf request): those have their own corpus witnesses"""
    paths = A.paths_of(idx, req_fqn, depth=2)
    reserved = set(flatgen.reserved_names())
    cands = []
    for p, f, cont in paths:
        segs = p.split(".")
        in_pb2 = not idx.proto_plus_pkg(idx.package_of(cont))
        cur, bad = req_fqn, False
        for sg in segs[:-1]:                  # a keyword-named message field of a plain protobuf message cannot be spelled request.<kw>.x
            nf = next(x for x in idx.msgs[cur][0].field if x.name == sg)
            if sg in keyword.kwlist and not idx.proto_plus_pkg(idx.package_of(cur)):
                bad = True
            cur = nf.type_name
        if in_pb2 and idx.proto_plus_pkg(idx.package_of(req_fqn)) and (f.type == F.TYPE_MESSAGE or f.label == F.LABEL_REPEATED):
            bad = True                        # request.<pb2 sub-message>.<repeated or message field> = value: protobuf refuses (reported)
        if bad:
            continue
        if segs[-1] in keyword.kwlist and in_pb2:
            continue                          # a plain protobuf field keeps its name: "class: Optional[str]" (reported)
        cands.append((p, f, cont))
    nsig = r.choice([0, 1, 1, 2, 2, 3])
    sigs, used_last, chosen = [], set(CONTROL), []
    for _ in range(nsig):
        k = r.choice([0, 1, 1, 2, 2, 3, 4])
        items = []
        for _ in range(k):
            p, f, cont = r.choice(cands)
            last = p.split(".")[-1]
            is_rep = f.label == F.LABEL_REPEATED
            prim = f.type not in (F.TYPE_MESSAGE, F.TYPE_ENUM)
            if p in chosen:
                if r.random() < 0.5:
                    items.append(p)          # a repeat of an earlier field: must not move it
                continue
            if last in used_last:
                continue
            if any(q.startswith(p + ".") or p.startswith(q + ".") for q in chosen):
                continue                      # prefix-free keys
            used_last.add(last)
            chosen.append(p)
            items.append(p)
        sep = r.choice([",", ", ", " , ", ",  "])
        s = sep.join(items)
        if items and r.random() < 0.2:
            s = " " + s + " "
        if items and r.random() < 0.1:
            s = s + ","
        sigs.append(s)
    # two consecutive signatures where one is a textual prefix of the other although they name different fields
    # ("name" / "name_suffix,..."), in either order; and cumulative overloads ("name" / "name,<more>") as the control
    top = {p for p, f, c in cands if "." not in p}
    longer = next((x for x in ("name_suffix", "names") if x in top), None)
    if "name" in top and r.random() < 0.5 and "name" not in chosen and (longer is None or longer not in chosen) \
            and not any(q.split(".")[-1] in ("name", longer) for q in chosen):
        extra_ = next((p for p, f, c in cands if "." not in p and p not in chosen and p not in ("name", longer)
                       and p.split(".")[-1] not in used_last), None)
        if longer is not None and r.random() < 0.7:
            pair = ["name", longer + ("," + extra_ if extra_ and r.random() < 0.5 else "")]
            if r.random() < 0.4:
                pair.reverse()
        else:
            pair = ["name", "name" + ("," + extra_ if extra_ else "")]
        sigs = sigs + pair if r.random() < 0.5 else pair + sigs
    return sigs


def make_api(r, shape):
    """shape: same | dep | sub"""
    api = A.FlatApi(r, dep=r.choice(A.DEP_PKGS) if shape == "dep" else None, sub="shared" if shape == "sub" else None)
    main_req = [api.zoo(api.main, "Alpha"), api.zoo(api.main, "Beta")]
    other = None
    if shape == "dep":
        other = api.zoo(api.dep, "Shared")
    elif shape == "sub":
        other = api.zoo(api.sub, "Shared")
    # primitive fields NAMED like the proto modules the client imports (the request's own file, another file of the API): as
    # flattened parameters they would shadow the module inside the method unless the import takes an alias
    own_mod = api.main.proto.name.rsplit("/", 1)[-1][:-len(".proto")]
    for mr in main_req:
        if r.random() < 0.7:
            mr.field(own_mod, 91, r.choice(["string", "int32", "bool", "bytes"]), repeated=r.random() < 0.3)
    if other is not None:
        far_mod = other.file.proto.name.rsplit("/", 1)[-1][:-len(".proto")]
        if r.random() < 0.7:
            other.field(far_mod, 91, r.choice(["string", "int64"]), repeated=r.random() < 0.3)
        for mr in main_req:
            if r.random() < 0.5:
                mr.field(far_mod, 92, "string")
    if other is not None:
        # requests of the API's package that reach into a message of the other package (plain protobuf dependency / proto-plus
        # sub-package): dotted signatures whose leaf, reserved words included, is owned by another package
        for mr in main_req:
            mr.field("resource", 90, other.fqn)
    resp = api.main.message("Reply")
    resp.field("note", 1, "string").field("n", 2, "int32")
    svc = api.main.service(r.choice(["Library", "Catalog", "WidgetAdmin"]), host=api.host)
    req0 = api.request()              # to resolve paths
    idx = U.Index(req0)
    plan = []
    nm = r.randint(3, 5)
    verbs = r.sample(["Get", "Make", "Find", "Put", "Scan", "Tell", "Mark"], nm)
    for i, v in enumerate(verbs):
        use_other = other is not None and (i % 2 == 0)
        m = other if use_other else r.choice(main_req)
        ss = r.random() < 0.2
        void = r.random() < 0.2 and not ss
        sigs = pick_sigs(r, idx, m.fqn, use_other, None)
        svc.rpc(v + "Thing", m.fqn, U.EMPTY if void else resp.fqn, ss=ss, sigs=sigs)
        plan.append({"rpc": v + "Thing", "sigs": sigs})
    # paginated RPCs with a method signature: in the API's package, and with the request in the other package when there is one
    # (plain protobuf dependency requests included: the pager copies them with CopyFrom since /repo commit 9678930)
    homes = [("ListThings", api.main)] + ([("ListFarThings", other.file)] if other is not None else [])
    for nm_, home in homes:
        lreq = home.message(nm_ + "Request")
        lreq.field("parent", 1, "string").field("filter", 2, "string").field("page_size", 3, "int32").field("page_token", 4, "string")
        lreq.field("order_by", 5, "string", optional=True).field("kinds", 6, "int32", repeated=True)
        lresp = api.main.message(nm_ + "Response")
        lresp.field("things", 1, resp.fqn, repeated=True).field("next_page_token", 2, "string")
        sg = r.choice([["parent"], ["parent,filter"], ["parent", "parent,filter,order_by"], ["parent,kinds"]])
        svc.rpc(nm_, lreq.fqn, lresp.fqn, sigs=sg)
        plan.append({"rpc": nm_, "sigs": sg})
    return api.request(), plan


def witness_api(kind):
    """Deterministic single-method APIs, one per candidate defect (the witnesses of the _refuted lemmas)."""
    if kind in ("module_named_param", "module_named_param_sub"):
        # a primitive flattened field named like a proto module of the API: the request's own file (library.proto -> library,
        # shared.proto -> shared) and another imported one
        sub = kind.endswith("_sub")
        deps = list(apigen.STD_DEPS) + (["google/example/library/v1/shared/shared.proto"] if sub else [])
        main = apigen.File("google/example/library/v1/library.proto", "google.example.library.v1", deps=deps)
        files, togen = [], []
        home = main
        if sub:
            home = apigen.File("google/example/library/v1/shared/shared.proto", "google.example.library.v1.shared")
            files.append(home)
            togen.append(home.proto.name)
        rq = home.message("QueryRequest")
        rq.field("name", 1, "string").field("shared" if sub else "library", 2, "string").field("library" if sub else "count", 3, "int32")
        rq.field("tags", 4, "string", repeated=True)
        resp = main.message("Reply")
        resp.field("note", 1, "string")
        svc = main.service("Library", host="library.example.com")
        svc.rpc("GetBook", rq.fqn, resp.fqn, sigs=["name," + ("shared,library" if sub else "library"), "tags"])
        return apigen.request(files + [main], to_generate=togen + [main.proto.name], parameter="transport=grpc")
    if kind in ("module_named_param_lro", "param_named_gapic_v1"):
        # flattened fields named like the modules the method BODIES use: api_core's operation / operation_async (long-running
        # rpc), the service's pagers module (paginated rpc), retries, core_exceptions; gapic_v1 is imported under a fixed name
        names = ["gapic_v1"] if kind == "param_named_gapic_v1" else ["operation", "operation_async", "retries", "core_exceptions", "pagers"]
        main = apigen.File("google/example/library/v1/library.proto", "google.example.library.v1",
                           deps=list(apigen.STD_DEPS) + ["google/longrunning/operations.proto"])
        book = main.message("Book")
        book.field("name", 1, "string")
        meta_ = main.message("BuildMeta")
        meta_.field("progress", 1, "int32")
        rq = main.message("BuildRequest")
        rq.field("name", 1, "string")
        lreq = main.message("ListBooksRequest")
        lreq.field("parent", 1, "string").field("page_size", 2, "int32").field("page_token", 3, "string")
        for i_, n_ in enumerate(names):
            rq.field(n_, 10 + i_, "string")
            lreq.field(n_, 10 + i_, "string")
        lresp = main.message("ListBooksResponse")
        lresp.field("books", 1, book.fqn, repeated=True).field("next_page_token", 2, "string")
        svc = main.service("Library", host="library.example.com")
        svc.rpc("BuildBook", rq.fqn, ".google.longrunning.Operation", lro=("Book", "BuildMeta"), sigs=[",".join(["name"] + names)],
                http=("post", "/v1/{name=books/*}:build"), body="*")
        svc.rpc("ListBooks", lreq.fqn, lresp.fqn, sigs=[",".join(["parent"] + names)], http=("get", "/v1/{parent=shelves/*}/books"))
        svc.rpc("GetBook", rq.fqn, book.fqn, sigs=[",".join(["name"] + names)], http=("get", "/v1/{name=books/*}"))
        return apigen.request([main], parameter="transport=grpc")
    if kind == "required_after_optional":
        # signatures that name an optional field BEFORE a REQUIRED one: the parameters are offered in declared order all the same
        main = apigen.File("google/example/library/v1/library.proto", "google.example.library.v1", deps=list(apigen.STD_DEPS))
        widget = main.message("Widget")
        widget.field("name", 1, "string", required=True).field("size", 2, "int32")
        rq = main.message("CreateWidgetRequest")
        rq.field("parent", 1, "string", required=True).field("widget", 2, widget.fqn, required=True).field("filter", 3, "string")
        rq.field("tags", 4, "string", repeated=True).field("widget_id", 5, "string", required=True).field("note", 6, "string", optional=True)
        svc = main.service("Library", host="library.example.com")
        svc.rpc("CreateWidget", rq.fqn, widget.fqn, sigs=["filter,parent,widget,tags"])
        svc.rpc("MakeWidget", rq.fqn, widget.fqn, sigs=["note", "tags,widget_id", "parent"])
        svc.rpc("WatchWidget", rq.fqn, widget.fqn, ss=True, sigs=["filter, widget.size ,widget.name,parent"])
        svc.rpc("PlainWidget", rq.fqn, widget.fqn, sigs=["parent,widget,widget_id", "filter"])
        return apigen.request([main], parameter="transport=grpc")
    if kind == "prefix_signatures":
        main = apigen.File("google/example/library/v1/library.proto", "google.example.library.v1", deps=list(apigen.STD_DEPS))
        book = main.message("Book")
        book.field("name", 1, "string")
        rq = main.message("FindRequest")
        rq.field("shelf", 1, "string").field("shelf_prefix", 2, "string").field("limit", 3, "int32").field("name", 4, "string")
        rq.field("names", 5, "string", repeated=True).field("widget", 6, book.fqn).field("widget_id", 7, "string").field("parent", 8, "string")
        svc = main.service("Library", host="library.example.com")
        svc.rpc("FindShelves", rq.fqn, book.fqn, sigs=["shelf", "shelf_prefix,limit"])
        svc.rpc("FindNames", rq.fqn, book.fqn, sigs=["name", "names"])
        svc.rpc("FindNamesReversed", rq.fqn, book.fqn, sigs=["names", "name"])
        svc.rpc("FindWidgets", rq.fqn, book.fqn, sigs=["widget", "widget_id", "parent"])
        svc.rpc("FindCumulative", rq.fqn, book.fqn, sigs=["parent", "parent,widget", "parent,widget,limit"])
        svc.rpc("FindMixed", rq.fqn, book.fqn, sigs=["parent", "parent,shelf", "shelf", "shelf_prefix", "limit"])
        return apigen.request([main], parameter="transport=grpc")
    if kind == "paged_pb2_request":
        dep = apigen.File("acme/common/v1/common.proto", "acme.common.v1")
        lreq = dep.message("ListRequest")
        lreq.field("parent", 1, "string").field("page_size", 2, "int32").field("page_token", 3, "string")
        main = apigen.File("google/example/library/v1/library.proto", "google.example.library.v1",
                           deps=list(apigen.STD_DEPS) + ["acme/common/v1/common.proto"])
        book = main.message("Book")
        book.field("name", 1, "string")
        lresp = main.message("ListBooksResponse")
        lresp.field("books", 1, book.fqn, repeated=True).field("next_page_token", 2, "string")
        svc = main.service("Library", host="library.example.com")
        svc.rpc("ListBooks", lreq.fqn, lresp.fqn, sigs=["parent"])
        return apigen.request([dep, main], to_generate=[main.proto.name], parameter="transport=grpc")
    if kind == "paged_reuse":
        main = apigen.File("google/example/library/v1/library.proto", "google.example.library.v1", deps=list(apigen.STD_DEPS))
        book = main.message("Book")
        book.field("name", 1, "string").field("title", 2, "string")
        lreq = main.message("ListBooksRequest")
        lreq.field("parent", 1, "string").field("filter", 2, "string").field("page_size", 3, "int32").field("page_token", 4, "string")
        lresp = main.message("ListBooksResponse")
        lresp.field("books", 1, book.fqn, repeated=True).field("next_page_token", 2, "string")
        svc = main.service("Library", host="library.example.com")
        svc.rpc("ListBooks", lreq.fqn, lresp.fqn, sigs=["parent", "parent,filter"])
        svc.rpc("GetBook", lreq.fqn, book.fqn, sigs=["parent"])
        return apigen.request([main], parameter="transport=grpc")
    cross = kind in ("cross_two_repeated", "cross_dotted", "reserved_in_pb2", "keyword_param_pb2")
    far = {"pb2_reserved_leaf": "acme/common/v1/common.proto", "sub_reserved_leaf": "google/example/library/v1/shared/shared.proto",
           "pb2_nonprimitive_leaf": "acme/common/v1/common.proto"}.get(kind)
    if far:
        # a request of the API's package with a field whose message lives elsewhere (plain protobuf dependency / proto-plus
        # sub-package) and has a reserved-word leaf: google.api.MonitoredResource.type style
        main = apigen.File("google/example/library/v1/library.proto", "google.example.library.v1", deps=list(apigen.STD_DEPS) + [far])
        other = apigen.File(far, "google.example.library.v1.shared" if kind == "sub_reserved_leaf" else "acme.common.v1")
        res_ = other.message("MonitoredThing")
        res_.field("type", 1, "string").field("next", 2, "int32").field("title", 3, "string")
        res_.map_field("labels", 4, "string", "string")
        res_.field("tags", 5, "string", repeated=True)
        rq = main.message("WriteRequest")
        rq.field("parent", 1, "string").field("resource", 2, res_.fqn).field("type", 3, "string")
        resp = main.message("Reply")
        resp.field("note", 1, "string")
        svc = main.service("Library", host="library.example.com")
        svc.rpc("GetBook", rq.fqn, resp.fqn, sigs=["parent,resource.tags"] if kind == "pb2_nonprimitive_leaf" else
                ["parent,resource.type", "resource.next, resource.title"])
        return apigen.request([other, main], to_generate=([other.proto.name] if kind == "sub_reserved_leaf" else []) + [main.proto.name],
                              parameter="transport=grpc")
    subpkg = kind == "falsy_request"
    main = apigen.File("google/example/library/v1/library.proto", "google.example.library.v1",
                       deps=list(apigen.STD_DEPS) + (["acme/common/v1/common.proto"] if cross else [])
                       + (["google/example/library/v1/shared/shared.proto"] if subpkg else []))
    files, togen = [], []
    if cross:
        dep = apigen.File("acme/common/v1/common.proto", "acme.common.v1")
        sub = dep.message("Sub")
        sub.field("text", 1, "string")
        rq = dep.message("CommonRequest")
        rq.field("name", 1, "string").field("tags", 2, "string", repeated=True).field("nums", 3, "int64", repeated=True).field("sub", 4, sub.fqn)
        rq.field("type", 5, "string").field("class", 6, "string")
        files.append(dep)
    elif subpkg:
        sh = apigen.File("google/example/library/v1/shared/shared.proto", "google.example.library.v1.shared")
        rq = sh.message("SharedRequest")
        rq.field("name", 1, "string").field("level", 2, "int32", optional=True)
        files.append(sh)
        togen.append(sh.proto.name)
    else:
        inner = main.message("Inner")
        inner.field("title", 1, "string").field("tags", 2, "string", repeated=True)
        rq = main.message("GetBookRequest")
        rq.field("name", 1, "string").field("class", 2, inner.fqn).field("book", 3, inner.fqn).field("retry", 4, "string").field("other", 5, inner.fqn)
        rq.field("parent", 6, "string").field("page_size", 7, "int32", optional=True).field("filter", 8, inner.fqn).field("flag", 9, "bool")
        rq.field("ratio", 10, "double", optional=True).field("note", 11, "string", optional=True)
    resp = main.message("Reply")
    resp.field("note", 1, "string")
    svc = main.service("Library", host="library.example.com")
    sigs = {"cross_two_repeated": ["name,tags,nums"], "cross_dotted": ["name,sub.text"], "reserved_segment": ["class.title,name", "class.tags"],
            "control_name": ["name,retry"], "duplicate_param": ["book.title,other.title"], "empty_container_dotted": ["name,book.tags"],
            "reserved_in_pb2": ["name,type"], "falsy_request": ["level"], "keyword_param_pb2": ["name,class"],
            "presence": ["parent,page_size,filter,flag", "ratio,note"]}[kind]
    rest = kind in ("reserved_segment", "presence")
    svc.rpc("GetBook", rq.fqn, resp.fqn, sigs=sigs, http=("post", "/v1/books:get") if rest else None, body="*" if rest else None)
    return apigen.request(files + [main], to_generate=togen + [main.proto.name], parameter="transport=grpc+rest" if rest else "transport=grpc")


# corpus/C05/<kind>.json holds each of these (written by write_corpus); the first four are the witnesses of defects that were
# repaired in /repo (353b7c7, 14fc9e4, d43e852, 318bb4b; paged_pb2_request: 9678930): they stay so that a regression is reported
WITNESSES = ["cross_two_repeated", "cross_dotted", "reserved_in_pb2", "reserved_segment", "presence", "pb2_reserved_leaf",
             "sub_reserved_leaf", "module_named_param", "module_named_param_sub", "paged_reuse", "paged_pb2_request", "prefix_signatures", "module_named_param_lro", "param_named_gapic_v1", "required_after_optional", "control_name", "duplicate_param", "empty_container_dotted", "falsy_request", "keyword_param_pb2"]
# a witness whose class is not yet in findings/known_findings.json is reported in scratch/findings and joins the run once it is
PENDING = {"pb2_nonprimitive_leaf": "flatten.nonprimitive_leaf_in_pb2_submessage"}
CORPUS = os.path.join(env.VERIF, "corpus", "C05")


def write_corpus():
    os.makedirs(CORPUS, exist_ok=True)
    for k in WITNESSES + list(PENDING):
        with open(os.path.join(CORPUS, f"w_{k}.json"), "w") as f:
            json.dump({"tag": "w_" + k, "request_b64": apigen.req_b64(witness_api(k)), "rindex": 0,
                       "runs_when_registered": PENDING.get(k)}, f, indent=1)


def corpus_jobs():
    from ..main import load_findings
    known = {f.get("signature") for f in load_findings() if f.get("property") == "C05" and f.get("status") == "known"}
    jobs = []
    for name in sorted(os.listdir(CORPUS)) if os.path.isdir(CORPUS) else []:
        c = json.load(open(os.path.join(CORPUS, name)))
        if c.get("runs_when_registered") and c["runs_when_registered"] not in known:
            continue
        jobs.append((c["tag"], apigen.req_from_b64(c["request_b64"]), c.get("rindex", 0)))
    return jobs


# ---------------------------------------------------------------------------------------------- oracle-side reading of a signature
def resolve(idx, fqn, path):
    """descriptor walk along pb names: (field, container fqn) or None"""
    cur = fqn
    segs = path.split(".")
    for i, s in enumerate(segs):
        if cur not in idx.msgs:
            return None
        f = next((x for x in idx.msgs[cur][0].field if x.name == s), None)
        if f is None:
            return None
        if i == len(segs) - 1:
            return f, cur
        if f.type != F.TYPE_MESSAGE or f.label == F.LABEL_REPEATED:
            return None
        cur = f.type_name
    return None


def expected_params(idx, req_fqn, cross, sigs, reserved):
    """The property's reading: fields in declared order (first mention wins), parameter = last path segment,
    with a trailing underscore for reserved words on proto-plus messages; cross-package: only primitive fields are offered.
    -> [(path, param, field)] or None when a path does not resolve (generation is expected to fail)."""
    out, seen = [], set()
    for sig in sigs:
        for piece in sig.split(","):
            name = piece.strip()
            if not name:
                if piece:
                    return None
                continue
            res = resolve(idx, req_fqn, name)
            if res is None:
                return None
            f, cont = res
            if cross and f.type in (F.TYPE_MESSAGE, F.TYPE_ENUM):
                continue
            if name in seen:
                continue
            seen.add(name)
            pp = idx.proto_plus_pkg(idx.package_of(cont))
            out.append((name, f.name + ("_" if (f.name in reserved and pp) else ""), f))
    return out


# ---------------------------------------------------------------------------------------------- valuations <-> model leaves
def srepr(f, v):
    """canonical text of a scalar; the empty text is the type's default"""
    if f.type == FD.TYPE_BYTES:
        return "b" + v.hex() if v else ""
    if f.type == FD.TYPE_STRING:
        return "s" + v if v else ""
    if f.type == FD.TYPE_BOOL:
        return "true" if v else ""
    if f.type in (FD.TYPE_DOUBLE, FD.TYPE_FLOAT):
        return repr(float(v)) if v != 0 or str(v).startswith("-") else ""
    return str(int(v)) if v else ""


def mhash(v):
    """short stable name of a sub-message value (the model only compares such values for equality)"""
    b = v.SerializeToString(deterministic=True)
    return env.canon_hash(base64.b64encode(b).decode()) if b else ""


def item_repr(f, v):
    if f.type == FD.TYPE_MESSAGE:
        return "m" + mhash(v)
    return "=" + srepr(f, v)


def has_presence(f):
    return f.label != FD.LABEL_REPEATED and (f.type == FD.TYPE_MESSAGE or f.containing_oneof is not None or f.has_presence)


def navigate(msg, path, create=False):
    """-> (parent message, field descriptor) or (None, None) when a parent is absent"""
    segs = path.split(".")
    cur = msg
    for s in segs[:-1]:
        if not cur.HasField(s):
            if not create:
                return None, None
            getattr(cur, s).SetInParent()
        cur = getattr(cur, s)
    return cur, cur.DESCRIPTOR.fields_by_name[segs[-1]]


def leaf_of(msg, path, passed=False):
    """Coq leaf term of the value under path (None = unset). passed=True: the value as handed over, even when vacuous."""
    parent, f = navigate(msg, path)
    if parent is None:
        return None
    v = getattr(parent, f.name)
    if f.type == FD.TYPE_MESSAGE and f.message_type.GetOptions().map_entry:
        kf, vf = f.message_type.fields_by_name["key"], f.message_type.fields_by_name["value"]
        items = sorted(((item_repr(kf, k), item_repr(vf, x)) for k, x in v.items()))
        if not items and not passed:
            return None
        return "(LD " + coq.lst(f"({coq.s(k)}, {coq.s(x)})" for k, x in items) + ")"
    if f.label == FD.LABEL_REPEATED:
        items = [item_repr(f, x) for x in v]
        if not items and not passed:
            return None
        return "(LL " + coq.slist(items) + ")"
    if f.type == FD.TYPE_MESSAGE:
        if not parent.HasField(f.name) and not passed:
            return None
        return "(LM " + coq.s(mhash(v)) + ")"
    if has_presence(f):
        if not parent.HasField(f.name) and not passed:
            return None
        return "(LS " + coq.s(srepr(f, v)) + ")"
    t = srepr(f, v)
    if t == "" and not passed:
        return None
    return "(LS " + coq.s(t) + ")"


def all_prefixes(keys):
    out = []
    for k in keys:
        segs = k.split(".")
        for i in range(1, len(segs)):
            p = ".".join(segs[:i])
            if p not in out:
                out.append(p)
    return out


def req_term(msg, keys, mkeys=None):
    """mkReq entries viv: the valuation of msg restricted to the flattened paths and their parents
    (keys: descriptor paths; mkeys: the same paths as the generator spells them)"""
    mkeys = mkeys or keys
    ents = []
    for k, mk in zip(keys, mkeys):
        l = leaf_of(msg, k)
        if l is not None:
            ents.append(f"({coq.s(mk)}, {l})")
    viv = []
    for k, mk in zip(keys, mkeys):
        segs, msegs = k.split("."), mk.split(".")
        for i in range(1, len(segs)):
            p, mp = ".".join(segs[:i]), ".".join(msegs[:i])
            parent, f = navigate(msg, p)
            if parent is not None and parent.HasField(f.name) and mp not in viv:
                viv.append(mp)
    return f"(mkReq {coq.lst(ents)} {coq.slist(viv)})"


def set_path(dst, src, path):
    """dst.<path> = src.<path> by plain protobuf operations, materialising the parents (the oracle's reading of
    'a request message with those fields set')"""
    sp, f = navigate(src, path, create=True)
    dp_, _ = navigate(dst, path, create=True)
    v = getattr(sp, f.name)
    if f.type == FD.TYPE_MESSAGE and f.message_type.GetOptions().map_entry:
        tgt = getattr(dp_, f.name)
        tgt.clear()
        vf = f.message_type.fields_by_name["value"]
        for k, x in v.items():
            if vf.type == FD.TYPE_MESSAGE:
                tgt[k].CopyFrom(x)
            else:
                tgt[k] = x
    elif f.label == FD.LABEL_REPEATED:
        dp_.ClearField(f.name)
        if f.type == FD.TYPE_MESSAGE:
            for x in v:
                getattr(dp_, f.name).add().CopyFrom(x)
        else:
            getattr(dp_, f.name).extend(list(v))
    elif f.type == FD.TYPE_MESSAGE:
        getattr(dp_, f.name).CopyFrom(v)
        getattr(dp_, f.name).SetInParent()
    else:
        setattr(dp_, f.name, v)


def pp_falsy(idx, msg):
    """bool(request) is False for a proto-plus message: every set field holds a false value (defaults, sub-messages of the
    library that are themselves false); plain protobuf sub-messages and non-empty containers count as true"""
    for f, v in msg.ListFields():
        if f.label == FD.LABEL_REPEATED:
            return False
        if f.type == FD.TYPE_MESSAGE:
            if not idx.proto_plus_pkg(f.message_type.file.package) or not pp_falsy(idx, v):
                return False
        elif v:
            return False
    return True


def strip_others(msg, keys):
    """True when nothing but the flattened paths (and their parents) is set in msg"""
    c = type(msg)()
    c.CopyFrom(msg)
    for k in sorted(keys, key=lambda x: -x.count(".")):
        parent, f = navigate(c, k)
        if parent is not None:
            parent.ClearField(f.name)
    for p in sorted(all_prefixes(keys), key=lambda x: -x.count(".")):
        parent, f = navigate(c, p)
        if parent is not None and parent.HasField(f.name) and getattr(parent, f.name).ByteSize() == 0:
            parent.ClearField(f.name)
    return c.ByteSize() == 0


# ---------------------------------------------------------------------------------------------- one API
def subsets(r, n, quick):
    if n == 0:
        return [()]
    if n <= 3:
        return [s for k in range(n + 1) for s in itertools.combinations(range(n), k)]
    out = [(), tuple(range(n))] + [(i,) for i in range(n)]
    for _ in range(3 if quick else 8):
        s = tuple(sorted(r.sample(range(n), r.randint(2, n - 1))))
        if s not in out:
            out.append(s)
    return out


def paged(idx, m):
    """request with string page_token and int32 page_size, response with string next_page_token and a repeated message field"""
    rq, rs = idx.msgs.get(m.input_type), idx.msgs.get(m.output_type)
    if not rq or not rs or m.client_streaming or m.server_streaming:
        return None
    f = {x.name: x for x in rq[0].field}
    g = {x.name: x for x in rs[0].field}
    items = next((x for x in rs[0].field if x.label == F.LABEL_REPEATED and x.type == F.TYPE_MESSAGE), None)
    ok = ("page_token" in f and f["page_token"].type == F.TYPE_STRING and "page_size" in f and f["page_size"].type == F.TYPE_INT32
          and "next_page_token" in g and g["next_page_token"].type == F.TYPE_STRING and items is not None)
    return items.name if ok else None


def subs_nonempty(subs):
    return [x for x, _ in subs if x]


def method_table(idx):
    """[(service fp, service, method, req fqn, cross)] from descriptors only"""
    out = []
    for fp, s in idx.services():
        for m in s.method:
            cross = idx.package_of(m.input_type) != fp.package
            out.append((fp, s, m, m.input_type, cross))
    return out


def classify_compile_failure(exp):
    """signature of the known candidate-defect class a non-compiling client falls in (None = unknown: a plain violation)"""
    names = [p for _, p, _ in exp]
    if any(n in CONTROL for n in names):
        return "flatten.param_named_like_control_arg"
    if len(set(names)) != len(names):
        return "flatten.duplicate_param_name"
    return None


def outcome_detail(o):
    """what came back for a call, for the report of an outcome the model has no term for"""
    return json.dumps({"ok": o.get("ok"), "stage": o.get("stage"), "error": o.get("error"),
                       "server_calls": [(c["path"], len(c["requests"])) for c in o.get("calls") or []],
                       "result": (o.get("result") or {}).get("kind") if isinstance(o.get("result"), dict) else o.get("result")})[:400]


class ApiRun:
    """Generation + extraction + driving of one API; fills checks (T1/T2 expressions) and reports oracle violations."""

    def __init__(self, ctx, tag, req, rindex, facts=None, gen_result=None):
        self.ctx, self.tag, self.req, self.rindex = ctx, tag, req, rindex
        self.idx = U.Index(req)
        self.dyn = dyn.Dyn(req)
        self.case = {"request_b64": apigen.req_b64(req), "rindex": rindex, "tag": tag}
        self.h = env.canon_hash(self.case["request_b64"])
        self.reserved = set(flatgen.reserved_names())
        self.facts, self.gen_result = facts, gen_result
        self.defs, self.checks = [], []
        self.module_names = {fp.name.rsplit("/", 1)[-1][:-len(".proto")] for fp in req.proto_file if self.idx.proto_plus_pkg(fp.package)}
        self.stag = re.sub(r"\W", "_", tag)
        self.sch_name = "sch_" + self.stag

    # -- model inputs
    def model_defs(self):
        roots = [t[3] for t in method_table(self.idx)]
        self.defs.append(f"Definition {self.sch_name} : schema := {A.schema_term(self.idx, roots)}.")
        for k, (fp, s, m, rq, cross) in enumerate(method_table(self.idx)):
            sigs = U.Index.signatures(m)
            self.defs.append(
                f"Definition {self.fm_name(k)} := match assoc {coq.s(rq)} {self.sch_name} with "
                f"Some m => fields_mapping {self.sch_name} m {coq.b(cross)} {coq.slist(sigs)} | None => None end.")
            self.defs.append(
                f"Definition {self.blk_name(k)} (v : variant) : option block := match assoc {coq.s(rq)} {self.sch_name}, {self.fm_name(k)} with "
                f"Some m, Some f => Some (emit v f {coq.b(cross)} (m_proto_plus m)) | _, _ => None end.")

    def fm_name(self, k):
        return f"fm_{self.stag}_{k}"

    def blk_name(self, k):
        return f"blk_{self.stag}_{k}"

    # -- T2 on the schema level: _fields_mapping
    def check_fields_mapping(self):
        facts = self.facts
        if not facts.get("ok"):
            # the whole API failed to build: the model must say that some method's mapping raises
            any_none = " || ".join(f"(match {self.fm_name(k)} with None => true | Some _ => false end)" for k in range(len(method_table(self.idx)))) or "false"
            self.checks.append((f"{self.tag}: API.build raised {facts.get('error')}: some model mapping is an error", any_none))
            return
        for k, (fp, s, m, rq, cross) in enumerate(method_table(self.idx)):
            mf = next(x for x in facts["services"][s.name]["methods"] if x["name"] == m.name)
            if "flattened" not in mf:
                self.checks.append((f"{self.tag}.{m.name}: flattened_fields raises {mf.get('flattened_error')}", f"match {self.fm_name(k)} with None => true | Some _ => false end"))
                continue
            items = coq.lst(
                f"({coq.s(f['key'])}, mkR {coq.s(f['name'])} {coq.s(f['pb_name'])} {coq.b(f['repeated'])} {coq.b(f['map'])} {coq.b(f['is_primitive'])} "
                f"{coq.b(f['message'])} {coq.b(f['ident_ident'] == 'struct_pb2.Value')} false)" for f in mf["flattened"])
            self.checks.append((f"{self.tag}.{m.name}: _fields_mapping {U.Index.signatures(m)!r} cross={cross}",
                                f"match {self.fm_name(k)} with Some f => fm_eqb f {items} | None => false end"))
            self.checks.append((f"{self.tag}.{m.name}: cross-package flag", coq.b(bool(mf["cross_pkg"]) == bool(cross))))

    # -- everything that needs the emitted library
    def run_emitted(self):
        ctx = self.ctx
        res, err = self.gen_result
        table = method_table(self.idx)
        exps = {}
        for k, (fp, s, m, rq, cross) in enumerate(table):
            exps[k] = expected_params(self.idx, rq, cross, U.Index.signatures(m), self.reserved)
        if res is None:
            unresolved = [table[k][2].name for k in exps if exps[k] is None]
            if not unresolved:
                ctx.violation(f"generation failed ({gen.error_kind(err)}) although every signature path resolves",
                              dict(self.case, stderr=err[-600:]))
            return
        files = gen.files_of(res)
        root = U.materialise(self.req, res, "c05_" + self.tag)
        vm = None
        for n in files:
            mm = re.match(r"(.*)/services/(\w+)/client\.py$", n)
            if mm:
                vm = mm.group(1).replace("/", ".")
        # ---- T1 + compile correspondence, per service
        extracted = {}
        for fp, s in self.idx.services():
            mod = U.snake(s.name)
            for variant, fname in (("Sync", "client.py"), ("Async", "async_client.py")):
                path = next((n for n in files if n.endswith(f"/services/{mod}/{fname}")), None)
                ks = [k for k, t in enumerate(table) if t[1].name == s.name]
                ok_model = " && ".join(f"(match {self.blk_name(k)} {variant} with Some b => block_ok b | None => false end)" for k in ks) or "true"
                if path is None:
                    ctx.oblige(f"T1 {self.tag}: {fname} of service {s.name} is emitted", False, "", "T1")
                    continue
                try:
                    ex = U.extract_client(files[path], path)
                    compiles = True
                except SyntaxError as e:
                    ex, compiles = {}, False
                    bad = [k for k in ks if exps[k]]
                    sig = None
                    for k in bad:
                        sig = sig or classify_compile_failure(exps[k])
                        if any(q in keyword.kwlist for _, q, _ in exps[k]):
                            sig = sig or "flatten.keyword_param_in_pb2_request"
                    ctx.violation(f"emitted {fname} of {s.name} does not compile: {type(e).__name__}: {e.msg} (line {e.lineno})",
                                  dict(self.case, file=path), sig)
                self.checks.append((f"{self.tag}: {fname} of {s.name} compiles = {compiles} agrees with the model's block_ok",
                                    f"Bool.eqb ({ok_model}) {coq.b(compiles)}"))
                cls = next((c for c in ex if c.endswith("AsyncClient") == (variant == "Async")), None)
                for k in ks:
                    m = table[k][2]
                    ir = (ex.get(cls) or {}).get(U.snake(m.name)) if cls else None
                    extracted[(k, variant)] = ir
                    if not compiles:
                        continue
                    if ir is None or "shape_error" in ir:
                        ctx.oblige(f"T1 {self.tag}.{m.name} {variant}: method read from the emitted {fname}", False,
                                   (ir or {}).get("shape_error", "method not found"), "T1")
                        continue
                    if m.client_streaming:
                        self.checks.append((f"{self.tag}.{m.name} {variant}: client-streaming method has no flattened block",
                                            coq.b(ir["guard"] is None and not ir["apps"] and ir["coerce"] is None and ir["pos"] == ["self", "requests"]
                                                  and ir["kwonly"] == ["retry", "timeout", "metadata"])))
                        continue
                    self.checks.append((f"{self.tag}.{m.name} {variant}: emitted block = model IR", self.syn_check(k, variant, ir)))
        # ---- drive
        if vm is None:
            return
        calls, meta = [], {}
        self.seqmeta = {}
        self.exps_for_sequences = exps
        r = env.rng("C05-vals", self.rindex)
        quick = ctx.quick() and not getattr(self, "deep", False)
        for k, (fp, s, m, rq, cross) in enumerate(table):
            exp = exps[k]
            if m.client_streaming or exp is None:
                continue
            keys = [p for p, _, _ in exp]
            params = [q for _, q, _ in exp]
            if self.model_keys(k, keys) is None:
                ctx.violation(f"{m.name}: flattened fields {self.impl_keys(k)} but the signatures {U.Index.signatures(m)} name {keys}",
                              dict(self.case, method=m.name))
                continue
            pp = self.idx.proto_plus_pkg(self.idx.package_of(rq))
            fp_req = self.idx.msgs[rq][1]
            if pp:
                sub = fp_req.package[len(self.idx.api_package):].strip(".")
                cls_path = vm + (("." + sub) if sub else "") + ".types:" + rq[len(fp_req.package) + 2:]
            else:
                cls_path = U.module_of(fp_req.name) + ":" + rq[len(fp_req.package) + 2:]
            items_field = paged(self.idx, m)
            if items_field and keys and "page_token" not in keys:
                # a listing walked to its end, twice: with the SAME request object, and with the same keyword arguments
                src = self.dyn.random(r, rq, fill=1.0)
                e_msg = self.dyn.new(rq)
                for key in keys:
                    set_path(e_msg, src, key)
                pages = []
                for tok in ("t1", "t2", "") * 2:
                    pg = self.dyn.new(m.output_type[1:])
                    getattr(pg, items_field).add()
                    pg.next_page_token = tok
                    pages.append({"messages": [U.b64(pg)]})
                for variant, client, tr in (("Sync", s.name + "Client", "grpc"), ("Async", s.name + "AsyncClient", "grpc_asyncio")):
                    for style in ("object", "kwargs"):
                        cid = f"{k}/{variant}/seq/{style}"
                        c = {"id": cid, "service_module": U.snake(s.name), "client": client, "transport": tr, "method": U.snake(m.name),
                             "sequence": 2, "consume": "pager", "script": {f"/{fp.package}.{s.name}/{m.name}": pages}}
                        srcd = {"cls": cls_path, "b64": U.b64(e_msg)}
                        if style == "object":
                            c["request"] = dict(srcd, mode="message")
                        else:
                            c["kwargs"], c["source"] = [{"param": params[i], "path": keys[i]} for i in range(len(keys))], srcd
                        calls.append(c)
                        self.seqmeta[cid] = (k, variant, style, e_msg)
            subs = [(x, False) for x in subsets(r, len(keys), quick)]
            if self.tag.startswith("w_"):
                subs += [(x, True) for x in subs_nonempty(subs)]
            else:       # every parameter alone, and all together, at the default of its type: 0, "", False, [], {}, an empty message
                subs += [((i,), True) for i in range(len(keys))] + ([(tuple(range(len(keys))), True)] if len(keys) > 1 else [])
            for si, (sub_, all_default) in enumerate(subs):
                src = self.dyn.random(r, rq, fill=0.75)
                # sometimes force vacuous values: defaults and empty containers
                exp_msg = self.dyn.new(rq)
                chosen = [keys[i] for i in sub_]
                for key in chosen:
                    parent, f = navigate(src, key, create=True)
                    wkt = f.type == FD.TYPE_MESSAGE and f.message_type.full_name.startswith("google.protobuf.")
                    if wkt and (f.label == FD.LABEL_REPEATED or not leaf_of(src, key)):
                        parent.ClearField(f.name)
                        for _ in range(r.randint(1, 2) if f.label == FD.LABEL_REPEATED else 1):
                            self.fill_wkt(parent, f)
                    elif not wkt and (all_default or r.random() < 0.15):
                        parent.ClearField(f.name)
                    set_path(exp_msg, src, key)
                empty_dotted = [key for key in chosen if "." in key and leaf_of(exp_msg, key) is None
                                and navigate(exp_msg, key)[1].label == FD.LABEL_REPEATED]
                variants = [("Sync", s.name + "Client", "grpc"), ("Async", s.name + "AsyncClient", "grpc_asyncio")]
                if self.rest_ok(m):
                    variants.append(("Rest", s.name + "Client", "rest"))
                for variant, client, tr in variants:
                    base = {"service_module": U.snake(s.name), "client": client, "transport": tr, "method": U.snake(m.name),
                            "consume": "stream" if m.server_streaming else "value"}
                    srcd = {"cls": cls_path, "b64": U.b64(exp_msg)}
                    kws = [{"param": params[i], "path": keys[i]} for i in sub_]
                    for mode in ("kwargs", "request", "mixed"):
                        if mode == "mixed" and not sub_:
                            continue
                        cid = f"{k}/{variant}/{si}/{mode}"
                        c = dict(base, id=cid, signature=(si == 0 and mode == "kwargs"))
                        if mode in ("kwargs", "mixed"):
                            c["kwargs"], c["source"] = kws, srcd
                        if mode in ("request", "mixed"):
                            c["request"] = dict(srcd, mode="message")
                        calls.append(c)
                        meta[cid] = (k, variant, si, mode, sub_, exp_msg, empty_dotted)
        if not calls:
            return
        try:
            out = U.drive(root, vm, calls)
        except Exception as e:  # noqa
            ctx.oblige(f"HARNESS ERROR (driver of {self.tag}, retried once; says nothing about /repo)", False, repr(e)[-800:], "build")
            return
        finally:
            gen.rm(root)
        self.judge(table, exps, out, meta, extracted)

    @staticmethod
    def optional_before_required(exp):
        from google.api import field_behavior_pb2
        req = [field_behavior_pb2.REQUIRED in f.options.Extensions[field_behavior_pb2.field_behavior] for _, _, f in exp]
        return any(not a and any(req[i + 1:]) for i, a in enumerate(req))

    def owner_pkg(self, rq, path):
        cur = rq
        for sg in path.split(".")[:-1]:
            cur = next(x for x in self.idx.msgs[cur][0].field if x.name == sg).type_name
        return self.idx.package_of(cur)

    def rest_ok(self, m):
        """the library has a REST transport and the RPC is POST with the whole request as body (then the JSON body is the request)"""
        from google.api import annotations_pb2
        rule = m.options.Extensions[annotations_pb2.http]
        return "rest" in self.req.parameter and bool(rule.post) and rule.body == "*" and not m.server_streaming and not m.client_streaming

    def rest_to_calls(self, o, rq):
        """what the loopback HTTP server saw, as one 'call' whose request is the JSON body decoded under the input descriptor"""
        from google.protobuf import json_format
        calls = []
        for h in o.get("http_calls") or []:
            msg = self.dyn.new(rq[1:])
            try:
                json_format.Parse(h["body"] or "{}", msg)
                calls.append({"path": h["verb"] + " " + h["path"], "requests": [U.b64(msg)], "metadata": []})
            except Exception as e:  # noqa
                calls.append({"path": h["verb"] + " " + h["path"], "requests": [], "metadata": [], "undecodable": repr(e)[:200]})
        return calls

    def top_field(self, rq, name):
        return next(f for f in self.idx.msgs[rq][0].field if f.name == name)

    def impl_keys(self, k):
        fp, s, m, rq, cross = method_table(self.idx)[k]
        mf = next(x for x in self.facts["services"][s.name]["methods"] if x["name"] == m.name)
        return [f["key"] for f in mf.get("flattened", [])]

    def model_keys(self, k, paths):
        """the keys the generator (and the model: compared by fm_eqb) uses for these paths: the path, with an underscore appended
        to every segment whose field is renamed (reserved word on a proto-plus message); None when the implementation's mapping is not the expected one"""
        ik = self.impl_keys(k)

        def same(a, b):
            sa, sb = a.split("."), b.split(".")
            return len(sa) == len(sb) and all(x == y or x == y + "_" for x, y in zip(sa, sb))
        if len(ik) != len(paths) or not all(same(a, b) for a, b in zip(ik, paths)):
            return None
        return ik

    def syn_check(self, k, variant, ir):
        apps = coq.lst(f"({coq.s(a['param'])}, {coq.s(a['key'])}, {a['guard']}, {a['act']})" for a in ir["apps"])
        if ir["coerce"] == "SCrossCtor":
            co = "(SCrossCtor " + coq.lst(f"({coq.s(a)}, {coq.s(b)})" for a, b in ir["ctor"]) + ")"
        else:
            co = ir["coerce"]
        kwonly = ir["kwonly"]
        tail_ok = kwonly[-3:] == ["retry", "timeout", "metadata"] and ir["pos"] == ["self", "request"] and not ir["vararg"]
        params = kwonly[:-3] if tail_ok else kwonly
        syn = f"(mkSyn {coq.slist(params)} {coq.opt(ir['guard'], coq.slist)} {co} {ir['place']} {apps})"
        return f"{coq.b(tail_ok)} && match {self.blk_name(k)} {variant} with Some b => syn_eqb (syn_of b) {syn} | None => false end"

    # -- oracle + T2 on the observed calls
    def judge_sequences(self, table, by):
        """two listings in a row, each walked to its end: the same request object twice must send what the same keyword
        arguments twice send, and the call must leave the caller's object as it was"""
        ctx = self.ctx
        seen = {}
        for cid, (k, variant, style, e_msg) in self.seqmeta.items():
            o = by.get(cid)
            fp, s, m, rq, cross = table[k]
            case = dict(self.case, method=m.name, variant=variant, mode="sequence/" + style, expected_request_b64=U.b64(e_msg))
            ctx.case({"api": self.h, "method": m.name, "variant": variant, "sequence": style, "expected": case["expected_request_b64"]},
                     nontrivial=True, feature=[variant, "paged-listing-twice", "same-" + style + "-twice",
                                               "cross-package" if cross else "same-package"])
            if o is None or (not o["ok"] and o.get("stage") == "import"):
                continue
            if not o["ok"]:
                seq_params = [q for _, q, _ in (self.exps_for_sequences.get(k) or [])]
                ctx.violation(f"{m.name} ({variant}): listing twice with the same {style} raised {o['error']['exception']}: "
                              f"{o['error']['message'][:160]}", case,
                              "flatten.param_named_like_fixed_import" if fixed_import_defect(seq_params, o) else None)
                continue
            want = []
            for _ in range(2):
                for tok in ("", "t1", "t2"):
                    w = type(e_msg)()
                    w.CopyFrom(e_msg)
                    w.page_token = tok
                    want.append(w)
            got = [self.dyn.parse(rq, b) for c in o["calls"] for b in c["requests"]]
            seen[(k, variant, style)] = got
            rounds = o["result"]["rounds"]
            if style == "object":
                for n, rd in enumerate(rounds):
                    if rd["before"] != rd["after"] or rd["before"] != rounds[0]["before"]:
                        ctx.violation(f"{m.name} ({variant}): listing number {n + 1} changed the caller's request object "
                                      f"(the call must not mutate its argument)", dict(case, before=rd["before"], after=rd["after"]))
                        break
            if got != want:
                ctx.violation(f"{m.name} ({variant}): listing twice with the same {style}: the server saw {len(got)} requests with page tokens "
                              f"{[g.page_token for g in got]}, expected {[w.page_token for w in want]} on otherwise equal requests", case)
            elif [rd["items"] for rd in rounds] != [3, 3]:
                ctx.violation(f"{m.name} ({variant}): listing twice with the same {style} yielded {[rd['items'] for rd in rounds]} items, "
                              f"the server served 3 per listing", case)
        for (k, variant, style), got in seen.items():
            other = seen.get((k, variant, "kwargs"))
            if style == "object" and other is not None and got != other:
                fp, s, m, rq, cross = table[k]
                ctx.violation(f"{m.name} ({variant}): the same request object twice and the same keyword arguments twice sent different requests",
                              dict(self.case, method=m.name, variant=variant, mode="sequence"))

    def judge(self, table, exps, out, meta, extracted):
        ctx = self.ctx
        by = {o["id"]: o for o in out}
        self.judge_sequences(table, by)
        sigs_seen = {}
        sent = {}
        for cid, (k, variant, si, mode, sub_, exp_msg, empty_dotted) in meta.items():
            o = by.get(cid)
            fp, s, m, rq, cross = table[k]
            exp = exps[k]
            keys = [p for p, _, _ in exp]
            params = [q for _, q, _ in exp]
            case = dict(self.case, method=m.name, variant=variant, subset=[keys[i] for i in sub_], mode=mode, expected_request_b64=U.b64(exp_msg))
            if o is None:
                ctx.oblige(f"T2 {self.tag}: result for call {cid}", False, "missing", "T2")
                continue
            if variant == "Rest":
                o["calls"] = self.rest_to_calls(o, rq)
            cv = "Sync" if variant == "Rest" else variant      # the REST client runs the same client.py method
            if not o["ok"] and o.get("stage") == "import":
                # reported once per API by the compile check; nothing to compare
                continue
            if mode == "kwargs":
                ctx.case({"api": self.h, "method": m.name, "variant": variant, "subset": case["subset"], "expected": case["expected_request_b64"]},
                         nontrivial=bool(keys),
                         feature=[f"params={min(len(keys), 5)}", f"subset={len(sub_)}", variant, "cross-package" if cross else "same-package"]
                         + (["signature-names-optional-before-REQUIRED"] if self.optional_before_required(exp) else [])
                         + (["primitive-param-named-like-a-proto-module"] if any(
                             params[i] in self.module_names and exp[i][2].type not in (F.TYPE_MESSAGE, F.TYPE_ENUM) for i in sub_) else [])
                         + (["reserved-intermediate-segment"] if any(x in self.reserved for i in sub_ for x in keys[i].split(".")[:-1]) else [])
                         + (["reserved-leaf-owned-by-another-package"] if any(
                             exp[i][0].count(".") and exp[i][2].name in self.reserved and self.owner_pkg(rq, exp[i][0]) != self.idx.package_of(rq)
                             for i in sub_) else [])
                         + (["dotted"] if any("." in keys[i] for i in sub_) else [])
                         + (["reserved-name"] if any(params[i] != keys[i].split(".")[-1] for i in sub_) else [])
                         + sorted({self.kind_feature(exp[i][2]) for i in sub_}))
            if "signature" in o:
                sigs_seen[(k, variant)] = o["signature"]
            # observed outcome in model terms
            mkeys = self.model_keys(k, keys)
            keys_x, mkeys_x = keys, mkeys
            obs_term, got = self.observed(o, rq, keys_x, mkeys_x)
            sent[cid] = got
            pkw = coq.lst(f"({coq.s(params[i])}, {leaf_of(exp_msg, keys[i], passed=True)})" for i in sub_)
            ra = "RNone" if mode == "kwargs" else f"(RMsg {req_term(exp_msg, keys_x, mkeys_x)})"
            kwt = pkw if mode in ("kwargs", "mixed") else "[]"
            groups = [(exp[i][0].rsplit(".", 1)[0] if "." in exp[i][0] else "", exp[i][2].oneof_index) for i in sub_
                      if exp[i][2].HasField("oneof_index") and not exp[i][2].proto3_optional]
            pb2_leaf = self.idx.proto_plus_pkg(self.idx.package_of(rq)) and any(
                "." in keys[i] and not self.idx.proto_plus_pkg(self.owner_pkg(rq, keys[i]))
                and (exp[i][2].type == F.TYPE_MESSAGE or exp[i][2].label == F.LABEL_REPEATED) for i in sub_)
            if fixed_import_defect(params, o):
                ctx.features["param named like a fixed import (oracle only)"] += 1      # known finding; the model has no imports
            elif pb2_leaf and mode == "kwargs":
                # a repeated / message leaf of a plain protobuf sub-message: protobuf refuses the emitted assignment (reported finding;
                # outside the Values contract, see ASSUMES); the oracle below reports it under its signature
                ctx.features["nonprimitive-leaf-in-pb2-submessage (oracle only)"] += 1
            elif mode == "kwargs" and len(set(groups)) < len(groups):
                # two members of one oneof passed together: protobuf keeps the last one; the valuation model has no oneofs
                # (ASSUMES); the direct oracle below still judges the call
                ctx.features["same-oneof-pair (oracle only)"] += 1
            elif obs_term is not None:
                self.checks.append((f"{self.tag}.{m.name} {variant} {mode} subset={case['subset']}: model outcome = observed",
                                    f"match {self.blk_name(k)} {cv} with Some b => outcome_eqb_on {coq.slist(mkeys_x)} {coq.slist(all_prefixes(mkeys_x))} "
                                    f"(exec b {ra} {kwt}) {obs_term} | None => false end"))
            else:
                ctx.oblige(f"T2 {self.tag}.{m.name} {variant} {mode}: outcome is one the model knows", False, outcome_detail(o), "T2")
            # ---- the property's own sentences
            known = "flatten.nonprimitive_leaf_in_pb2_submessage" if pb2_leaf else None
            if fixed_import_defect(params, o):
                known = "flatten.param_named_like_fixed_import"
            if mode == "request" and o.get("arg_before") is not None and o.get("arg_before") != o.get("arg_after"):
                ctx.violation(f"{m.name} ({variant}): the call changed the caller's request object (it must not mutate its argument)",
                              dict(case, before=o["arg_before"], after=o["arg_after"]), known)
            if mode == "mixed" and o.get("none_kwargs") and len(o["none_kwargs"]) == len(sub_):
                ctx.features["mixed call whose keyword values all read as None (skipped)"] += 1
                continue
            if mode == "mixed":
                if not (not o["ok"] and o["error"]["exception"] == "ValueError" and "individual field arguments" in o["error"]["message"] and not o["calls"]):
                    ctx.violation(f"{m.name} ({variant}): request and flattened arguments together did not raise ValueError before sending "
                                  f"(ok={o['ok']}, error={(o.get('error') or {}).get('exception')}, calls={len(o['calls'])})", case, known)
                continue
            if not o["ok"]:
                ctx.violation(f"{m.name} ({variant}) {mode} call raised {o['error']['exception']}: {o['error']['message'][:160]}", case, known)
                continue
            if len(o["calls"]) != 1 or len(o["calls"][0]["requests"]) != 1:
                ctx.violation(f"{m.name} ({variant}) {mode} call: {len(o['calls'])} calls reached the server", case, known)
                continue
            if got != exp_msg:
                sigk = known
                if mode == "kwargs" and empty_dotted and self.only_parent_presence_differs(got, exp_msg, keys):
                    sigk = "flatten.empty_container_dotted_key"
                if mode == "request" and cross and self.idx.proto_plus_pkg(self.idx.package_of(rq)) and pp_falsy(self.idx, exp_msg) \
                        and got == type(exp_msg)():
                    sigk = "flatten.cross_pkg_proto_plus_falsy_request"
                ctx.violation(f"{m.name} ({variant}) {mode} call sent a request different from the message with those fields set "
                              f"(subset {case['subset']})", dict(case, sent_b64=U.b64(got)), sigk)
        # signature clause + sync/async agreement
        for k, (fp, s, m, rq, cross) in enumerate(table):
            exp = exps[k]
            if exp is None or m.client_streaming:
                continue
            want = ["request"] + [q for _, q, _ in exp] + ["retry", "timeout", "metadata"]
            for variant in ("Sync", "Async"):
                sg = sigs_seen.get((k, variant))
                if sg is None:
                    continue
                names = [n for n, _, _ in sg]
                kinds = [kd for _, kd, _ in sg]
                if names != want or kinds[0] != "POSITIONAL_OR_KEYWORD" or any(kd != "KEYWORD_ONLY" for kd in kinds[1:]) \
                        or any(d != "None" for _, _, d in sg[:len(exp) + 1]):
                    ctx.violation(f"{m.name} ({variant}): parameters {names} but the signatures declare {want}",
                                  dict(self.case, method=m.name, variant=variant))
        for cid, (k, variant, si, mode, sub_, exp_msg, empty_dotted) in meta.items():
            if variant != "Sync" or mode != "kwargs":
                continue
            other = cid.replace("/Sync/", "/Async/")
            a, b = by.get(cid), by.get(other)
            if not a or not b or (not a["ok"] and a.get("stage") == "import") or (not b["ok"] and b.get("stage") == "import"):
                continue
            fp, s, m, rq, cross = table[k]
            keys = [p for p, _, _ in exps[k]]
            same = (a["ok"] == b["ok"]) and (sent.get(cid) == sent.get(other)) and \
                   ((a.get("error") or {}).get("exception") == (b.get("error") or {}).get("exception"))
            if not same:
                sigk = "flatten.empty_container_dotted_key" if empty_dotted else None
                if self.idx.proto_plus_pkg(self.idx.package_of(rq)) and any(
                        "." in keys[i] and not self.idx.proto_plus_pkg(self.owner_pkg(rq, keys[i]))
                        and (exps[k][i][2].type == F.TYPE_MESSAGE or exps[k][i][2].label == F.LABEL_REPEATED) for i in sub_):
                    sigk = "flatten.nonprimitive_leaf_in_pb2_submessage"
                ctx.violation(f"{m.name}: sync and asyncio clients differ for keyword arguments {[keys[i] for i in sub_]}",
                              dict(self.case, method=m.name, subset=[keys[i] for i in sub_], expected_request_b64=U.b64(exp_msg)), sigk)

    @staticmethod
    def fill_wkt(parent, f):
        """proto-plus hands google.protobuf.Value & co. over as native Python values; an unset Value has no native form"""
        name = f.message_type.full_name
        tgt = getattr(parent, f.name)
        if f.label == FD.LABEL_REPEATED:
            tgt = tgt.add()
        if name == "google.protobuf.Value":
            tgt.string_value = "v"
        elif name == "google.protobuf.FieldMask":
            tgt.paths.append("name")
        elif name == "google.protobuf.Struct":
            tgt["k"] = "v"
        else:
            tgt.SetInParent()

    @staticmethod
    def kind_feature(f):
        if f.label == F.LABEL_REPEATED:
            return "repeated-msg-or-map" if f.type == F.TYPE_MESSAGE else "repeated-scalar"
        return {F.TYPE_MESSAGE: "message", F.TYPE_ENUM: "enum"}.get(f.type, "scalar")

    def only_parent_presence_differs(self, got, exp, keys):
        if got is None:
            return False
        a, b = type(exp)(), type(exp)()
        a.CopyFrom(got)
        b.CopyFrom(exp)
        for m_ in (a, b):
            for p in sorted(all_prefixes(keys), key=lambda x: -x.count(".")):
                parent, f = navigate(m_, p)
                if parent is not None and parent.HasField(f.name) and getattr(parent, f.name).ByteSize() == 0:
                    parent.ClearField(f.name)
        return a == b

    def observed(self, o, rq, keys, mkeys):
        """-> (Coq outcome term | None, decoded request | None)"""
        if o["ok"]:
            if len(o["calls"]) == 1 and len(o["calls"][0]["requests"]) == 1:
                got = self.dyn.parse(rq, o["calls"][0]["requests"][0])
                if not strip_others(got, keys):
                    return None, got
                return f"(OSend {req_term(got, keys, mkeys)})", got
            return None, None
        e = o["error"]
        if o["calls"]:
            return None, None
        if e["exception"] == "ValueError" and "individual field arguments" in e["message"]:
            return "ORaiseValue", None
        if e["exception"] == "TypeError":
            return "ORaiseType", None
        return None, None


# ---------------------------------------------------------------------------------------------- run
def run_apis(ctx, jobs, deep=False):
    """jobs: [(tag, req, rindex)]"""
    facts = []
    CH = 4
    chunks = [jobs[i:i + CH] for i in range(0, len(jobs), CH)]
    for part in gen.pmap(lambda ch: gen.impl("schemafacts", [{"request_b64": apigen.req_b64(j[1])} for j in ch]), chunks):
        facts.extend(part)
    results = gen.pmap(lambda j: gen.run_generator(j[1]), jobs)
    runs = [ApiRun(ctx, tag, req, ri, f, g) for (tag, req, ri), f, g in zip(jobs, facts, results)]
    for a in runs:
        a.deep = deep
        a.model_defs()
        a.check_fields_mapping()

    def go(a):
        try:
            a.run_emitted()
            return None
        except Exception:  # noqa
            import traceback
            return traceback.format_exc()[-1500:]
    for a, err in zip(runs, gen.pmap(go, runs)):
        if err:
            ctx.oblige(f"harness: API {a.tag} evaluated", False, err, "build")
    defs = "\n".join(d for a in runs for d in a.defs)
    checks = [c for a in runs for c in a.checks]
    failing, errors, nfiles = coq.eval_checks("c05", IMPORTS, defs, checks, chunk=250)
    t1 = [c for c in checks if "emitted block = model IR" in c[0] or "compiles" in c[0] or "client-streaming" in c[0]]
    t2 = [c for c in checks if c not in t1]
    f1 = [f for f in failing if any(f == c[0] for c in t1)]
    f2 = [f for f in failing if f not in f1]
    ctx.oblige(f"T1 emitted flattened-params blocks (signature, guard, coercion, applications) = model IR for the same signatures "
               f"({len(t1)} comparisons over {len(runs)} libraries)", not f1 and not errors and len(t1) > 0, "; ".join((f1 + errors)[:6]), "T1")
    ctx.oblige(f"T2 model = implementation: _fields_mapping and the outcome of every driven call ({len(t2)} evaluations, {nfiles} cases files)",
               not f2 and not errors and len(t2) > 0, "; ".join((f2 + errors)[:6]), "T2")
    ctx.notes["t1_checks"], ctx.notes["t2_checks"] = len(t1), len(t2)
    ctx.notes["disagreements"] = failing[:20]
    return failing


def error_cases(ctx):
    """signatures the generator must reject (KeyError), model = None; no emitted code involved"""
    jobs = []
    # paths through a repeated message field, through a map field (message-valued and scalar-valued, .key and .value), through a
    # scalar, unknown names, an empty piece
    for i, sigs in enumerate([["items.name"], ["name.x"], ["nosuch"], ["name, ,count"], ["item.nosuch"], ["tags.x"], ["name", "item.items.name"],
                              ["name,by_key.value"], ["by_key.value.name"], ["labels.key"], ["labels.value,name"], ["item.by_key.key"],
                              ["by_key.key"], ["name", "count,item.labels.value"]]):
        main = apigen.File("google/example/library/v1/library.proto", "google.example.library.v1", deps=list(apigen.STD_DEPS))
        it = main.message("Item")
        it.field("name", 1, "string").field("items", 2, ".google.example.library.v1.Item", repeated=True)
        it.map_field("by_key", 3, "string", ".google.example.library.v1.Item")
        it.map_field("labels", 4, "string", "string")
        rq = main.message("Req")
        rq.field("name", 1, "string").field("count", 2, "int32").field("tags", 3, "string", repeated=True).field("item", 4, it.fqn).field("items", 5, it.fqn, repeated=True)
        rq.map_field("by_key", 6, "string", it.fqn)
        rq.map_field("labels", 7, "int32", "string")
        svc = main.service("Library", host="library.example.com")
        svc.rpc("Get", rq.fqn, it.fqn, sigs=sigs)
        jobs.append((f"err{i}", apigen.request([main], parameter="transport=grpc"), 0))
    facts = gen.impl("schemafacts", [{"request_b64": apigen.req_b64(j[1])} for j in jobs])
    runs = []
    for (tag, req, ri), f in zip(jobs, facts):
        a = ApiRun(ctx, tag, req, ri, f, None)
        a.model_defs()
        a.check_fields_mapping()
        ctx.case({"error_case": tag, "sigs": U.Index.signatures(method_table(a.idx)[0][2])}, nontrivial=True, feature=["rejected-signature"])
        sg = U.Index.signatures(method_table(a.idx)[0][2])
        if f.get("ok"):
            # a path through a repeated or map field, through a scalar, or to nothing has no request.<path> = value: it must be refused
            ctx.violation(f"method signature {sg} is accepted at generation time although it goes through a repeated / map / scalar "
                          f"field or names no field (flattened fields computed: "
                          f"{[x['key'] for x in f['services']['Library']['methods'][0].get('flattened', [])]})",
                          {"request_b64": apigen.req_b64(req), "rindex": 0, "tag": tag, "signatures": sg})
        runs.append(a)
    return runs


def run(ctx):
    jobs = corpus_jobs()
    ctx.oblige(f"corpus: the {len(WITNESSES)} witness APIs of corpus/C05 are present", len(jobs) >= len(WITNESSES), f"{len(jobs)} found", "build")
    n = ctx.n(5, 120)
    shapes = ["same", "dep", "sub"]
    made = 0
    i = 0
    while made < n and i < 4 * n:
        r = env.rng("C05-api", i)
        shape = shapes[i % 3]
        try:
            req, plan = make_api(r, shape)
            jobs.append((f"a{i}", req, i))
            made += 1
        except apigen.Invalid:
            ctx.features["invalid-candidate"] += 1
        i += 1
    errs = error_cases(ctx)
    defs = "\n".join(d for a in errs for d in a.defs)
    checks = [c for a in errs for c in a.checks]
    failing, errors, _ = coq.eval_checks("c05err", IMPORTS, defs, checks)
    ctx.oblige(f"T2 rejected signatures: the model's _fields_mapping is an error exactly when the generator raises ({len(checks)} evaluations)",
               not failing and not errors and checks, "; ".join((failing + errors)[:6]), "T2")
    run_apis(ctx, jobs)
    unknown_first(ctx)


def search(ctx, broken):
    """A theorem, pin or correspondence broke and no oracle failed on the regular sample: drive more APIs of every shape
    (fresh seeds, all subset sizes) and let the direct oracle look for a failing input."""
    jobs = []
    i = 10_000
    while len(jobs) < 18 and i < 10_100:
        try:
            req, _ = make_api(env.rng("C05-api", i), ["same", "dep", "sub"][i % 3])
            jobs.append((f"s{i}", req, i))
        except apigen.Invalid:
            pass
        i += 1
    ctx.notes["search"] = f"{len(jobs)} further APIs with the thorough subset enumeration"
    run_apis(ctx, jobs, deep=True)
    unknown_first(ctx)


def unknown_first(ctx):
    """violations outside the reported candidate-defect classes are listed (and hence printed) first"""
    ctx.violations.sort(key=lambda v: v.get("signature") is not None)


def replay(ctx, rep):
    c = rep.get("case", {})
    if "request_b64" in c:
        run_apis(ctx, [(c.get("tag", "replay"), apigen.req_from_b64(c["request_b64"]), c.get("rindex", 0))])
        unknown_first(ctx)
    else:
        run(ctx)
