"""C02 — T1 extractor: an emitted types module read with ast into (header, [decl]) and rendered as Coq terms.

Fail-closed: any statement or call shape the reader does not know raises Unexpected (reported as a broken T1 obligation)."""
import ast
from .. import coq


class Unexpected(Exception):
    pass


def _chain(node):
    """Name / Attribute chain -> list of components."""
    out = []
    while isinstance(node, ast.Attribute):
        out.append(node.attr)
        node = node.value
    if not isinstance(node, ast.Name):
        raise Unexpected(f"reference is not a dotted name: {ast.dump(node)[:80]}")
    out.append(node.id)
    return out[::-1]


def _int(node):
    if isinstance(node, ast.Constant) and isinstance(node.value, int) and not isinstance(node.value, bool):
        return node.value
    if isinstance(node, ast.UnaryOp) and isinstance(node.op, ast.USub) and isinstance(node.operand, ast.Constant) \
            and isinstance(node.operand.value, int):
        return -node.operand.value
    raise Unexpected(f"not an integer literal: {ast.dump(node)[:80]}")


def _ptype(node, p):
    c = _chain(node)
    if len(c) != 2 or c[0] != p:
        raise Unexpected(f"type argument is not {p}.<TYPE>: {'.'.join(c)}")
    return c[1]


def read_class(cls, p):
    base = [_chain(b) for b in cls.bases]
    if cls.keywords or cls.decorator_list or len(base) != 1 or len(base[0]) != 2 or base[0][0] != p:
        raise Unexpected(f"class {cls.name}: unexpected bases {base}")
    kind = base[0][1]
    body = list(cls.body)
    if body and isinstance(body[0], ast.Expr) and isinstance(body[0].value, ast.Constant) and isinstance(body[0].value.value, str):
        body = body[1:]
    if kind == "Enum":
        vals = []
        for st in body:
            if not (isinstance(st, ast.Assign) and len(st.targets) == 1 and isinstance(st.targets[0], ast.Name)):
                raise Unexpected(f"enum {cls.name}: unexpected statement {ast.dump(st)[:80]}")
            if st.targets[0].id == "_pb_options":
                raise Unexpected(f"enum {cls.name}: _pb_options present (enum options are outside the modelled inputs)")
            vals.append((st.targets[0].id, _int(st.value)))
        return {"k": "enum", "name": cls.name, "values": vals}
    if kind != "Message":
        raise Unexpected(f"class {cls.name}: base {p}.{kind}")
    nested, fields, seen_field = [], [], False
    for st in body:
        if isinstance(st, ast.ClassDef):
            if seen_field:
                raise Unexpected(f"class {cls.name}: nested class {st.name} after a field")
            nested.append(read_class(st, p))
        elif isinstance(st, ast.FunctionDef) and st.name in ("raw_page", "done") and len(st.decorator_list) == 1 \
                and isinstance(st.decorator_list[0], ast.Name) and st.decorator_list[0].id == "property":
            continue
        elif isinstance(st, ast.AnnAssign) and isinstance(st.target, ast.Name) and isinstance(st.value, ast.Call):
            seen_field = True
            call = st.value
            fc = _chain(call.func)
            if len(fc) != 2 or fc[0] != p or fc[1] not in ("Field", "RepeatedField", "MapField"):
                raise Unexpected(f"{cls.name}.{st.target.id}: not a {p}.Field call: {'.'.join(fc)}")
            kw = {}
            for k in call.keywords:
                if k.arg is None or k.arg in kw:
                    raise Unexpected(f"{cls.name}.{st.target.id}: bad keyword")
                kw[k.arg] = k.value
            if set(kw) - {"number", "optional", "oneof", "message", "enum"}:
                raise Unexpected(f"{cls.name}.{st.target.id}: unexpected keywords {sorted(kw)}")
            d = {"attr": st.target.id, "number": _int(kw["number"]) if "number" in kw else None, "optional": False, "oneof": None, "ref": None}
            if d["number"] is None:
                raise Unexpected(f"{cls.name}.{st.target.id}: no number=")
            if fc[1] == "MapField":
                if len(call.args) != 2:
                    raise Unexpected(f"{cls.name}.{st.target.id}: MapField needs two positional types")
                d["kind"], d["key"], d["ptype"] = "map", _ptype(call.args[0], p), _ptype(call.args[1], p)
            else:
                if len(call.args) != 1:
                    raise Unexpected(f"{cls.name}.{st.target.id}: Field needs one positional type")
                d["kind"], d["ptype"] = ("repeated" if fc[1] == "RepeatedField" else "field"), _ptype(call.args[0], p)
            if "optional" in kw:
                if not (isinstance(kw["optional"], ast.Constant) and kw["optional"].value is True):
                    raise Unexpected(f"{cls.name}.{st.target.id}: optional= is not True")
                d["optional"] = True
            if "oneof" in kw:
                if not (isinstance(kw["oneof"], ast.Constant) and isinstance(kw["oneof"].value, str)):
                    raise Unexpected(f"{cls.name}.{st.target.id}: oneof= is not a string literal")
                d["oneof"] = kw["oneof"].value
            refs = [k for k in ("message", "enum") if k in kw]
            if len(refs) > 1:
                raise Unexpected(f"{cls.name}.{st.target.id}: both message= and enum=")
            if refs:
                v = kw[refs[0]]
                if isinstance(v, ast.Constant) and isinstance(v.value, str):
                    d["ref"] = (refs[0], ("q", v.value))
                else:
                    d["ref"] = (refs[0], ("x", _chain(v)))
            fields.append(d)
        else:
            raise Unexpected(f"class {cls.name}: unexpected statement {ast.dump(st)[:100]}")
    return {"k": "msg", "name": cls.name, "body": nested, "fields": fields}


def read_module(src):
    tree = ast.parse(src)
    p, imports, header, decls = None, [], None, []
    for st in tree.body:
        if isinstance(st, ast.Expr) and isinstance(st.value, ast.Constant):
            continue
        if isinstance(st, ast.ImportFrom):
            if st.module in ("__future__", "typing"):
                continue
            if st.level != 0 or len(st.names) != 1:
                raise Unexpected(f"import shape: {ast.dump(st)[:100]}")
            imports.append({"pkg": st.module.split("."), "module": st.names[0].name, "alias": st.names[0].asname or ""})
        elif isinstance(st, ast.Import):
            if len(st.names) != 1 or st.names[0].name != "proto" or p is not None:
                raise Unexpected(f"plain import other than proto: {ast.dump(st)[:100]}")
            p = st.names[0].asname or "proto"
        elif isinstance(st, ast.Assign) and len(st.targets) == 1 and isinstance(st.targets[0], ast.Name):
            t = st.targets[0].id
            if t == "__protobuf__":
                call = st.value
                if not (isinstance(call, ast.Call) and _chain(call.func) == [p, "module"] and not call.args):
                    raise Unexpected("__protobuf__ is not <proto>.module(...)")
                kw = {k.arg: k.value for k in call.keywords}
                if set(kw) - {"package", "marshal", "manifest"} or "package" not in kw or "manifest" not in kw:
                    raise Unexpected(f"__protobuf__ keywords {sorted(kw)}")
                man = kw["manifest"]
                if not (isinstance(man, ast.Set) and all(isinstance(e, ast.Constant) and isinstance(e.value, str) for e in man.elts)):
                    # an empty manifest prints as {} (a dict display)
                    if isinstance(man, ast.Dict) and not man.keys:
                        names = []
                    else:
                        raise Unexpected("manifest is not a set of string literals")
                else:
                    names = [e.value for e in man.elts]
                for k in ("package", "marshal"):
                    if k in kw and not (isinstance(kw[k], ast.Constant) and isinstance(kw[k].value, str)):
                        raise Unexpected(f"{k}= is not a string literal")
                header = {"package": kw["package"].value, "marshal": kw["marshal"].value if "marshal" in kw else None,
                          "manifest": names}
            elif t == "__all__":
                if ast.unparse(st.value) != "tuple(sorted(__protobuf__.manifest))":
                    raise Unexpected("__all__ is not tuple(sorted(__protobuf__.manifest))")
            else:
                raise Unexpected(f"unexpected module-level assignment to {t}")
        elif isinstance(st, ast.ClassDef):
            if header is None or p is None:
                raise Unexpected("class before __protobuf__ / import proto")
            decls.append(read_class(st, p))
        else:
            raise Unexpected(f"unexpected module-level statement {ast.dump(st)[:100]}")
    if header is None or p is None:
        raise Unexpected("no __protobuf__ / import proto")
    header["proto_alias"] = p
    header["imports"] = imports
    return header, decls


# ---- Coq terms
def c_ref(ref):
    if ref is None:
        return "None"
    kw, (k, v) = ref
    e = f"(RQ {coq.s(v)})" if k == "q" else f"(RX {coq.slist(v)})"
    return f"(Some ({coq.s(kw)}, {e}))"


def c_fdecl(d):
    kind = {"field": "KField", "repeated": "KRepeated"}.get(d["kind"]) or f"(KMap {coq.s(d['key'])})"
    return (f"(mkFDecl {coq.s(d['attr'])} {kind} {coq.s(d['ptype'])} {coq.z(d['number'])} {coq.b(d['optional'])} "
            f"{coq.opt(d['oneof'])} {c_ref(d['ref'])})")


def c_decl(d):
    if d["k"] == "enum":
        return f"(DEnum {coq.s(d['name'])} {coq.lst(f'({coq.s(n)}, {coq.z(v)})' for n, v in d['values'])})"
    return f"(DMsg {coq.s(d['name'])} {coq.lst(c_decl(x) for x in d['body'])} {coq.lst(c_fdecl(f) for f in d['fields'])})"


def c_header(h):
    imps = coq.lst(f"(mkImp {coq.slist(i['pkg'])} {coq.s(i['module'])} {coq.s(i['alias'])} \"\")" for i in h["imports"])
    return (f"(mkHeader (Some {coq.s(h['proto_alias'])}) {coq.s(h['package'])} {coq.opt(h['marshal'])} "
            f"{coq.slist(h['manifest'])} {imps})")
