"""C20 — comments reach docstrings intact; whitespace clean-up never changes code meaning."""
from .. import env, coq, gen, apigen
from . import c20_t0, c20_fixws as FW

RULE = ("fix_whitespace: a corpus of edge texts + blank-line/indentation layouts drawn from a grammar (indentation 0..12 and tabs, heads the "
        "regexes look at, trailing blanks incl. \\t \\r \\f \\x1c, blank runs 0..6) + random whitespace-heavy strings + syntactically valid "
        "Python modules with surplus blanks + every text the real generator hands to fix_whitespace while generating APIs (recorded in the "
        "generator process). A case is one input text; distinct = distinct text; non-trivial = the implementation changed it.")
TRUSTED = [
    "Model/FixWs.v: hand-written model of formatter.fix_whitespace: the three regexes as continuation-passing backtracking matchers "
    "(greedy, alternatives left to right), re.sub as the leftmost non-overlapping scan, str.rstrip; tied by T0 (regex literals) and T2",
    "contract: Python's re.sub / str.rstrip behave as Model/FixWs.v says on these three regexes for ASCII text (validated on every run by T2)",
    "Python's lexer fact: deleting blank lines and trailing blanks outside string literals does not change the AST (not proved; checked by the "
    "oracle with ast.parse/ast.dump on every Python source the run sees)",
    "harness/gv/impl/c20pure.py, c20gen.py (recorders around the three functions inside the generator process), props/c20_t0.py (ast extractors)",
]
ASSUMES = ["ASCII text (DESIGN 4.1): the theorems hold for every byte string of the model, the model corresponds to Python only on ASCII; "
           "non-ASCII texts go through the direct oracle only"]


def regen(ctx):
    x = c20_t0.write_gen()
    ctx.notes["t0"] = {k: (v if isinstance(v, str) else len(v)) for k, v in x.items()}


def fixws_cases(ctx, n_layout, n_noise, n_python):
    tagged = [("corpus", t) for t in FW.CORPUS]
    tagged += [("layout", FW.gen_layout(env.rng("C20-fw-layout", i))) for i in range(n_layout)]
    tagged += [("noise", FW.gen_noise(env.rng("C20-fw-noise", i))) for i in range(n_noise)]
    tagged += [("python", FW.gen_python(env.rng("C20-fw-python", i))) for i in range(n_python)]
    return tagged


def run(ctx):
    checks, _ = FW.run_cases(ctx, fixws_cases(ctx, ctx.n(500, 6000), ctx.n(300, 4000), ctx.n(150, 1500)))
    FW.evaluate(ctx, "c20fw", "fix_whitespace on grammar texts", checks)


def replay(ctx, rep):
    c = rep.get("case", {})
    if c.get("kind") == "fixws":
        checks, _ = FW.run_cases(ctx, [("replay", c["text"])])
        FW.evaluate(ctx, "c20fw", "fix_whitespace on the replayed text", checks)
    else:
        run(ctx)


def search(ctx, broken):
    """A theorem, pin or correspondence broke and the oracle was silent: look harder (fresh, larger streams)."""
    tagged = [("layout", FW.gen_layout(env.rng("C20-fw-search-layout", i))) for i in range(4000)]
    tagged += [("noise", FW.gen_noise(env.rng("C20-fw-search-noise", i))) for i in range(3000)]
    tagged += [("python", FW.gen_python(env.rng("C20-fw-search-python", i))) for i in range(1000)]
    FW.run_cases(ctx, tagged)
