"""C20 — comments reach docstrings intact; whitespace clean-up never changes code meaning."""
import glob, json, os
from .. import env, coq, gen, apigen, apis
from . import c20_t0, c20_fixws as FW, c20_wrap as W, c20_doc as D

RULE = ("fix_whitespace: corpus of edge texts + blank-line/indentation layouts from a grammar (indentation 0..12 and tabs, heads the regexes look at, "
        "trailing blanks incl. \\t \\r \\f \\x1c, blank runs 0..6) + random whitespace-heavy strings + syntactically valid Python modules with surplus "
        "blanks + every text the real generator hands to fix_whitespace while generating APIs (recorded inside the generator process). "
        "wrap/rst: corpus + comment texts from a grammar (words, punctuation, blank lines, list markers, colons, tabs, runs of spaces, long tokens, quotes, "
        "backslashes, \\r \\f \\x1c) x widths 1..80 x indents 0..16 x offsets with offset < width, + every (text, width, offset, indent) the templates pass "
        "to the wrap/rst filters during those generations; textwrap contract and Metadata.doc on grammar texts; the character classes exhaustively over 0..127. "
        "End to end: a one-service API with a comment on every kind of element (message, field, enum, enum value, service, method), benign comments and one "
        "hazardous comment at a time (triple quotes, trailing backslash, backslash escapes, final quotes, curly braces; also on the result and metadata messages of a "
        "long-running rpc and the response message of a paged rpc, whose comments go into the Returns: section of the method docstrings; also on a request message shared by a unary, a "
        "server-streaming, a client-streaming and a bidirectional rpc, whose comment is rendered into the four method docstrings of both clients); and the same API with every element documented "
        "only by a detached comment / only by a trailing one / by leading+trailing / leading+detached / two detached / trailing+detached (comment placement). "
        "A case is one input (text, or text+parameters, or comment set); distinct = distinct canonical JSON; non-trivial = non-blank text / changed by the "
        "implementation / at least one comment.")
TRUSTED = [
    "Model/FixWs.v: hand-written model of formatter.fix_whitespace: the three regexes as continuation-passing backtracking matchers "
    "(greedy, alternatives left to right), re.sub as the leftmost non-overlapping scan, str.rstrip; tied by T0 (regex literals) and T2",
    "Model/Wrap.v: hand-written model of lines.wrap line by line (replace, first-line split, colon rule, textwrap.wrap call, list test, slice, "
    "tokenisation, fill with indents, join, rstrip; with the prologue expandtabs + lstrip of blanks of fix 6b1479c), of rst's plain path and tail "
    "(terminator escaping, backslash padding, quote guard of fix c174597), of Metadata.doc, and of CPython's textwrap as used "
    "(expandtabs, whitespace translation, chunk split, _wrap_chunks with drop_whitespace and break_long_words=False); tied by T0 (regex literals, "
    "textwrap keyword arguments, the 0.75 constant) and T2",
    "contract: Python's re.sub / str methods / textwrap behave as the models say for ASCII text (validated on every run by T2, textwrap separately)",
    "Python's lexer fact: deleting blank lines and trailing blanks outside string literals does not change the AST (not proved; checked by the "
    "oracle with ast.parse/ast.dump on every Python source the run sees)",
    "pandoc is not modelled: rst's pandoc path is observed only as 'pypandoc.convert_text was called' (a recorder replaces it in the driver process)",
    "harness/gv/impl/c20pure.py, c20gen.py (recorders around fix_whitespace / wrap / rst inside the generator process), props/c20_t0.py (ast extractors), "
    "apigen + DescriptorPool as validity judge, ast.parse / ast.get_docstring as judges of the emitted modules",
]
ASSUMES = [
    "ASCII text (DESIGN 4.1): the theorems hold for every byte string of the model, the model corresponds to Python only on ASCII; "
    "non-ASCII texts go through the direct oracle only",
    "wrap: words are str.split() words; C20_wrap_words_preserved carries no hypothesis (every text, width, offset, indent for which wrap returns); "
    "C20_wrap_width_bound_partial is partial (bound proved for the first line and for every line of every filled token, not restated over "
    "result.split('\\n'))",
    "rst: docstring safety is stated at the level of CPython's tokenizer for raw triple-quoted literals (dq_scan in Model/Wrap.v: a backslash takes "
    "the next character, three unescaped quotes end the literal); 'no three consecutive quotes' is false of the code (C20_rst_no_triple_quote_substring_refuted: "
    "five quotes) and harmless; the oracle checks the same thing with ast.parse on r\"\"\"<result>\"\"\"; pandoc's output is not modelled, only the shared tail of rst",
]


def regen(ctx):
    x = c20_t0.write_gen()
    ctx.notes["t0_values"] = x


PIN_NAMES = ["fix_whitespace: the three re.sub patterns and replacement templates, in order", "lines.NUMBERED_LIST_REGEX",
             "wrap: the colon re.sub pattern and template", "wrap: keyword arguments of the textwrap.wrap call",
             "wrap: keyword arguments of the textwrap.fill call", "wrap: numeric constants (0, 0.75, 1)",
             "rst: the re.search pattern and the arguments of the wrap call",
             "wrap: the prologue text.expandtabs().lstrip(blanks), blanks = the class is_lblank of the model",
             "rst: the literal replace, the endswith tests and the appended strings of its tail"]


def pins(ctx):
    """T0: each literal regenerated from /repo equals the one the models were written against (compared inside coqc)."""
    checks = [(n, f"match nth_error all_pins {i} with Some (name, ok) => String.eqb name {coq.s(n)} && ok | None => false end") for i, n in enumerate(PIN_NAMES)]
    checks.append(("the pin list has no further entry", f"Nat.eqb (List.length all_pins) {len(PIN_NAMES)}"))
    failing, errors, _ = coq.eval_checks("c20pins", "From GV Require Import Gen.C20Lit Proofs.C20Pins.", "", checks)
    for n, _e in checks:
        ctx.oblige(f"T0 pin: {n}", n not in failing and not errors, "; ".join(errors)[:600] or f"the literal read from {env.REPO} differs from the pinned one: {ctx.notes.get('t0_values', {})}", "T0")


def novel_first(ctx):
    """main.py reports at most five distinct violations: put those that match no candidate-defect class first."""
    ctx.violations.sort(key=lambda v: v.get("signature") is not None)


# ---------------------------------------------------------------- pure part
def fixws_cases(prefix, n_layout, n_noise, n_python):
    tagged = [("layout", FW.gen_layout(env.rng(prefix + "-layout", i))) for i in range(n_layout)]
    tagged += [("noise", FW.gen_noise(env.rng(prefix + "-noise", i))) for i in range(n_noise)]
    tagged += [("python", FW.gen_python(env.rng(prefix + "-python", i))) for i in range(n_python)]
    return tagged


RST_SHAPES = [(72, 0), (72, 4), (72, 8), (72, 12), (72, 16), (40, 4), (30, 8), (20, 2), (80, 16)]


def rst_cases(prefix, n):
    out = []
    for i in range(n):
        r = env.rng(prefix, i)
        w, ind = r.choice(RST_SHAPES)
        out.append((W.gen_text(r), w, ind, r.choice([None, None, True, False])))
    return out


def run_pure(ctx):
    checks, _ = FW.run_cases(ctx, [("corpus", t) for t in FW.CORPUS] + fixws_cases("C20-fw", ctx.n(250, 6000), ctx.n(150, 4000), ctx.n(80, 1500)))
    FW.evaluate(ctx, "c20fw", "fix_whitespace on corpus and grammar texts", checks)
    wcases = list(W.CORPUS) + [W.gen_case(env.rng("C20-wrap", i)) for i in range(ctx.n(500, 12000))]
    wchecks = W.run_wrap(ctx, wcases)
    FW.evaluate(ctx, "c20wrap", "wrap on corpus and grammar comments x widths/offsets/indents", wchecks)
    rchecks = W.run_rst(ctx, list(W.RST_CORPUS) + rst_cases("C20-rst", ctx.n(150, 3000)))
    cchecks = W.run_contracts(ctx, ctx.n(150, 3000))
    FW.evaluate(ctx, "c20rst", "rst (plain path, quote guard, pandoc decision), textwrap contract, Metadata.doc, character classes", rchecks + cchecks)


# ---------------------------------------------------------------- end to end
def grammar_comments(r):
    """Comments from the grammar (quotes, backslashes, TABs included; no pandoc trigger: pandoc is not modelled; no \\r \\f \\x1c)."""
    def one():
        for _ in range(50):
            t = W.gen_text(r).strip()
            if t and not any(ch in t for ch in '|*`_[]\x1c\x1d\r\x0c') and t.isascii():
                return t
        return "Plain words only."
    return {tgt: one() for tgt, _ in D.TARGETS}


def e2e_jobs(ctx):
    jobs = [("benign", dict(D.BENIGN), None)]
    # where the comment sits in the source: every element kind documented only by a detached comment / only by a trailing one /
    # by several (controls for the selection leading > trailing > detached); the words must arrive in the emitted docstrings
    for name, comments in D.placements().items():
        if ctx.tier == "quick" and name in ("detached-only", "leading+detached", "trailing+detached"):
            continue                        # corpus/C20/comment-detached-only.json is this very case and has already been queued
        jobs.append(("placement:" + name, comments, None))
    for i in range(ctx.n(2, 40)):
        jobs.append(("grammar", grammar_comments(env.rng("C20-e2e-comments", i)), None))
    hz = []
    for sig, texts in D.HAZARDS.items():
        for tx in texts:
            for tgt, _ in D.TARGETS:
                hz.append((sig, tx, tgt))
    if ctx.tier == "quick":    # a spread: every class on service + message + one rotating target
        keep = []
        for k, (sig, tx, tgt) in enumerate(hz):
            if texts_index(sig, tx) == 0 and tgt in ("service", "message"):
                keep.append((sig, tx, tgt))
            elif texts_index(sig, tx) == 0 and tgt == "stream_request":       # rendered into all four streaming kinds of method docstring
                keep.append((sig, tx, tgt))
            elif texts_index(sig, tx) == 0 and sig == D.BRACES and tgt in ("lro_result", "paged_response"):   # all brace forms in one comment
                keep.append((sig, tx, tgt))
            elif texts_index(sig, tx) == 0 and sig.endswith("triple_quote_in_comment") and tgt == "lro_result":
                keep.append((sig, tx, tgt))
            elif texts_index(sig, tx) == 1 and tgt in ("method",) and sig.endswith("triple_quote_in_comment"):
                keep.append((sig, tx, tgt))
        hz = keep
    for sig, tx, tgt in hz:
        c = dict(D.BENIGN)
        c[tgt] = tx
        jobs.append(("hazard:" + sig.split(".")[1], c, (tgt, tx)))
    return jobs + ads_jobs(ctx)


def ads_jobs(ctx):
    """The same API through the ads templates (the request-comment defect found there is fixed upstream: these cases guard against its return)."""
    jobs = [("ads:benign", dict(D.BENIGN), None)]
    for tgt in ("request", "stream_request"):
        for tx in ['Fetch by name, e.g. """things/1""" please.'] + ([] if ctx.tier == "quick" else ["Path C:\\", 'five """"" quotes', "three \\\\\\"]):
            jobs.append(("ads:hazard", {**D.BENIGN, tgt: tx}, (tgt, tx)))
    return jobs


def texts_index(sig, tx):
    return D.HAZARDS[sig].index(tx)


def run_generation(req):
    return gen.impl("c20gen", {"request_b64": apigen.req_b64(req)}, timeout=900)


def run_e2e(ctx, jobs=None, conventional=None):
    jobs = e2e_jobs(ctx) if jobs is None else jobs
    reqs = []
    for kind, comments, hazard in jobs:
        reqs.append((kind, comments, hazard, D.build(comments, ads=kind.startswith("ads:"))))
    nconv = ctx.n(1, 8) if conventional is None else conventional
    for i in range(nconv):
        r = env.rng("C20-e2e-conv", i)
        try:
            reqs.append(("conventional", None, None, apis.conventional(r).request("transport=grpc+rest")))
        except apigen.Invalid:
            ctx.features["e2e:invalid-candidate"] += 1
    outs = gen.pmap(lambda q: run_generation(q[3]), reqs)
    fw_tagged, wrap_cases, rst_cases_ = [], [], []
    seen_fw, seen_w, seen_r = set(), set(), set()
    for (kind, comments, hazard, req), o in zip(reqs, outs):
        case = {"kind": "e2e", "what": kind, "comments": comments, "request_b64": apigen.req_b64(req)}
        ctx.case({"kind": "e2e", "what": kind, "comments": comments} if comments is not None else case, nontrivial=True, feature=["e2e:" + kind])
        if o["files"] is None:
            ctx.violation(f"generation failed for a {kind} API: {o['error'][-300:]}", case, None)
            continue
        sig = D.hazard_signature(*hazard) if hazard else None
        if kind.startswith("ads:") and hazard and hazard[0] in ("request", "stream_request"):
            sig = D.ADS_SIGNATURE
        pf = D.parse_failures(o["files"])
        if pf and comments is None:
            # an API without any comment: whatever fails to parse is not C20's subject (e.g. a proto package without a namespace
            # segment makes noxfile.py and the samples invalid); recorded, reported to the coordinator, not a C20 violation
            ctx.features["e2e:comment-free-api-with-unparsable-files"] += 1
            ctx.notes.setdefault("unrelated_parse_failures", []).append({"package": sorted({f.package for f in req.proto_file if f.name in req.file_to_generate}),
                                                                         "files": [p_[0] for p_ in pf[:4]], "first": pf[0][1]})
        elif pf:
            where = f" (comment {hazard[1]!r} on the {hazard[0]})" if hazard else ""
            ctx.violation(f"emitted module does not parse{where}: {pf[0][0]}: {pf[0][1]}; {len(pf)} file(s)", {**case, "parse_failures": pf[:6]}, sig)
        elif comments is not None:
            for tgt, detail in D.intact(comments, o["files"], skip=D.ADS_SKIP if kind.startswith("ads:") else ()):
                ctx.violation(f"the {tgt} comment does not reach its docstring intact: {detail}", {**case, "target": tgt},
                              sig if hazard and hazard[0] == tgt else None)
        # every call the templates made, as further cases for the pure oracles and T2
        for a, _b in o["fixws"]:
            if a not in seen_fw:
                seen_fw.add(a)
                fw_tagged.append(("generated", a))
        for text, width, offset, indent, _out in o["wrap"]:
            k = (text, width, offset, indent)
            if k not in seen_w:
                seen_w.add(k)
                wrap_cases.append(k)
        for text, width, indent, nl, _sf, _out in o["rst"]:
            k = (text, width, indent, nl)
            if k not in seen_r:
                seen_r.add(k)
                rst_cases_.append(k)
    cap = ctx.n(6000, 40000)
    fw_tagged.sort(key=lambda kt: len(kt[1]))
    checks, _ = FW.run_cases(ctx, fw_tagged, max_model_len=cap)
    budget, kept = ctx.n(120000, 2000000), []
    for c in checks:                       # bound the total size handed to coqc
        budget -= len(c[1])
        if budget < 0:
            break
        kept.append(c)
    checks = kept
    checks += W.run_wrap(ctx, wrap_cases, kind="generated")
    checks += W.run_rst(ctx, rst_cases_, kind="generated")
    FW.evaluate(ctx, "c20e2e", f"fix_whitespace / wrap / rst on the calls recorded during {len(reqs)} generations", checks)
    ctx.notes["e2e"] = {"generations": len(reqs), "fix_whitespace_inputs": len(fw_tagged), "wrap_calls": len(wrap_cases), "rst_calls": len(rst_cases_)}


def corpus():
    out = []
    for p in sorted(glob.glob(os.path.join(env.VERIF, "corpus", "C20", "*.json"))):
        c = json.load(open(p))
        c["corpus_file"] = os.path.basename(p)
        out.append(c)
    return out


def witnesses(ctx):
    """corpus/C20 first: the witnesses of the six former findings (fixed by 6b1479c and c174597) — a violation here means one is back."""
    cs = corpus()
    ws = [c for c in cs if c["kind"] == "wrap"]
    checks = W.run_wrap(ctx, [(c["text"], c["width"], c["offset"], c["indent"]) for c in ws], kind="corpus")
    FW.evaluate(ctx, "c20corpus", "wrap on the former witnesses kept in corpus/C20", checks)
    jobs = []
    for c in cs:
        if c["kind"] == "e2e":
            tgt, tx = next(iter(c["comments"].items()))
            jobs.append(("corpus:" + c["corpus_file"], {**D.BENIGN, **c["comments"]}, (tgt, tx) if isinstance(tx, str) else None))
    return jobs


def run(ctx):
    import time
    t0 = time.time()
    pins(ctx)
    corpus_jobs = witnesses(ctx)
    run_pure(ctx)
    t1 = time.time()
    run_e2e(ctx, jobs=corpus_jobs + e2e_jobs(ctx))
    ctx.notes["seconds"] = {"coq_stage": round(t0 - ctx.t0, 1), "pure": round(t1 - t0, 1), "e2e": round(time.time() - t1, 1)}
    novel_first(ctx)


def replay(ctx, rep):
    c = rep.get("case", {})
    k = c.get("kind")
    if k == "fixws":
        checks, _ = FW.run_cases(ctx, [("replay", c["text"])])
        FW.evaluate(ctx, "c20fw", "fix_whitespace on the replayed text", checks)
    elif k == "wrap":
        FW.evaluate(ctx, "c20wrap", "wrap on the replayed case", W.run_wrap(ctx, [(c["text"], c["width"], c["offset"], c["indent"])], kind="replay"))
    elif k == "rst":
        FW.evaluate(ctx, "c20rst", "rst on the replayed case", W.run_rst(ctx, [(c["text"], c["width"], c["indent"], c["nl"])], kind="replay"))
    elif k == "e2e" and c.get("comments") is not None:
        hazard = None
        for tgt, _ in D.TARGETS:
            if c["comments"].get(tgt) is not None and D.hazard_signature(tgt, c["comments"][tgt]):
                hazard = (tgt, c["comments"][tgt])
        run_e2e(ctx, jobs=[(c.get("what", "replay"), c["comments"], hazard)], conventional=0)
    else:
        run(ctx)
    novel_first(ctx)


def search(ctx, broken):
    """A theorem, pin or correspondence broke and the oracle was silent: look harder (fresh, larger streams)."""
    FW.run_cases(ctx, fixws_cases("C20-search-fw", 4000, 3000, 1000))
    W.run_wrap(ctx, [W.gen_case(env.rng("C20-search-wrap", i)) for i in range(12000)], kind="search")
    W.run_rst(ctx, list(W.RST_CORPUS) + rst_cases("C20-search-rst", 3000), kind="search")
    novel_first(ctx)
