"""Builds corpus/C02/*.json (hand-made requests: one broad positive case and one witness per known-defect class).
Run:  cd /verif/harness && /venv/bin/python -m gv.props.c02_corpus"""
import json, os
from .. import apigen, env
from ..apigen import File
from . import c02_gen as G

P = G.TARGET
D = G.TARGET_DIR


def kitchen_sink():
    res = File(f"{D}/res.proto", P)
    color = res.enum("Color", ["COLOR_UNSPECIFIED", ("RED", 1), ("BIG", 2 ** 31 - 1), ("MID", 7)])
    shape = res.message("Shape")
    kind = shape.enum("Kind", ["KIND_UNSPECIFIED", "ROUND"])
    shape.field("name", 1, "string").field("color", 2, ("enum", color)).field("kind", 3, ("enum", kind))
    one = res.enum("Single", ["SINGLE_ONLY"])
    f = File(f"{D}/main.proto", P, deps=["google/protobuf/struct.proto", "google/protobuf/timestamp.proto", f"{D}/res.proto",
                                          "foo/bar/common.proto", "google/protobuf/any.proto", "google/protobuf/empty.proto"])
    dep = File("foo/bar/common.proto", "foo.bar")
    th = dep.message("Thing"); th.field("id", 1, "int64")
    part = th.nested("Part"); part.field("w", 1, "double")
    lvl = dep.enum("Level", ["LEVEL_UNSPECIFIED", ("HIGH", 4)])
    a = f.message("Alpha")
    b = a.nested("Beta"); c = b.nested("Gamma"); dlt = c.nested("Delta"); dlt.field("x", 1, "sint64")
    c.field("x", 1, "int32").field("d", 2, dlt.fqn).field("up2", 3, a.fqn)
    b.field("g", 1, c.fqn).field("up", 2, a.fqn).field("sib", 3, "." + P + ".Alpha.Other")
    other = a.nested("Other"); other.field("beta", 1, b.fqn).field("deep", 2, dlt.fqn)
    a.field("beta", 1, b.fqn).field("gamma", 2, c.fqn).field("self_ref", 3, a.fqn).field("later", 4, "." + P + ".Later")
    a.field("shape", 5, shape.fqn).field("color", 6, ("enum", color)).field("kind", 7, ("enum", kind)).field("single", 28, ("enum", one))
    a.field("class", 8, "string").field("st", 9, ".google.protobuf.Struct").field("ts", 10, ".google.protobuf.Timestamp", repeated=True)
    a.field("o1", 12, "string", oneof="pick").field("o2", 13, b.fqn, oneof="pick").field("o3", 18, ("enum", color), oneof="pick")
    a.field("solo", 19, "bytes", oneof="lonely")
    a.field("opt", 11, "int64", optional=True).field("opt_msg", 17, c.fqn, optional=True).field("opt_enum", 20, ("enum", kind), optional=True)
    a.map_field("labels", 14, "string", "string").map_field("by_id", 15, "int64", b.fqn).map_field("colors", 16, "bool", ("enum", color))
    a.map_field("things", 21, "fixed32", th.fqn).map_field("import", 22, "sint32", ".google.protobuf.Struct")
    a.field("thing", 23, th.fqn).field("part", 24, part.fqn, repeated=True).field("level", 25, ("enum", lvl))
    a.field("proto", 26, "string").field("res", 27, "uint32").field("any", 29, ".google.protobuf.Any")
    a.field("foo_bar_baz", 536870911, "double").field("x1_y2", 2047, "float")
    for i, s in enumerate(sorted(apigen.SCALARS)):
        a.field(f"s_{s}", 100 + i, s)
        a.field(f"r_{s}", 200 + i, s, repeated=True)
    for i, s in enumerate(apigen.MAP_KEY_SCALARS):
        a.map_field(f"m_{s}", 300 + i, s, "bytes")
    l = f.message("Later"); l.field("alpha", 1, a.fqn).field("in", 2, "bool", repeated=True).field("other", 3, other.fqn)
    return "kitchen-sink", [dep, res, f], [res, f], ["all-scalars", "all-map-keys", "nesting-depth=4", "alias-import", "proto-alias"]


def pb2_clash(silent, other="qux.baz"):
    d1 = File("foo/bar/thing.proto", "foo.bar"); A = d1.message("A"); A.field("x", 1, "int32")
    d2 = File(f"{other.replace('.', '/')}/thing.proto", other)
    B = d2.message("A" if silent else "B"); B.field("x" if silent else "y", 1, "string")
    f = File(f"{D}/main.proto", P, deps=["foo/bar/thing.proto", d2.proto.name])
    m = f.message("Holder"); m.field("a", 1, A.fqn).field("b", 2, B.fqn)
    name = "pb2-same-basename" + ("-wrong-type" if silent else "") + ("-equal-initials" if other == "fab.baz" else "")
    return name, [d1, d2, f], [f], ["defect:import.pb2_same_basename" if other != "fab.baz" else "defect:import.alias_equal_initials"]


def rel_misfire(silent):
    f = File(f"{D}/main.proto", P)
    foo = f.message("Foo"); bar = foo.nested("Bar"); bar.field("v", 1, "int32")
    x = f.message("X"); xfoo = x.nested("Foo")
    if silent:
        own = xfoo.nested("Bar"); own.field("w", 1, "string")
    xfoo.field("bar", 1, bar.fqn)
    return ("rel-misfire-wrong-type" if silent else "rel-misfire"), [f], [f], ["regression:rel.nested_named_like_toplevel (fixed 2f90e4e)"]


def module_named_field():
    money = File(f"{D}/money.proto", P)
    m = money.message("Money"); m.field("units", 1, "int64").field("currency", 2, "string")
    f = File(f"{D}/orders.proto", P, deps=[f"{D}/money.proto"])
    order = f.message("Order"); line = order.nested("Line")
    line.field("money", 1, m.fqn).field("discounts", 2, m.fqn, repeated=True)
    order.field("lines", 1, line.fqn, repeated=True).field("id", 2, "string")
    return "nested-field-named-like-module", [money, f], [money, f], ["alias forced only by a NESTED message's field name (Proto.names over all_messages)"]


def proto_alias_with_enums():
    """Names colliding with the module the types file itself imports (`proto`) in files that also declare enums:
    %proto.py.j2 imports proto-plus as `_proto`, and every class statement and Field call must use that alias."""
    f1 = File(f"{D}/docs.proto", P)
    enc = f1.enum("Encoding", ["ENCODING_UNSPECIFIED", ("UTF8", 1), ("LATIN1", 5)])
    doc = f1.message("Doc")
    kind = doc.enum("Kind", ["KIND_UNSPECIFIED", "NOTE"])
    doc.field("name", 1, "string").field("proto", 2, "string").field("enc", 3, ("enum", enc)).field("kind", 4, ("enum", kind), repeated=True)
    doc.map_field("by_enc", 5, "string", ("enum", enc))
    f2 = File(f"{D}/shapes.proto", P, deps=[f"{D}/docs.proto"])
    pm = f2.message("proto")                       # a MESSAGE named proto
    mode = pm.enum("Mode", ["MODE_UNSPECIFIED", "FAST"])
    pm.field("mode", 1, ("enum", mode)).field("doc", 2, doc.fqn).field("again", 3, pm.fqn)
    top = f2.enum("Level", ["LEVEL_UNSPECIFIED", ("HIGH", 3)])
    user = f2.message("User"); user.field("p", 1, pm.fqn).field("level", 2, ("enum", top), optional=True)
    f3 = File(f"{D}/holder.proto", P)
    h = f3.message("Holder")
    pe = h.enum("proto", ["PROTO_UNSPECIFIED", ("PROTO_X", 1)])   # a nested ENUM named proto
    inner = h.nested("Inner"); ie = inner.enum("Rank", ["RANK_UNSPECIFIED", "FIRST"])
    inner.field("rank", 1, ("enum", ie)).field("p", 2, ("enum", pe))
    h.field("p", 1, ("enum", pe)).field("inner", 2, inner.fqn)
    return "proto-alias-with-enums", [f1, f2, f3], [f1, f2, f3], ["field / message / nested enum named proto, with top-level and nested enums"]


def underscore_oneofs():
    """Declared oneofs whose names start with an underscore: alone, before another declared oneof, next to proto3 optional."""
    f = File(f"{D}/legacy.proto", P)
    e = f.enum("Kind", ["KIND_UNSPECIFIED", "OLD", "NEW"])
    sub = f.message("Sub"); sub.field("n", 1, "int32")
    alone = f.message("Alone")
    alone.field("id", 1, "string").field("code", 2, "int32", oneof="_legacy_kind").field("label", 3, "string", oneof="_legacy_kind")
    alone.field("sub", 4, sub.fqn, oneof="_legacy_kind")
    two = f.message("Two")
    two.field("code", 1, "int32", oneof="_legacy_kind").field("label", 2, "string", oneof="_legacy_kind")
    two.field("kind", 3, ("enum", e), oneof="modern").field("flag", 4, "bool", oneof="modern").field("plain", 5, "bytes")
    mixed = f.message("Mixed")
    mixed.field("a", 1, "sint64", oneof="_first").field("b", 2, "string", oneof="_first")
    mixed.field("c", 3, "uint32", oneof="second").field("d", 4, sub.fqn, oneof="second")
    mixed.field("e", 5, "double", oneof="_third").field("f", 6, ("enum", e), oneof="_third")
    mixed.field("opt", 7, "int32", optional=True).field("opt_s", 8, "string", optional=True).field("opt_m", 9, sub.fqn, optional=True)
    inner = mixed.nested("Inner")
    inner.field("x", 1, "fixed32", oneof="_only").field("y", 2, "bool", optional=True)
    mixed.field("inner", 10, inner.fqn)
    return "underscore-oneofs", [f], [f], ["declared oneofs named with a leading underscore: alone, before another oneof, with proto3 optional"]


def same_basename_cross_package():
    """Target files named like a file of another package they take a type from: only the package distinguishes the import of
    that file from an import of the module itself (dependency _pb2 files, and a proto-plus file of a proto sub-package)."""
    dep = File("foo/bar/common.proto", "foo.bar")
    th = dep.message("Thing"); th.field("id", 1, "int64")
    lvl = dep.enum("Level", ["LEVEL_UNSPECIFIED", ("HIGH", 4)])
    subf = File(f"{D}/sub/common.proto", P + ".sub")
    deep = subf.message("Deep"); deep.field("x", 1, "sint32")
    dk = subf.enum("DeepKind", ["DEEP_KIND_UNSPECIFIED", "DEEP"])
    ops = File(f"{D}/operations.proto", P, deps=["google/longrunning/operations.proto"])
    job = ops.message("Job")
    job.field("name", 1, "string").field("op", 2, ".google.longrunning.Operation").field("history", 3, ".google.longrunning.Operation", repeated=True)
    job.map_field("by_name", 4, "string", ".google.longrunning.Operation")
    st = File(f"{D}/status.proto", P, deps=["google/rpc/status.proto"])
    rep = st.message("Report"); rep.field("status", 1, ".google.rpc.Status").field("code", 2, "int32", optional=True)
    com = File(f"{D}/common.proto", P, deps=["foo/bar/common.proto", f"{D}/sub/common.proto"])
    own = com.message("Own"); own.field("v", 1, "string")
    both = com.message("Both")
    both.field("thing", 1, th.fqn).field("level", 2, ("enum", lvl)).field("deep", 3, deep.fqn).field("deep_kind", 4, ("enum", dk), repeated=True)
    both.field("own", 5, own.fqn).map_field("deeps", 6, "int32", deep.fqn)
    return ("same-basename-cross-package", [dep, subf, ops, st, com], [subf, ops, st, com],
            ["target file named like a dependency _pb2 file / a sub-package proto-plus file it references", "proto-sub-package"])


def enum_negative():
    f = File(f"{D}/main.proto", P)
    e = f.enum("Temp", ["TEMP_UNSPECIFIED", ("HOT", 1), ("COLD", -1)])
    m = f.message("Reading"); m.field("temp", 1, ("enum", e))
    return "enum-negative", [f], [f], ["defect:enum.negative_value"]


def selective_witness():
    """A kept message with map fields whose value types (a message in another file, an enum) are reachable from the selected
    rpc ONLY through the map; also a oneof-only and a nested-only type."""
    res = File(f"{D}/res.proto", P)
    detail = res.message("Detail"); detail.field("text", 1, "string")
    extra = res.message("Unrelated"); extra.field("x", 1, "int32")
    main_ = File(f"{D}/main.proto", P, deps=list(apigen.STD_DEPS) + [res.proto.name])
    grade = main_.enum("Grade", ["GRADE_UNSPECIFIED", ("GRADE_A", 1)])
    only_oneof = main_.message("Alt"); only_oneof.field("v", 1, "bytes")
    req1 = main_.message("GetReportRequest"); req1.field("name", 1, "string")
    rep = main_.message("Report")
    rep.field("name", 1, "string").map_field("details", 2, "string", detail.fqn).map_field("grades", 3, "int32", ("enum", grade))
    rep.field("text_alt", 4, "string", oneof="alt").field("msg_alt", 5, only_oneof.fqn, oneof="alt")
    inner = rep.nested("Inner"); inner.field("z", 1, "fixed32")
    rep.field("inner", 6, inner.fqn)
    req2 = main_.message("GetOtherRequest"); req2.field("name", 1, "string")
    other = main_.message("Other"); other.field("u", 1, extra.fqn)
    svc = main_.service("Sel", host="sel.example.com")
    svc.rpc("GetReport", req1.fqn, rep.fqn, http=("get", "/v1/{name=reports/*}"))
    svc.rpc("GetOther", req2.fqn, other.fqn, http=("get", "/v1/{name=others/*}"))
    req = apigen.request([res, main_], parameter="transport=grpc")
    io = {f"{P}.Sel.GetReport": [f"{P}.GetReportRequest", f"{P}.Report"], f"{P}.Sel.GetOther": [f"{P}.GetOtherRequest", f"{P}.Other"]}
    return {"name": "selective-map-value-only", "request_b64": apigen.req_b64(req), "selective_methods": [f"{P}.Sel.GetReport"], "io": io,
            "features": ["types reachable only as map values / oneof member / nested type"]}


def main():
    ds = os.path.join(env.VERIF, "corpus", "C02", "selective")
    os.makedirs(ds, exist_ok=True)
    w = selective_witness()
    with open(os.path.join(ds, w["name"] + ".json"), "w") as fh:
        json.dump(w, fh, indent=1)
    print(w["name"])
    dp_ = os.path.join(env.VERIF, "corpus", "C02", "ppdeps")
    os.makedirs(dp_, exist_ok=True)
    import random
    dep_req, req, feats = G.ppdeps_api(random.Random(7))
    with open(os.path.join(dp_, "prefix-sibling-of-listed-dep.json"), "w") as fh:
        json.dump({"name": "prefix-sibling-of-listed-dep", "features": feats, "dep_request_b64": apigen.req_b64(dep_req),
                   "request_b64": apigen.req_b64(req)}, fh, indent=1)
    print("prefix-sibling-of-listed-dep", feats)
    d = os.path.join(env.VERIF, "corpus", "C02")
    os.makedirs(d, exist_ok=True)
    for name, files, togen, feats in [kitchen_sink(), pb2_clash(False), pb2_clash(True), pb2_clash(False, "fab.baz"),
                                      rel_misfire(False), rel_misfire(True), module_named_field(), proto_alias_with_enums(), underscore_oneofs(), same_basename_cross_package(),
                                      enum_negative()]:
        req = apigen.request(files, to_generate=[f.proto.name for f in togen], parameter="transport=grpc")
        with open(os.path.join(d, name + ".json"), "w") as fh:
            json.dump({"name": name, "features": feats, "request_b64": apigen.req_b64(req)}, fh, indent=1)
        print(name, G.defect_classes(req))


if __name__ == "__main__":
    main()
