"""C14 helpers: APIs covering every calling form and required-field shape, reference facts read from the INPUT
descriptors (never from /repo), reply scripts for the loopback servers, Coq terms of the schema."""
import base64, json, re
from google.protobuf import descriptor_pb2 as dp, json_format, any_pb2
from google.api import client_pb2, field_behavior_pb2, annotations_pb2
from google.longrunning import operations_pb2
from .. import apigen, apis, coq
from ..apigen import File, SCALARS

F = dp.FieldDescriptorProto
EMPTY = ".google.protobuf.Empty"
OPERATION = ".google.longrunning.Operation"


def snake(s):
    """Reference snake_case for ordinary CamelCase rpc / service names (independent of /repo)."""
    s = re.sub(r"(?<=[a-z])([A-Z])", r"_\1", s)
    s = re.sub(r"(?<=[^_])([A-Z])(?=[a-z])", r"_\1", s)
    return s.lower()


# ------------------------------------------------------------------ APIs
SHAPES = ["scalars", "enums", "nested", "toplevel_msg", "oneof_toplevel_msg", "deep_toplevel", "repeated_msg", "map_required",
          "msg_no_required", "oneof_msg_no_required", "same_type_twice", "same_type_single_repeated", "same_type_oneof_required",
          "same_type_two_paths", "dotted_sig", "repeated_all_scalars", "repeated_in_msg", "repeated_bool", "oneof_scalar", "oneof_msg", "oneof_enum", "repeated_scalar", "repeated_enum",
          "resource_ref", "wkt", "bytes", "deep", "optional", "two_oneofs", "required_in_oneof"]
FORMS = ["unary", "paged", "lro", "server_stream", "client_stream", "bidi", "void"]


def add_shape(api, f, req, shape, n, r):
    """Adds REQUIRED fields of one shape to request message `req`, numbering from n; returns next number."""
    pkg = api.package
    if shape == "scalars":
        for t in r.sample(list(SCALARS), 4):
            req.field(f"{t}_val", n, t, required=True)
            n += 1
    elif shape == "bytes":
        req.field("payload", n, "bytes", required=True); n += 1
        req.field("ratio", n, "double", required=True); n += 1
        req.field("enabled", n, "bool", required=True); n += 1
    elif shape == "enums":
        top = f.enum(f"{req.proto.name}Mode", ["MODE_UNSPECIFIED", "MODE_FAST", "MODE_SAFE"]) if not any(
            e.name == f"{req.proto.name}Mode" for e in f.proto.enum_type) else f".{pkg}.{req.proto.name}Mode"
        req.field("mode", n, ("enum", top), required=True); n += 1
        nested = req.enum("Level", [("LEVEL_UNSPECIFIED", 0), ("LOW", 1), ("HIGH", 5)])
        req.field("level", n, ("enum", nested), required=True); n += 1
    elif shape == "repeated_enum":
        nested = req.enum("Tag", ["TAG_UNSPECIFIED", "TAG_A", "TAG_B"])
        req.field("tags", n, ("enum", nested), required=True, repeated=True); n += 1
    elif shape == "nested":
        sub = req.nested("Settings")
        sub.field("label", 1, "string", required=True).field("weight", 2, "int32", required=True).field("note", 3, "string")
        req.field("settings", n, sub.fqn, required=True); n += 1
    elif shape == "toplevel_msg":
        name = f"{req.proto.name}Spec"
        sub = f.message(name)
        sub.field("label", 1, "string", required=True).field("weight", 2, "int32", required=True).field("note", 3, "string")
        req.field("spec", n, sub.fqn, required=True); n += 1
    elif shape == "oneof_toplevel_msg":
        sub = f.message(f"{req.proto.name}Window")
        sub.field("low", 1, "int32", required=True).field("high", 2, "int32")
        req.field("window", n, sub.fqn, oneof="extent"); n += 1
        req.field("everything", n, "bool", oneof="extent"); n += 1
    elif shape == "deep_toplevel":
        c = f.message(f"{req.proto.name}Core"); c.field("id", 1, "string", required=True)
        b = f.message(f"{req.proto.name}Inner"); b.field("core", 1, c.fqn, required=True).field("count", 2, "uint32", required=True)
        a = f.message(f"{req.proto.name}Outer"); a.field("inner", 1, b.fqn, required=True)
        req.field("outer", n, a.fqn, required=True); n += 1
    elif shape == "repeated_msg":
        sub = f.message(f"{req.proto.name}Entry"); sub.field("key", 1, "string", required=True)
        req.field("entries", n, sub.fqn, required=True, repeated=True); n += 1
    elif shape == "map_required":
        req.map_field("labels", n, "string", "string")
        req.proto.field[-1].options.Extensions[field_behavior_pb2.field_behavior].append(field_behavior_pb2.REQUIRED); n += 1
    elif shape == "msg_no_required":
        sub = f.message(f"{req.proto.name}Payload"); sub.field("text", 1, "string").field("size", 2, "int32")
        req.field("payload_msg", n, sub.fqn, required=True); n += 1
    elif shape == "oneof_msg_no_required":
        sub = f.message(f"{req.proto.name}Blob"); sub.field("text", 1, "string")
        req.field("blob", n, sub.fqn, oneof="content"); n += 1
        req.field("uri", n, "string", oneof="content"); n += 1
    elif shape == "same_type_twice":          # two REQUIRED message fields of one type
        loc = f.message(f"{req.proto.name}Location"); loc.field("uri", 1, "string", required=True).field("region", 2, "string")
        req.field("source", n, loc.fqn, required=True); n += 1
        req.field("destination", n, loc.fqn, required=True); n += 1
    elif shape == "same_type_single_repeated":  # a REQUIRED singular and a REQUIRED repeated field of one type
        part = f.message(f"{req.proto.name}Part"); part.field("key", 1, "string", required=True)
        req.field("main_part", n, part.fqn, required=True); n += 1
        req.field("parts", n, part.fqn, required=True, repeated=True); n += 1
    elif shape == "same_type_oneof_required":   # the first member of a oneof and a REQUIRED field of one type
        tgt = f.message(f"{req.proto.name}Target"); tgt.field("id", 1, "int64", required=True)
        req.field("by_target", n, tgt.fqn, oneof="where"); n += 1
        req.field("by_label", n, "string", oneof="where"); n += 1
        req.field("fallback", n, tgt.fqn, required=True); n += 1
    elif shape == "same_type_two_paths":        # one type reached through two different nesting paths
        st = f.message(f"{req.proto.name}Stamp"); st.field("code", 1, "string", required=True)
        le = f.message(f"{req.proto.name}Left"); le.field("stamp", 1, st.fqn, required=True)
        ri = f.message(f"{req.proto.name}Right"); ri.field("stamp", 1, st.fqn, required=True).field("seal", 2, "bool", required=True)
        req.field("left", n, le.fqn, required=True); n += 1
        req.field("right", n, ri.fqn, required=True); n += 1
    elif shape == "dotted_sig":                 # method_signature entries naming NESTED fields, one with a reserved-word leaf
        bk = f.message(f"{req.proto.name}Book")
        bk.field("title", 1, "string", required=True).field("format", 2, "string").field("pages", 3, "int32")
        req.field("book", n, bk.fqn, required=True); n += 1
        req._dotted = getattr(req, "_dotted", []) + ["book.title", "book.format"]
    elif shape == "repeated_all_scalars":       # a REQUIRED repeated field of every scalar kind
        for t in ("bool", "bytes", "string", "double", "float", "int32", "int64", "uint32", "uint64", "sint32", "sint64",
                  "fixed32", "fixed64", "sfixed32", "sfixed64"):
            req.field(f"{t}_items", n, t, required=True, repeated=True); n += 1
    elif shape == "repeated_in_msg":            # REQUIRED repeated scalars inside a REQUIRED (top-level typed) message
        fl = f.message(f"{req.proto.name}Flags")
        fl.field("switches", 1, "bool", required=True, repeated=True).field("blobs", 2, "bytes", required=True, repeated=True)
        fl.field("ratios", 3, "double", required=True, repeated=True).field("labels", 4, "string", required=True, repeated=True)
        req.field("flags", n, fl.fqn, required=True); n += 1
    elif shape == "repeated_bool":              # REQUIRED repeated bool, top-level and inside a REQUIRED message (no bytes around)
        tg = f.message(f"{req.proto.name}Toggles"); tg.field("switches", 1, "bool", required=True, repeated=True)
        req.field("enabled_flags", n, "bool", required=True, repeated=True); n += 1
        req.field("toggles", n, tg.fqn, required=True); n += 1
    elif shape == "deep":
        a = req.nested("Outer"); b = a.nested("Inner"); c = b.nested("Core")
        c.field("id", 1, "string", required=True)
        b.field("core", 1, c.fqn, required=True).field("count", 2, "uint32", required=True)
        a.field("inner", 1, b.fqn, required=True)
        req.field("outer", n, a.fqn, required=True); n += 1
    elif shape == "oneof_scalar":
        req.field("by_title", n, "string", oneof="selector"); n += 1
        req.field("by_number", n, "int64", oneof="selector"); n += 1
    elif shape == "oneof_msg":
        sub = req.nested("ByRange")
        sub.field("low", 1, "int32", required=True).field("high", 2, "int32")
        req.field("by_range", n, sub.fqn, oneof="span"); n += 1
        req.field("by_text", n, "string", oneof="span"); n += 1
    elif shape == "oneof_enum":
        nested = req.enum("Pick", ["PICK_UNSPECIFIED", "PICK_ONE", "PICK_TWO"])
        req.field("pick", n, ("enum", nested), oneof="choice"); n += 1
        req.field("free_text", n, "string", oneof="choice"); n += 1
    elif shape == "two_oneofs":
        req.field("a_str", n, "string", oneof="first_group"); n += 1
        req.field("a_int", n, "int32", oneof="first_group"); n += 1
        req.field("b_bool", n, "bool", oneof="second_group"); n += 1
        req.field("b_bytes", n, "bytes", oneof="second_group"); n += 1
    elif shape == "required_in_oneof":
        req.field("alt_a", n, "string", oneof="alt"); n += 1
        req.field("alt_b", n, "string", oneof="alt", required=True); n += 1
    elif shape == "repeated_scalar":
        req.field("names", n, "string", required=True, repeated=True); n += 1
        req.field("counts", n, "int32", required=True, repeated=True); n += 1
    elif shape == "resource_ref":
        req.field("shelf", n, "string", required=True, ref=f"{api.host}/Shelf"); n += 1
    elif shape == "wkt":
        for name, t, dep in (("expire_time", ".google.protobuf.Timestamp", "google/protobuf/timestamp.proto"),
                             ("ttl", ".google.protobuf.Duration", "google/protobuf/duration.proto"),
                             ("mask", ".google.protobuf.FieldMask", "google/protobuf/field_mask.proto")):
            f.dep(dep)
            req.field(name, n, t, required=True); n += 1
    elif shape == "optional":
        req.field("nickname", n, "string", optional=True, required=True); n += 1
        req.field("hint", n, "int32", optional=True); n += 1
    return n


def sample_api(r, forms=None, shapes=None, pkgidx=None, transport="grpc", other_package=False, two_services=False,
               rpc_prefix="", keyword_rpc=False):
    """An API with one rpc per requested calling form; the request of each carries some required-field shapes."""
    pkg, host = apis.PACKAGES[pkgidx if pkgidx is not None else r.randrange(len(apis.PACKAGES))]
    api = apis.Api(r, pkg, nfiles=1, host=host)
    f = api.main
    f.resource_def(f"{host}/Shelf", ["shelves/{shelf}"])
    forms = list(forms if forms is not None else FORMS)
    shapes = list(shapes if shapes is not None else r.sample(SHAPES, 5))
    item = f.message("Item")
    item.field("name", 1, "string").field("title", 2, "string")
    item.resource(f"{host}/Item", ["items/{item}"])
    svc = api.service("Catalog")
    info = {"package": pkg, "host": host, "transport": transport, "services": {"Catalog": []}, "forms": {}, "shapes": shapes}
    extra = []
    if other_package:
        opkg = ".".join(pkg.split(".")[:-2] + ["sharedtypes", "v1"])   # a sibling package, outside the emitted one
        of = File("/".join(opkg.split(".")) + "/shared.proto", opkg, deps=list(apigen.STD_DEPS))
        om = of.message("SharedRequest")
        om.field("name", 1, "string", required=True).field("depth", 2, "int32", required=True)
        extra.append(of)
        f.dep(of.proto.name)
        info["other_package"] = opkg
    k = 0
    for form in forms:
        rpc = rpc_prefix + {"unary": "GetItem", "paged": "ListItems", "lro": "ImportItems", "server_stream": "WatchItems",
                            "client_stream": "UploadItems", "bidi": "ChatItems", "void": "DeleteItem"}[form]
        req = f.message(f"{rpc}Request")
        n = 1
        if form == "paged":
            req.field("parent", n, "string", required=True); n += 1
            req.field("page_size", n, "int32"); n += 1
            req.field("page_token", n, "string"); n += 1
        else:
            req.field("name", n, "string", required=True, ref=f"{host}/Item"); n += 1
        # two shapes per rpc, rotating through the requested ones
        # (synthetic oneofs of proto3 optional fields must come after the real oneofs: that shape goes last)
        for sh in sorted({shapes[(2 * k) % len(shapes)], shapes[(2 * k + 1) % len(shapes)]}, key=lambda x: (x == "optional", x)) if shapes else ():
            n = add_shape(api, f, req, sh, n, r)
        k += 1
        inp = req.fqn
        first = "parent" if form == "paged" else "name"
        dotted = [f"{first}," + ",".join(getattr(req, "_dotted", []))] if getattr(req, "_dotted", None) else []
        if other_package and form == "unary":
            inp = "." + info["other_package"] + ".SharedRequest"
            dotted = []                 # the request is another message now: the shape's signature entries do not exist in it
        if form == "unary":
            svc.rpc(rpc, inp, item.fqn, http=("post", "/v1/{name=items/*}:get"), body="*", sigs=["name"] + dotted)
        elif form == "paged":
            resp = f.message(f"{rpc}Response")
            resp.field("items", 1, item.fqn, repeated=True).field("next_page_token", 2, "string")
            svc.rpc(rpc, inp, resp.fqn, http=("post", "/v1/{parent=shelves/*}/items:list"), body="*", sigs=["parent"] + dotted)
        elif form == "lro":
            f.dep("google/longrunning/operations.proto")
            rm = f.message(f"{rpc}Response"); rm.field("imported", 1, "int32")
            mm = f.message(f"{rpc}Metadata"); mm.field("progress", 1, "int32")
            # two signatures: the flattened parameters are their union, in order
            second = next((x.name for x in req.proto.field[1:] if not x.HasField("oneof_index")), None)
            svc.rpc(rpc, inp, OPERATION, http=("post", "/v1/{name=items/*}:import"), body="*", lro=(rm.proto.name, mm.proto.name),
                    sigs=["name"] + ([f"name,{second}"] if second else []) + dotted)
        elif form == "void":
            f.dep("google/protobuf/empty.proto")
            svc.rpc(rpc, inp, EMPTY, http=("post", "/v1/{name=items/*}:delete"), body="*", sigs=["name"] + dotted)
        else:
            resp = f.message(f"{rpc}Response"); resp.field("chunk", 1, "bytes").field("seq", 2, "int64")
            cs, ss = {"server_stream": (False, True), "client_stream": (True, False), "bidi": (True, True)}[form]
            svc.rpc(rpc, inp, resp.fqn, cs=cs, ss=ss,
                    http=("post", "/v1/{name=items/*}:watch") if form == "server_stream" else None, body="*" if form == "server_stream" else None,
                    sigs=(["name"] + dotted) if form == "server_stream" else [])
        info["services"]["Catalog"].append(rpc)
        info["forms"][rpc] = form
    if keyword_rpc:
        kr = f.message("ImportRequest"); kr.field("name", 1, "string", required=True)
        svc.rpc("Import", kr.fqn, item.fqn, http=("post", "/v1/{name=items/*}:imp"), body="*")
        info["services"]["Catalog"].append("Import"); info["forms"]["Import"] = "unary"
    if two_services:
        s2 = api.service("Archive", host="archive-" + host)
        ar = f.message("GetArchiveRequest"); ar.field("name", 1, "string", required=True)
        s2.rpc("GetArchive", ar.fqn, item.fqn, http=("get", "/v1/{name=archives/*}"))
        info["services"]["Archive"] = ["GetArchive"]; info["forms"]["GetArchive"] = "unary"
        info["host2"] = "archive-" + host
    req = api.request(f"transport={transport}", extra_files=extra, to_generate=[f.proto.name])
    check_signatures(req)
    return req, info


def check_signatures(req):
    """Well-formedness protoc does not check: every google.api.method_signature entry names a (nested) field of the rpc's
    request message. A candidate that fails is a harness mistake and is rejected as apigen.Invalid, never reported."""
    msgs = index_messages(req)
    for fp, s in target_services(req):
        for m in s.method:
            for sig in m.options.Extensions[client_pb2.method_signature]:
                for entry in [e for e in sig.split(",") if e]:
                    cur = msgs.get(m.input_type)
                    for part in entry.strip().split("."):
                        fld = next((x for x in cur.field if x.name == part), None) if cur is not None else None
                        if fld is None:
                            raise apigen.Invalid(f"method_signature entry {entry!r} of {s.name}.{m.name} names no field of {m.input_type}")
                        cur = msgs.get(fld.type_name) if fld.type == F.TYPE_MESSAGE else None


# ------------------------------------------------------------------ reference facts from the input descriptors
def index_messages(req):
    out = {}

    def walk(prefix, m):
        fqn = f"{prefix}.{m.name}"
        out[fqn] = m
        for n in m.nested_type:
            walk(fqn, n)
    for fp in req.proto_file:
        for m in fp.message_type:
            walk("." + fp.package if fp.package else "", m)
    return out


def index_enums(req):
    out = {}

    def walk(prefix, m):
        fqn = f"{prefix}.{m.name}"
        for e in m.enum_type:
            out[f"{fqn}.{e.name}"] = e
        for n in m.nested_type:
            walk(fqn, n)
    for fp in req.proto_file:
        pre = "." + fp.package if fp.package else ""
        for e in fp.enum_type:
            out[f"{pre}.{e.name}"] = e
        for m in fp.message_type:
            walk(pre, m)
    return out


def is_required(f):
    return field_behavior_pb2.REQUIRED in f.options.Extensions[field_behavior_pb2.field_behavior]


def target_services(req):
    """[(file proto, service proto)] of the files to generate."""
    out = []
    for fp in req.proto_file:
        if fp.name in req.file_to_generate:
            for s in fp.service:
                out.append((fp, s))
    return out


def version_of(pkg):
    last = pkg.split(".")[-1]
    return last if re.fullmatch(r"v\d+(p\d+)?((alpha|beta)\d*)?", last) else ""


def calling_form(m, msgs):
    """Reference classification of an rpc from its descriptor (the property's list of calling forms)."""
    if m.output_type == OPERATION and m.options.Extensions[operations_pb2.operation_info].response_type:
        return "lro"
    if m.client_streaming and m.server_streaming:
        return "bidi"
    if m.client_streaming:
        return "client_stream"
    if m.server_streaming:
        return "server_stream"
    if m.output_type == EMPTY:
        return "void"
    inp, out = msgs[m.input_type], msgs[m.output_type]
    fi = {f.name: f for f in inp.field}
    fo = {f.name: f for f in out.field}
    if "page_token" in fi and "next_page_token" in fo and any(x in fi for x in ("page_size", "max_results")) and \
            any(f.label == F.LABEL_REPEATED for f in out.field):
        return "paged"
    return "unary"


def reply_for(m, form, msgs, dyn, fp):
    """Scripted gRPC reply (base64 messages) and HTTP reply for one rpc."""
    b = lambda x: base64.b64encode(x.SerializeToString()).decode()  # noqa
    if form == "lro":
        oi = m.options.Extensions[operations_pb2.operation_info]
        rt = oi.response_type if "." in oi.response_type else f"{fp.package}.{oi.response_type}"
        op = operations_pb2.Operation(name="operations/sample-op", done=True)
        op.response.type_url = "type.googleapis.com/" + rt
        op.response.value = b""
        return {"messages": [b(op)]}, json.dumps({"name": "operations/sample-op", "done": True, "response": {"@type": "type.googleapis.com/" + rt}})
    out = dyn.new(m.output_type)
    if form in ("server_stream", "bidi"):
        return {"messages": [b(out), b(out)]}, "[{}, {}]"
    return {"messages": [b(out)]}, "{}"
