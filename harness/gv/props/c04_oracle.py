"""C04 direct oracle: the property's own sentence evaluated on what the loopback HTTP server received.

Independent of Model/Http.v and of /repo's helpers: it knows only the INPUT descriptors (google.api.http rules as
written, field types, REQUIRED markers), the request the caller passed, and the bytes that arrived.  The request is
re-assembled from (path variables extracted by matching the URL against a declared binding, query parameters, body
JSON) with json_format.ParseDict under the input descriptor and compared with what the caller passed."""
import json, urllib.parse
from google.protobuf import json_format
from google.protobuf.descriptor import FieldDescriptor as FD
from .c04_api import LEAF_WKT, normalize

ALT = ("$alt", "json;enum-encoding=int")
HOSTILE = set("?#%")


# ------------------------------------------------------------------ google.api.http templates (oracle's own reader)
def parse_template(uri):
    """-> {'segs': [(kind, text, var)], 'verb': str|None, 'vars': {name: [(kind, text)]}}; kind in lit, *, **"""
    core, verb = uri, None
    i = uri.rfind(":")
    if i > max(uri.rfind("}"), uri.rfind("/")):
        core, verb = uri[:i], uri[i + 1:]
    if not core.startswith("/"):
        raise ValueError(f"template does not start with '/': {uri!r}")
    segs, vars_, pos = [], {}, 1
    while pos <= len(core):
        if pos < len(core) and core[pos] == "{":
            end = core.index("}", pos)
            content = core[pos + 1:end]
            name, _, tmpl = content.partition("=")
            sub = [(s if s in ("*", "**") else "lit", s) for s in (tmpl or "*").split("/")]
            vars_[name] = sub
            segs.extend((k, t, name) for k, t in sub)
            pos = end + 1
            if pos < len(core) and core[pos] != "/":
                raise ValueError(f"text after a variable inside one segment: {uri!r}")
            pos += 1
        else:
            end = core.find("/", pos)
            end = len(core) if end < 0 else end
            text = core[pos:end]
            segs.append((text if text in ("*", "**") else "lit", text, None))
            pos = end + 1
    return {"segs": segs, "verb": verb, "vars": vars_}


def _match_segs(tsegs, segs):
    """Assign url segments to template segments ('**' takes what the rest does not need, at least one)."""
    out, i = [], 0
    for j, (kind, text, var) in enumerate(tsegs):
        rest = len(tsegs) - j - 1
        if kind == "**":
            n = len(segs) - i - rest
            if n < 1:
                return None
            out.append(segs[i:i + n]); i += n
        else:
            if i >= len(segs) or segs[i] == "" or (kind == "lit" and segs[i] != text):
                return None
            out.append([segs[i]]); i += 1
    return out if i == len(segs) else None


def match_path(tmpl, raw_path):
    """Path variables a server would extract from the URL path, or None when the path is not an instance."""
    path = raw_path
    if tmpl["verb"] is not None:
        suffix = ":" + tmpl["verb"]
        if not path.endswith(suffix):
            return None
        path = path[:-len(suffix)]
    if not path.startswith("/"):
        return None
    segs = [urllib.parse.unquote(s) for s in path[1:].split("/")]
    parts = _match_segs(tmpl["segs"], segs)
    if parts is None:
        return None
    vals = {}
    for (kind, text, var), p in zip(tmpl["segs"], parts):
        if var is not None:
            vals.setdefault(var, []).extend(p)
    return {k: "/".join(v) for k, v in vals.items()}


def get_path(msg, dotted):
    o = msg
    for p in dotted.split("."):
        if not hasattr(o, p):
            return None
        o = getattr(o, p)
    return o


def spec_applies(tmpl, msg):
    """google.api.http: every path variable is set (non-empty) and matches its own sub-template."""
    for name, sub in tmpl["vars"].items():
        v = get_path(msg, name)
        if not isinstance(v, str) or v == "":
            return False
        if _match_segs([(k, t, None) for k, t in sub], v.split("/")) is None:
            return False
    return True


def bindings_of(ms):
    out = []
    for x in [ms["rule"]] + ms["more"]:
        if x["pat"] == "verb" and x["uri"]:
            out.append({"verb": x["verb"], "uri": x["uri"], "body": x["body"], "tmpl": parse_template(x["uri"])})
    return out


# ------------------------------------------------------------------ re-assembly
class Problem(Exception):
    pass


def _field(desc, key):
    for f in desc.fields:
        if key == f.json_name or key == f.name:
            return f
    return None


def _is_map(f):
    return f.type == FD.TYPE_MESSAGE and f.message_type.GetOptions().map_entry


def _leaf_msg(f):
    return f.type == FD.TYPE_MESSAGE and f.message_type.full_name in LEAF_WKT


def _check_enum(f, v, numeric, where, problems):
    if f.type != FD.TYPE_ENUM:
        return
    is_num = isinstance(v, int) and not isinstance(v, bool) or (isinstance(v, str) and v.lstrip("-").isdigit())
    if numeric and not is_num:
        problems.append(f"enum {f.name} travels as {v!r} in the {where} although numeric enums are requested")
    if not numeric and is_num:
        problems.append(f"enum {f.name} travels as number {v!r} in the {where} although numeric enums are not requested")


def canon_body(desc, obj, numeric, problems, where="body"):
    """Body JSON re-keyed by proto names; reports keys that are not proto/lowerCamel names and enum encodings."""
    out = {}
    if not isinstance(obj, dict):
        raise Problem(f"{where} is not a JSON object: {obj!r}")
    for k, v in obj.items():
        f = _field(desc, k)
        if f is None:
            problems.append(f"{where} key {k!r} is neither the proto name nor the lowerCamel JSON name of a field of {desc.full_name}")
            continue
        if f.name in out:
            problems.append(f"{where} carries field {f.name} twice")
        if _is_map(f):
            vf = f.message_type.fields_by_name["value"]
            for mv in v.values():
                _check_enum(vf, mv, numeric, where, problems)
            out[f.name] = v
        elif f.type == FD.TYPE_MESSAGE and not _leaf_msg(f):
            if f.label == FD.LABEL_REPEATED:
                out[f.name] = [canon_body(f.message_type, e, numeric, problems, where) for e in v]
            else:
                out[f.name] = canon_body(f.message_type, v, numeric, problems, where)
        else:
            for e in (v if f.label == FD.LABEL_REPEATED and isinstance(v, list) else [v]):
                _check_enum(f, e, numeric, where, problems)
            out[f.name] = v
    return out


def _conv(f, text, numeric, problems):
    if f.type == FD.TYPE_BOOL:
        if text not in ("true", "false"):
            raise Problem(f"query value {text!r} for bool field {f.name}")
        return text == "true"
    if f.type == FD.TYPE_ENUM:
        _check_enum(f, text, numeric, "query", problems)
        return int(text) if text.lstrip("-").isdigit() else text
    return text


def put(d, path, value, source, sources, problems, repeated=False):
    """Set one leaf in the nested dict; a second writer of a singular leaf is a duplication."""
    cur = d
    for p in path[:-1]:
        nxt = cur.setdefault(p, {})
        if not isinstance(nxt, dict):
            problems.append(f"field {'.'.join(path)} arrives both as a scalar and as a message")
            return
        cur = nxt
    last = path[-1]
    key = tuple(path)
    if repeated:
        cur.setdefault(last, [])
        if isinstance(cur[last], list):
            cur[last].append(value)
        if sources.setdefault(key, source) != source:
            problems.append(f"DUP field {'.'.join(path)} arrives in the {sources[key]} and in the {source}")
        return
    if last in cur:
        problems.append(f"DUP field {'.'.join(path)} arrives in the {sources.get(key, '?')} and in the {source}")
        return
    cur[last] = value
    sources[key] = source


def merge(d, obj, prefix, source, sources, problems):
    for k, v in obj.items():
        if isinstance(v, dict) and isinstance(d.get(k), dict):
            merge(d[k], v, prefix + (k,), source, sources, problems)
        elif k in d:
            problems.append(f"DUP field {'.'.join(prefix + (k,))} arrives in the {sources.get(prefix + (k,), 'path')} and in the {source}")
        else:
            d[k] = v
            sources[prefix + (k,)] = source


def query_to_fields(desc, query, numeric, problems):
    """[(proto path tuple, field descriptor, map key | None, converted value)] for every query pair but $alt."""
    out = []
    for k, v in query:
        if k == "$alt":
            continue
        comps, cur, path, i = k.split("."), desc, [], 0
        while True:
            f = _field(cur, comps[i]) if i < len(comps) else None
            if f is None:
                problems.append(f"query key {k!r} does not name a field of the request by its proto or lowerCamel name")
                break
            path.append(f.name)
            if _is_map(f):
                vf = f.message_type.fields_by_name["value"]
                out.append((tuple(path), f, ".".join(comps[i + 1:]), _conv(vf, v, numeric, problems)))
                break
            if f.type == FD.TYPE_MESSAGE and not _leaf_msg(f):
                if f.label == FD.LABEL_REPEATED:
                    problems.append(f"query key {k!r} addresses a repeated message field")
                    break
                cur, i = f.message_type, i + 1
                continue
            if i != len(comps) - 1:
                problems.append(f"query key {k!r} continues below the scalar field {f.name}")
                break
            out.append((tuple(path), f, None, _conv(f, v, numeric, problems)))
            break
    return out


DEFAULT_TEXT = {FD.TYPE_STRING: "", FD.TYPE_BOOL: "false", FD.TYPE_DOUBLE: "0.0", FD.TYPE_FLOAT: "0.0", FD.TYPE_BYTES: "b''"}


def default_texts(f):
    if f.type == FD.TYPE_BYTES:
        return {"b''", ""}
    if f.type in (FD.TYPE_DOUBLE, FD.TYPE_FLOAT):
        return {"0.0", "0"}
    if f.type in DEFAULT_TEXT:
        return {DEFAULT_TEXT[f.type]}
    if f.type in (FD.TYPE_MESSAGE, FD.TYPE_ENUM):
        return set()
    return {"0"}


def reassemble(desc_cls, binding, vars_, query, body_obj, numeric):
    """-> (message | None, problems)"""
    problems, d, sources = [], {}, {}
    desc = desc_cls.DESCRIPTOR
    for name, val in vars_.items():
        put(d, name.split("."), val, "path", sources, problems)
    if binding["body"]:
        if body_obj is None:
            problems.append(f"LOSTBODY binding {binding['verb']} {binding['uri']} declares body {binding['body']!r} but no body was sent")
        elif binding["body"] == "*":
            merge(d, canon_body(desc, body_obj, numeric, problems), (), "body", sources, problems)
        else:
            bf = desc.fields_by_name.get(binding["body"])
            if bf is None or bf.type != FD.TYPE_MESSAGE:
                raise Problem(f"body {binding['body']!r} does not name a message field")
            sub = canon_body(bf.message_type, body_obj, numeric, problems)
            if isinstance(d.get(bf.name), dict):
                merge(d[bf.name], sub, (bf.name,), "body", sources, problems)
            elif bf.name in d:
                problems.append(f"DUP field {bf.name} arrives in the path and in the body")
            else:
                d[bf.name] = sub
                sources[(bf.name,)] = "body"
    elif body_obj:
        problems.append(f"body {body_obj!r} was sent although binding {binding['verb']} {binding['uri']} declares none")
    for path, f, mkey, val in query_to_fields(desc, query, numeric, problems):
        top = (path[0],)
        if binding["body"] == "*" or (binding["body"] and binding["body"] == path[0]):
            problems.append(f"DUP field {'.'.join(path)} arrives in the query although the body carries it")
            continue
        if mkey is not None:
            cur = d
            for p in path[:-1]:
                cur = cur.setdefault(p, {})
            cur.setdefault(path[-1], {})[mkey] = val
        else:
            put(d, list(path), val, "query", sources, problems, repeated=f.label == FD.LABEL_REPEATED)
    msg = desc_cls()
    try:
        json_format.ParseDict(d, msg)
    except Exception as e:  # noqa
        problems.append(f"PARSE re-assembled request does not parse under the input descriptor: {type(e).__name__}: {str(e)[:200]}")
        return None, problems
    return msg, problems


def relax(msg, ms):
    """A copy modulo what the statement itself allows: required scalars may be sent default-valued (presence of a
    default-valued proto3-optional required scalar is not significant), empty sub-messages cannot travel."""
    m = type(msg)()
    m.CopyFrom(msg)
    for f in ms["fields"]:
        fd = m.DESCRIPTOR.fields_by_name[f["name"]]
        if f["required"] and f["optional"] and fd.type not in (FD.TYPE_MESSAGE,) and m.HasField(fd.name) and getattr(m, fd.name) == fd.default_value:
            m.ClearField(fd.name)
    return normalize(m)


def scalar_kind(f):
    return f["type"] not in (10, 11, 14)


def check_sent(ms, desc_cls, request, numeric, verb, raw_path, query, body_text, reserved):
    """All clauses about one request that reached the server.  -> [(what, signature)]"""
    out = []
    binds = bindings_of(ms)
    body_obj = None
    if body_text:
        try:
            body_obj = json.loads(body_text)
        except Exception as e:  # noqa
            return [(f"body is not JSON: {body_text[:80]!r}", None)]
    cands = [(i, b, match_path(b["tmpl"], raw_path)) for i, b in enumerate(binds) if b["verb"] == verb.lower()]
    cands = [(i, b, v) for i, b, v in cands if v is not None]
    path_vals = [get_path(request, n) for b in binds for n in b["tmpl"]["vars"]]
    hostile = any(isinstance(v, str) and (set(v) & HOSTILE) for v in path_vals)
    if not cands:
        return [(f"{verb} {raw_path} does not instantiate any declared binding of {ms['name']} "
                 f"({[b['verb'] + ' ' + b['uri'] for b in binds]})", "http.path_value_not_percent_encoded" if hostile else None)]
    # numeric enum marker
    alts = [p for p in query if p[0] == "$alt"]
    if numeric and alts != [ALT]:
        out.append((f"numeric enums requested but the query carries {alts} instead of $alt=json;enum-encoding=int", None))
    if not numeric and alts:
        out.append((f"query carries {alts} although numeric enums are not requested", None))
    best = None
    for i, b, vars_ in cands:
        res = _check_binding(ms, desc_cls, request, numeric, i, b, vars_, list(query), body_obj, reserved, hostile)
        if best is None or len(res) < len(best):
            best = res
        if not res:
            break
    return out + best


def _check_binding(ms, desc_cls, request, numeric, index, b, vars_, query, body_obj, reserved, hostile):
    out = []
    desc = desc_cls.DESCRIPTOR
    fields = {f["name"]: f for f in ms["fields"]}
    top_vars = {n for n in b["tmpl"]["vars"] if "." not in n}
    first = bindings_of(ms)[0]
    first_bound = {n for n in first["tmpl"]["vars"] if "." not in n} | ({first["body"]} if first["body"] not in ("", "*") else set())
    if first["body"] == "*":
        first_bound = set(fields)

    def bound(name):
        return name in top_vars or b["body"] == "*" or b["body"] == name

    def qfield(k):
        f = _field(desc, k.split(".")[0])
        return f.name if f is not None else None

    # ---- known artefacts are taken out one class at a time, so that anything else still surfaces ----
    excused = set()
    # (1) default literals that cannot be the JSON of the field: bytes b''
    for k, v in list(query):
        fn = qfield(k)
        f = fields.get(fn)
        if f and f["required"] and f["type"] == 12 and not f["repeated"] and v == "b''" and getattr(request, fn) == b"" and not bound(fn):
            out.append((f"required bytes field {fn} is unset and travels as {k}={v!r} (the str() of a Python bytes literal, not base64)",
                        "http.required_default_bytes"))
            query.remove((k, v)); excused.add(fn)
    # (2) an unset required REPEATED field travels as one default element
    for k, v in list(query):
        fn = qfield(k)
        f = fields.get(fn)
        if f and f["required"] and f["repeated"] and "." not in k and len(getattr(request, fn)) == 0 and v in default_texts(desc.fields_by_name[fn]) | {"b''"} and not bound(fn):
            out.append((f"required repeated field {fn} is empty in the request but travels as one element {k}={v!r}", "http.required_default_repeated"))
            query.remove((k, v))
    # (3) defaults for fields the binding taken already carries in path or body
    for k, v in list(query):
        fn = qfield(k)
        f = fields.get(fn)
        if f and f["required"] and "." not in k and bound(fn) and v in default_texts(desc.fields_by_name[fn]) | {"b''"}:
            if index > 0:
                sig = "http.additional_binding_first_rule_only"
            else:
                sig = None
            out.append((f"required field {fn} is bound by the {'path' if fn in top_vars else 'body'} of binding #{index} "
                        f"({b['verb']} {b['uri']}) and travels AGAIN as query parameter {k}={v!r}", sig))
            query.remove((k, v))
    # (4) under an additional binding: body decided by the first rule, defaults computed from the first rule
    if index > 0:
        if b["body"] and not first["body"] and body_obj is None:
            out.append((f"binding #{index} ({b['verb']} {b['uri']}) declares body {b['body']!r} but nothing is sent as body "
                        f"(the first rule has no body): the fields are lost", "http.additional_binding_first_rule_only"))
            return out
        for fn, f in fields.items():
            if f["required"] and not f["repeated"] and scalar_kind(f) and fn in first_bound and not bound(fn):
                excused.add(("first", fn))
    msg, problems = reassemble(desc_cls, b, vars_, query, body_obj, numeric)
    sig_default = "http.path_value_not_percent_encoded" if hostile else None
    for p in problems:
        out.append((p, sig_default))
    if msg is not None:
        want, got = relax(request, ms), relax(msg, ms)
        if want != got:
            a = json_format.MessageToDict(want, preserving_proto_field_name=True)
            g = json_format.MessageToDict(got, preserving_proto_field_name=True)
            diff = {k: (a.get(k), g.get(k)) for k in sorted(set(a) | set(g)) if a.get(k) != g.get(k)}
            cross = not hostile and not spec_applies(b["tmpl"], request)
            out.append((f"path+query+body re-assemble to a different request (field: (caller, server)) {diff}",
                        "http.path_value_not_percent_encoded" if hostile else "http.path_value_crosses_segments" if cross else None))
    # required scalars not bound by path or body must be in the query even when default-valued
    present = {qfield(k) for k, _ in query}
    for fn, f in fields.items():
        if f["required"] and not f["repeated"] and scalar_kind(f) and not bound(fn) and fn not in present and fn not in excused:
            if ("first", fn) in excused:
                out.append((f"required scalar {fn} is bound by neither path nor body of binding #{index} ({b['verb']} {b['uri']}) "
                            f"and is missing from the query (it is bound by the first rule)", "http.additional_binding_first_rule_only"))
            else:
                out.append((f"required scalar {fn} (type {f['type']}) is bound by neither path nor body of binding #{index} and is missing from the query", None))
    return out


def loosely_applies(b, request):
    """All variables set and the EXPANDED path is an instance of the template as a whole although some variable does not
    match its own sub-template (what validate() on the whole uri accepts): the crosses-segments class."""
    vals = {n: get_path(request, n) for n in b["tmpl"]["vars"]}
    if not all(isinstance(v, str) and v for v in vals.values()) or spec_applies(b["tmpl"], request):
        return False
    segs = []
    for kind, text, var in b["tmpl"]["segs"]:
        if var is None:
            segs.append(text)
        elif not segs or segs[-1] != ("VAR", var):
            segs.append(("VAR", var))
    path = "/" + "/".join(urllib.parse.quote(vals[x[1]], safe="/") if isinstance(x, tuple) else x for x in segs)
    if b["tmpl"]["verb"] is not None:
        path += ":" + b["tmpl"]["verb"]
    return match_path(b["tmpl"], path) is not None


def check_error(ms, request, exc, message, reserved):
    """The client raised instead of sending.  -> [(what, signature)]"""
    out = _check_error(ms, request, exc, message, reserved)
    if out and all(sig is None for _, sig in out) and exc != "NotImplementedError":
        binds = bindings_of(ms)
        first = next((i for i, b in enumerate(binds) if spec_applies(b["tmpl"], request)), len(binds))
        loose = [i for i, b in enumerate(binds) if i < first and loosely_applies(b, request)]
        if loose:
            b = binds[loose[0]]
            return [(f"{what} [binding #{loose[0]} ({b['verb']} {b['uri']}) is taken although a path variable does not match its own "
                     f"sub-template: the whole expanded uri is validated]", "http.path_value_crosses_segments") for what, _ in out]
    return out


def _check_error(ms, request, exc, message, reserved):
    binds = bindings_of(ms)
    if exc == "NotImplementedError":
        if binds and not ms["client_streaming"]:
            return [(f"method {ms['name']} has {len(binds)} binding(s) but the REST transport raises NotImplementedError", None)]
        return []
    if not binds or ms["client_streaming"]:
        return [(f"method {ms['name']} has no usable binding; expected NotImplementedError, got {exc}: {message[:120]}", None)]
    first = next((i for i, b in enumerate(binds) if spec_applies(b["tmpl"], request)), None)
    if exc == "ValueError" and message.startswith("Invalid request."):
        if first is not None:
            return [(f"the request matches binding #{first} ({binds[first]['verb']} {binds[first]['uri']}) but the client refused it", None)]
        return []
    if exc == "ValueError" and "query params may not contain repeated dicts or lists" in message:
        if first is None:
            return []          # no binding applies: nothing may be sent, and nothing was
        b = binds[first]
        from .c04_api import leaves_of
        for l in leaves_of(request):
            if l["rep"] and b["body"] != "*" and b["body"] != l["path"][0][1]:
                return []   # a repeated message field cannot be a query parameter (google.api.http): refusing is right
        return [(f"client refused with {message[:100]!r} although no repeated message field falls into the query", None)]
    if first is not None and first > 0 and exc == "KeyError" and "body" in message:
        return [(f"request matches additional binding #{first} ({binds[first]['verb']} {binds[first]['uri']}, body {binds[first]['body']!r}); "
                 f"the transport reads transcoded_request['body'] because the FIRST rule has a body: KeyError", "http.additional_binding_first_rule_only")]
    return [(f"client raised {exc}: {message[:160]}", None)]
