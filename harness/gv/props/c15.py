"""C15 — gapic_metadata.json and the fix-up script describe the generated surface exactly."""
import ast, json, os, re
from .. import env, coq, gen, apigen
from ..apigen import File
from . import c11_util as U

RULE = ("APIs drawn from a grammar: package out of 8 shapes (0..3 namespace segments, v1/v1beta1/v1p1beta1/no version), 1-2 target "
        "files, 1-3 services with 1-6 RPCs (plus services that declare no RPC, alone or next to ordinary ones, and services declared in a proto sub-package next to root-package services; rpcs are unary, client-streaming, bidi or server-streaming) whose names come from a pool with Python keywords in every letter case, leading "
        "underscores, digits/acronyms and names shared between services; request messages with 0-6 fields (reserved words, random "
        "REQUIRED flags, also on proto3-optional fields and members of a real oneof declared after plain fields) or non-proto-plus requests (google.iam/longrunning/protobuf); transports grpc, rest, grpc+rest; "
        "optionally a service YAML marking some RPCs internal (selective generation, generate_omitted_as_internal). "
        "A case is one (request, option string, yaml); distinct = distinct canonical hash of the serialized request+options; "
        "non-trivial = at least one service. T2 cases only build gapic's schema, e2e cases run the generator, "
        "parse gapic_metadata.json / METHOD_TO_PARAMS with json/ast and import the emitted package in a child process.")
TRUSTED = [
    "Model/Metadata.v (gapic_metadata, client/method naming, legacy_flattened_fields, jinja2 sort/unique of the fix-up template) and "
    "Model/Case.v (to_snake_case, to_valid_module_name): hand-written, tied by T0 (kwlist, RESERVED_NAMES, regex literals), "
    "T1 (emitted JSON, METHOD_TO_PARAMS, emitted class/def names) and T2 (gapic schema objects)",
    "contract: jinja2's sort/unique filters compare str.lower() keys, stable / first-wins (validated by T1 on every run)",
    "harness/gv/props/c15.py describe(): reads services, RPCs, request fields, REQUIRED flags from the input descriptors; "
    "impl/c15meta.py, impl/c15import.py; ast/json readers of emitted files; apigen + DescriptorPool as validity judge",
]
ASSUMES = ["service names distinct in the target package and RPC names distinct per service (protoc guarantees both per scope; "
           "two services with the same short name in different proto sub-packages are outside the model)",
           "RPC names distinct after snake-casing (DESIGN section 9 no. 11) for the import oracle"]

PACKAGES = ["google.example.library.v1", "google.cloud.widgets.v1beta1", "acme.storage.v2", "google.cloud.data.fleet.v1p1beta1",
            "simple.v1", "google.ads.things.v3", "solo", "acme.tools"]
RPC_POOL = ["GetBook", "ListBooks", "CreateBook", "DeleteBook", "Import", "Class", "Return", "None", "Async", "Await", "Lambda",
            "Print", "Match", "Global", "Yield", "Is", "In", "Del", "Pass", "Raise", "With", "Not", "_Hidden", "_Import",
            "GetIAMPolicy2", "Get2FACode", "ListV2Items", "HTTPPing", "RunX", "Do", "Delete_Book", "getLower", "Check2A",
            "SyncABCs", "Export", "True", "Try", "Finally", "Type", "Exec", "CreateChannel", "OperationsClient", "GrpcChannel",
            "CreateChannel", "OperationsClient", "GrpcChannel", "Getbook"]
# names that collide with members of the generated transports: the transport disambiguates them (create_channel_),
# the client method and gapic_metadata.json do not
TRANSPORT_UNSAFE = ["CreateChannel", "OperationsClient", "GrpcChannel"]
FIELD_POOL = ["name", "parent", "class", "from", "type", "format", "any", "self", "cls", "filter", "page_size", "book",
              "update_mask", "import", "in", "id", "labels", "license", "max", "next", "request_id", "etag", "hash", "all"]
NON_PP = [(".google.iam.v1.SetIamPolicyRequest", "google/iam/v1/iam_policy.proto"),
          (".google.longrunning.GetOperationRequest", "google/longrunning/operations.proto"),
          (".google.protobuf.Empty", "google/protobuf/empty.proto"),
          (".google.iam.v1.TestIamPermissionsRequest", "google/iam/v1/iam_policy.proto")]
IAM_REQ = {"SetIamPolicy": ".google.iam.v1.SetIamPolicyRequest", "GetIamPolicy": ".google.iam.v1.GetIamPolicyRequest",
           "TestIamPermissions": ".google.iam.v1.TestIamPermissionsRequest"}
IAM_KEYS = {"get_iam_policy", "set_iam_policy", "test_iam_permissions"}
KINDS = {"grpc": ["grpc", "grpc-async"], "rest": ["rest"]}


# ------------------------------------------------------------------ generation of cases
def meta_api(r, defect_case=False):
    pkg = r.choice(PACKAGES)
    if defect_case in ("subpkg", "deepsub"):
        pkg = r.choice([p for p in PACKAGES if re.fullmatch(r"v[0-9]+.*", p.split(".")[-1]) and "." in p])
    d = "/".join(pkg.split("."))
    nfiles = 1 if r.random() < 0.6 else 2
    files = [File(f"{d}/{n}.proto", pkg, deps=list(apigen.STD_DEPS)) for n in ["library", "extra"][:nfiles]]
    resp = files[0].message("Reply")
    resp.field("note", 1, "string")
    if nfiles == 2:
        files[1].dep(files[0].proto.name)
    nsvc = r.randint(1, 3)
    svc_names = r.sample(["Library", "Catalog", "Admin", "FleetOps", "IAMWatcher"], nsvc)
    msg_i = 0
    all_rpcs = []
    if defect_case == "empty":
        svc_names = ["Placeholder"] if r.random() < 0.5 else ["Placeholder"] + svc_names[:2]
    elif r.random() < 0.25:
        svc_names = svc_names + [r.choice(["Placeholder", "Reserved"])]
    for si, sname in enumerate(svc_names):
        f = files[si % nfiles]
        svc = f.service(sname, host="meta.example.com", scopes="https://www.googleapis.com/auth/cloud-platform")
        if sname in ("Placeholder", "Reserved"):
            continue        # a service that declares no rpc: legal, the generator emits its clients
        names = list(dict.fromkeys(r.sample(RPC_POOL, r.randint(1, 6))))
        if defect_case == "unsafe" and si == 0:
            names = list(dict.fromkeys(TRANSPORT_UNSAFE + names))[:5]
        elif defect_case == "iam" and si == 0 and r.random() < 0.7:
            # the API declares IAM rpcs itself (supported next to the IAMPolicy mixin: the client's methods are these rpcs)
            names = r.sample(["SetIamPolicy", "GetIamPolicy", "TestIamPermissions"], r.randint(1, 3)) + [n for n in names if "Iam" not in n][:2]
        elif defect_case in (True, "ads-ci") and si == 0:
            names = ["GetBook", "Getbook"] + [n for n in names if n.lower() != "getbook"][:2]
        for ri, rn in enumerate(names):
            forced = defect_case == "streaming" and ri < 3      # streaming stream: requests with fields (REQUIRED, reserved words)
            presence = defect_case == "presence" and ri < 3     # REQUIRED proto3-optional / real-oneof members after a plain field
            if rn in IAM_REQ and r.random() < 0.5:
                typ, dep = IAM_REQ[rn], "google/iam/v1/iam_policy.proto"
                f.dep(dep)
                inp = typ
            elif r.random() < 0.12 and not forced and not presence:
                typ, dep = r.choice(NON_PP)
                f.dep(dep)
                inp = typ
            else:
                msg_i += 1
                m = f.message(f"Req{msg_i}")
                fns = r.sample(FIELD_POOL, r.randint(2 if forced else 0, 6))
                if forced and not any(x in ("class", "from", "type", "import", "in") for x in fns):
                    fns[0] = r.choice(["class", "from", "type"])
                if presence:
                    fns = (fns + [x for x in FIELD_POOL if x not in fns])[:max(4, len(fns))]
                # declaration order is deliberately NOT field-number order (descending or shuffled numbers)
                nums = list(range(1, len(fns) + 1))
                if r.random() < 0.75:
                    nums = nums[::-1] if r.random() < 0.4 else r.sample(nums, len(nums))
                for k, fn in enumerate(fns):
                    req_ = (r.random() < 0.4) or (forced and k == len(fns) - 1)
                    shape = r.random()
                    if presence:
                        req_, shape = (False, 1.0) if k == 0 else ((True, 0.05) if k == 1 else ((True, 0.2) if k == 2 else (req_, shape)))
                    if shape < 0.12:
                        m.field(fn, nums[k], r.choice(["string", "int32", "bool"]), required=req_, optional=True)
                    elif shape < 0.24:
                        m.field(fn, nums[k], r.choice(["string", "int32", "bool"]), required=req_, oneof="target")
                    else:
                        m.field(fn, nums[k], r.choice(["string", "int32", "bool", "bytes"]), required=req_, repeated=r.random() < 0.15)
                inp = m.fqn
            # client-streaming / bidi / server-streaming rpcs: the fix-up table lists the request fields of EVERY rpc
            sk = None
            if (defect_case == "streaming" and ri < 3) or r.random() < 0.15:
                sk = r.choice(["client", "bidi", "client", "bidi", "server"])
            cs, ss = {"client": (True, False), "bidi": (True, True), "server": (False, True), None: (False, False)}[sk]
            svc.rpc(rn, inp, resp.fqn, cs=cs, ss=ss, http=("post", f"/v1/{sname.lower()}/r{ri}:call"), body="*")
            all_rpcs.append(f"{pkg}.{sname}.{rn}")
    versioned = bool(re.fullmatch(r"v[0-9]+(p[0-9]+)?((alpha|beta)[0-9]*)?", pkg.split(".")[-1])) and "." in pkg
    if versioned and (defect_case in ("subpkg", "deepsub") or (not defect_case and r.random() < 0.15)):
        # a service declared in a proto sub-package of the target package, next to the root-package services, with rpc
        # names no root service has: its client is generated, gapic_metadata.json lists it, the fix-up table must too
        # one level below the package, or two levels below with NO proto file at the intermediate level
        sp = r.choice(["admin", "ops", "internal.admin", "internal.admin"]) if defect_case != "deepsub" else "internal.admin"
        g = File(f"{d}/{sp.replace('.', '/')}/{sp.split('.')[-1]}.proto", f"{pkg}.{sp}", deps=list(apigen.STD_DEPS) + [files[0].proto.name])
        gs = g.service(r.choice(["AdminOps", "KeyRotation"]), host="meta.example.com", scopes="https://www.googleapis.com/auth/cloud-platform")
        used = {x.rsplit(".", 1)[1] for x in all_rpcs}
        own = [n for n in ["RotateKeys", "PurgeAll", "Import", "ListV2Items", "SealVault"] if n not in used][:r.randint(1, 3)]
        for ri, rn in enumerate(own):
            msg_i += 1
            m = g.message(f"SubReq{msg_i}")
            fns = r.sample(FIELD_POOL, r.randint(1, 5))
            nums = r.sample(range(1, len(fns) + 1), len(fns))
            for k, fn in enumerate(fns):
                m.field(fn, nums[k], r.choice(["string", "int32", "bool"]), required=r.random() < 0.4)
            gs.rpc(rn, m.fqn, resp.fqn, http=("post", f"/v1/{sp.replace('.', '/')}/r{ri}:call"), body="*")
            all_rpcs.append(f"{pkg}.{sp}.{gs.proto.name}.{rn}")
        files.append(g)
    transport = r.choice(["grpc", "rest", "grpc+rest", "grpc+rest"])
    params = ["metadata", f"transport={transport}"]
    if defect_case == "ads-ci" or (defect_case in (False, True, "streaming", "presence", "unsafe") and r.random() < 0.12):
        # the ads tree has its own copy of the fix-up template: every table of the script is checked for both trees
        params += ["old-naming", "python-gapic-templates=ads-templates"]
    yaml = None
    # internal methods (selective generation), also together with a sub-package service (the allow-list is validated against
    # the whole API since /repo 6534fd1; witness kept in corpus/C15/C15-internal-methods-with-subpackage-service.json)
    if r.random() < 0.3 and len(all_rpcs) > 1:
        public = r.sample(all_rpcs, r.randint(1, len(all_rpcs) - 1))
        yaml = {"type": "google.api.Service", "config_version": 3, "name": "meta.example.com",
                "publishing": {"library_settings": [{"version": pkg, "python_settings": {"common": {"selective_gapic_generation": {
                    "methods": sorted(public), "generate_omitted_as_internal": True}}}}]}}
    if defect_case == "iam" or (defect_case is False and yaml is None and r.random() < 0.08):
        # the IAMPolicy mixin listed in the service yaml (api.has_iam_mixin), WITHOUT the add-iam-methods option
        yaml = {"type": "google.api.Service", "config_version": 3, "name": "meta.example.com",
                "apis": [{"name": f"{pkg}.{svc_names[0]}"}, {"name": "google.iam.v1.IAMPolicy"}]}
    elif defect_case == "iam-option" or (defect_case is False and yaml is None and r.random() < 0.05):
        params.append("add-iam-methods")
    req = apigen.request(files)
    return req, params, yaml


def make_case(tag, i, defect_case=False):
    r = env.rng(tag, i)
    try:
        req, params, yaml = meta_api(r, defect_case)
    except apigen.Invalid:
        return None
    return {"request_b64": apigen.req_b64(req), "params": params, "yaml": yaml, "tag": f"{tag}#{i}"}


def realise(case):
    """CodeGeneratorRequest with the option string (yaml written to scratch) for one case."""
    req = apigen.req_from_b64(case["request_b64"])
    d = gen.case_dir("c15_" + env.canon_hash(case)[:12])
    return gen.with_params(req, case["params"], d, service_yaml=case.get("yaml"))


# ------------------------------------------------------------------ reference view of the input (independent of /repo)
def describe(case):
    from google.api import field_behavior_pb2
    req = apigen.req_from_b64(case["request_b64"])
    pkgs = [p.package for p in req.proto_file if p.name in req.file_to_generate]
    package = ".".join(os.path.commonprefix([p.split(".") for p in pkgs]))
    msgs = {}

    def walk(prefix, m, fpkg):
        fq = prefix + "." + m.name
        msgs[fq] = (m, fpkg)
        for n in m.nested_type:
            walk(fq, n, fpkg)

    for fp in req.proto_file:
        for m in fp.message_type:
            walk("." + fp.package if fp.package else "", m, fp.package)
    transport = "grpc"
    for p in case["params"]:
        if p.startswith("transport="):
            transport = p[len("transport="):]
            break
    transports = transport.split("+")
    public = None
    y = case.get("yaml")
    if y:
        for ls in y.get("publishing", {}).get("library_settings", []):
            sg = ls.get("python_settings", {}).get("common", {}).get("selective_gapic_generation", {})
            if ls.get("version") == package and sg.get("methods") and sg.get("generate_omitted_as_internal"):
                public = set(sg["methods"])
    targets = [fp for fp in req.proto_file if fp.package == package or fp.package.startswith(package + ".")]
    svcs = []
    for fp in reversed(targets):          # collections.ChainMap iterates its maps last to first
        for s in fp.service:
            rpcs = []
            for m in s.method:
                md, fpkg = msgs[m.input_type]
                pp = fpkg == package or fpkg.startswith(package + ".")
                fields = [[f.name, field_behavior_pb2.REQUIRED in f.options.Extensions[field_behavior_pb2.field_behavior]]
                          for f in md.field]
                internal = public is not None and f"{fp.package}.{s.name}.{m.name}" not in public
                rpcs.append({"name": m.name, "internal": internal, "pp": pp, "fields": fields})
            svcs.append({"name": s.name, "rpcs": rpcs, "sub": [x for x in fp.package[len(package):].split(".") if x]})
    segs = package.split(".")
    version = segs[-1] if re.fullmatch(r"v[0-9]+(p[0-9]+)?((alpha|beta)[0-9]*)?", segs[-1]) and len(segs) > 1 else ""
    rest = segs[:-1] if version else segs
    return {"package": package, "svcs": svcs, "transports": transports,
            "namespace": [x.capitalize() for x in rest[:-1]], "name": rest[-1].capitalize(), "version": version,
            "add_iam": "add-iam-methods" in case["params"]}


def extra_features(case, d):
    """features the quantifier names explicitly: declaration order != field-number order, transport-unsafe rpc names"""
    req = apigen.req_from_b64(case["request_b64"])
    out = []
    unordered = False
    for fp in req.proto_file:
        if fp.name in req.file_to_generate:
            for m in fp.message_type:
                nums = [f.number for f in m.field]
                if nums != sorted(nums):
                    unordered = True
    if unordered:
        out.append("request fields not in field-number order")
    names = {x["name"] for s in d["svcs"] for x in s["rpcs"]}
    if any(not s["rpcs"] for s in d["svcs"]):
        out.append("service without rpcs")
    if any(s["sub"] for s in d["svcs"]):
        out.append("service in a proto sub-package")
    if any(len(s["sub"]) > 1 for s in d["svcs"]):
        out.append("service two levels below the package, empty intermediate level")
    if any(a.get("name") == "google.iam.v1.IAMPolicy" for a in (case.get("yaml") or {}).get("apis", [])):
        out.append("IAMPolicy mixin in the service yaml" + (" + own IAM rpcs" if {x["name"] for s in d["svcs"] for x in s["rpcs"]} & set(IAM_REQ) else ""))
    if d["add_iam"]:
        out.append("add-iam-methods option")
    from google.api import field_behavior_pb2 as _fb
    for fp in req.proto_file:
        if fp.name in req.file_to_generate:
            for m in fp.message_type:
                for f in m.field:
                    if f.HasField("oneof_index") and _fb.REQUIRED in f.options.Extensions[_fb.field_behavior]:
                        tag = "REQUIRED proto3-optional field" if f.proto3_optional else "REQUIRED oneof member"
                        if tag not in out:
                            out.append(tag)
    for fp in req.proto_file:
        if fp.name in req.file_to_generate:
            for sv in fp.service:
                for m in sv.method:
                    if m.client_streaming and "client-streaming / bidi rpc" not in out:
                        out.append("client-streaming / bidi rpc")
    if names & set(TRANSPORT_UNSAFE):
        out.append("transport-unsafe rpc name")
    if len({n.lower() for n in names}) < len(names):
        out.append("rpc names differing only by case")
    return out


def svcs_term(d):
    def rpc(x):
        fs = coq.lst(f"mkF {coq.s(n)} {coq.b(q)}" for n, q in x["fields"])
        return f"mkR {coq.s(x['name'])} {coq.b(x['internal'])} {coq.b(x['pp'])} {fs}"
    return coq.lst(f"mkS {coq.s(s['name'])} {coq.lst(rpc(x) for x in s['rpcs'])}" for s in d["svcs"])


def flatten_metadata(md):
    """JSON/dict form of GapicMetadata -> sorted [(service, kind, client, rpc, method)], sorted service names,
    sorted [(service, kind, client)] (fail-closed)."""
    ents, clis = [], []
    services = md.get("services", {})
    if not isinstance(services, dict):
        raise ValueError("services is not an object")
    for sn in sorted(services):
        clients = services[sn].get("clients", {})
        for kind in sorted(clients):
            c = clients[kind]
            clis.append((sn, kind, c.get("libraryClient", "")))
            for rn in sorted(c.get("rpcs", {})):
                for meth in c["rpcs"][rn].get("methods", []):
                    ents.append((sn, kind, c.get("libraryClient", ""), rn, meth))
    return ents, sorted(services), clis


def clients_term(clis):
    return coq.lst(f"({coq.s(a)}, {coq.s(b)}, {coq.s(c)})" for a, b, c in clis)


def entries_term(ents):
    return coq.lst("mkE " + " ".join(coq.s(x) for x in e) for e in ents)


IMPORTS = "From GV Require Import Model.Case Model.Metadata."


# ------------------------------------------------------------------ independent snake-casing for the oracle (no regex, no /repo)
def osnake(s):
    def one(s, cond):
        out = []
        for i, c in enumerate(s):
            if cond(s, i):
                out.append("_")
            out.append(c)
        return "".join(out)
    lo = lambda c: "a" <= c <= "z"
    up = lambda c: "A" <= c <= "Z"
    dg = lambda c: "0" <= c <= "9"
    s = one(s, lambda s, i: i > 0 and lo(s[i - 1]) and up(s[i]))
    s = one(s, lambda s, i: i > 0 and s[i - 1] != "_" and up(s[i]) and i + 1 < len(s) and lo(s[i + 1]))
    s = one(s, lambda s, i: i > 0 and lo(s[i - 1]) and dg(s[i]) and i + 2 < len(s) and up(s[i + 1]) and up(s[i + 2]))
    s = one(s, lambda s, i: i > 0 and lo(s[i - 1]) and dg(s[i]) and i + 1 < len(s) and up(s[i + 1])
            and (i + 2 == len(s) or s[i + 2:] == "\n"))
    return s.lower()


# ------------------------------------------------------------------ T2 on gapic's schema objects
def run_t2(ctx, cases):
    reqs = [apigen.req_b64(realise(c)) for c in cases]
    out = gen.impl("c15meta", {"requests": reqs})["apis"]
    checks = []
    for c, o in zip(cases, out):
        d = describe(c)
        nr = sum(len(s["rpcs"]) for s in d["svcs"])
        feats = [f"transport={'+'.join(d['transports'])}", f"services={len(d['svcs'])}"]
        if any(x["internal"] for s in d["svcs"] for x in s["rpcs"]):
            feats.append("internal-methods")
        if any(not x["pp"] for s in d["svcs"] for x in s["rpcs"]):
            feats.append("non-proto-plus-request")
        feats += extra_features(c, d)
        ctx.case({"t2": c["tag"], "request": env.canon_hash(c)}, nontrivial=bool(d["svcs"]), feature=feats)
        if "error" in o:
            ctx.oblige(f"T2 {c['tag']}: gapic builds the schema", False, o["detail"][-500:])
            continue
        S, T = svcs_term(d), coq.slist(d["transports"])
        try:
            ents, snames, clis = flatten_metadata(o["metadata"])
        except Exception as e:  # noqa
            ctx.oblige(f"T2 {c['tag']}: shape of gapic_metadata", False, repr(e))
            continue
        lab = c["tag"]
        checks.append((f"{lab}: metadata entries", f"list_eqb entry_eqb (metadata_entries {T} {S}) {entries_term(ents)}"))
        checks.append((f"{lab}: metadata services", f"list_eqb String.eqb (metadata_services {S}) {coq.slist(snames)}"))
        checks.append((f"{lab}: metadata client entries (service x kind -> client)", f"list_eqb client_eqb (metadata_clients {T} {S}) {clients_term(clis)}"))
        checks.append((f"{lab}: library package",
                       f"String.eqb (library_package {coq.b(any(p.strip() == 'old-naming' for p in c['params']))} "
                       f"{coq.slist(d['namespace'])} {coq.s(d['name'])} {coq.s(d['version'])}) "
                       f"{coq.s(o['metadata'].get('libraryPackage', ''))}"))
        impl_svcs = {s["name"]: s for s in o["services"]}
        checks.append((f"{lab}: service order of api.services", f"list_eqb String.eqb (map s_name {S}) {coq.slist([s['name'] for s in o['services']])}"))
        for s in d["svcs"]:
            i_s = impl_svcs.get(s["name"])
            if i_s is None:
                ctx.oblige(f"T2 {lab}: service {s['name']} present in gapic's schema", False, str(list(impl_svcs)))
                continue
            st = f"mkS {coq.s(s['name'])} " + coq.lst(
                f"mkR {coq.s(x['name'])} {coq.b(x['internal'])} {coq.b(x['pp'])} []" for x in s["rpcs"])
            checks.append((f"{lab}: {s['name']} client_name", f"String.eqb (client_name ({st})) {coq.s(i_s['client_name'])}"))
            checks.append((f"{lab}: {s['name']} async_client_name", f"String.eqb (async_client_name ({st})) {coq.s(i_s['async_client_name'])}"))
            im = {m["name"]: m for m in i_s["methods"]}
            for x in s["rpcs"]:
                m = im.get(x["name"])
                if m is None:
                    ctx.oblige(f"T2 {lab}: rpc {x['name']} present", False, str(list(im)))
                    continue
                fs = coq.lst(f"mkF {coq.s(n)} {coq.b(q)}" for n, q in x["fields"])
                rt = f"(mkR {coq.s(x['name'])} {coq.b(x['internal'])} {coq.b(x['pp'])} {fs})"
                checks.append((f"{lab}: {s['name']}.{x['name']} client_method_name", f"String.eqb (client_method_name {rt}) {coq.s(m['client_method_name'])}"))
                checks.append((f"{lab}: {s['name']}.{x['name']} py_method", f"String.eqb (py_method {rt}) {coq.s(m['py_method'])}"))
                checks.append((f"{lab}: {s['name']}.{x['name']} legacy_flattened_fields", f"list_eqb String.eqb (params_of {rt}) {coq.slist(m['legacy'])}"))
                checks.append((f"{lab}: {s['name']}.{x['name']} fix-up key", f"String.eqb (snake {coq.s(x['name'])}) {coq.s(m['key'])}"))
    return checks


def run_strings(ctx, n):
    """T2 of to_snake_case / to_valid_module_name on generated identifiers and noise."""
    alphabet = "abcXYZ019_-. $/A"
    strs = list(RPC_POOL) + ["", "A", "a", "_", "HTTPServer2Go", "v2B", "a2BC", "a2B\n", "a2B\n\n", "x9Z", "Get_Book", "__X", "aB_Cd", "a\nB"]
    for i in range(n):
        r = env.rng("C15-str", i)
        strs.append("".join(r.choice(alphabet) for _ in range(r.randint(0, 9))))
    out = gen.impl("c15meta", {"requests": [], "strings": strs})
    checks = []
    for s, a, b, c in zip(strs, out["snake"], out["valid_module"], out["valid_filename"]):
        ctx.case({"string": s}, nontrivial=bool(s), feature="name-function string")
        checks.append((f"snake {s!r}", f"String.eqb (snake {coq.s(s)}) {coq.s(a)}"))
        checks.append((f"valid_module {s!r}", f"String.eqb (valid_module {coq.s(s)}) {coq.s(b)}"))
        checks.append((f"valid_filename {s!r}", f"String.eqb (valid_filename {coq.s(s)}) {coq.s(c)}"))
        if osnake(s) != a:
            ctx.oblige(f"oracle's own snake-casing agrees with to_snake_case on {s!r}", False, f"{osnake(s)!r} vs {a!r}")
    return checks


# ------------------------------------------------------------------ extraction from emitted files (T1)
def read_method_to_params(src):
    """[(key, [params])] of the METHOD_TO_PARAMS dict literal of the emitted fix-up script, duplicates kept (fail-closed)."""
    tree = ast.parse(src)
    for cls in [n for n in tree.body if isinstance(n, ast.ClassDef)]:
        for st in cls.body:
            tgt = st.target if isinstance(st, ast.AnnAssign) else (st.targets[0] if isinstance(st, ast.Assign) else None)
            if isinstance(tgt, ast.Name) and tgt.id == "METHOD_TO_PARAMS":
                if not isinstance(st.value, ast.Dict):
                    raise ValueError("METHOD_TO_PARAMS is not a dict literal")
                out = []
                for k, v in zip(st.value.keys, st.value.values):
                    if not (isinstance(k, ast.Constant) and isinstance(k.value, str) and isinstance(v, ast.Tuple)
                            and all(isinstance(e, ast.Constant) and isinstance(e.value, str) for e in v.elts)):
                        raise ValueError(f"unexpected entry {ast.unparse(k)}")
                    out.append((k.value, [e.value for e in v.elts]))
                return out
    raise ValueError("METHOD_TO_PARAMS not found")


def class_defs(src):
    """{class name: [names of functions defined directly in it]} read with ast."""
    tree = ast.parse(src)
    return {c.name: [f.name for f in c.body if isinstance(f, (ast.FunctionDef, ast.AsyncFunctionDef))]
            for c in tree.body if isinstance(c, ast.ClassDef)}


def run_e2e(ctx, cases, label="e2e"):
    jobs = [(c, realise(c)) for c in cases]
    results = gen.pmap(lambda j: gen.run_generator(j[1]), jobs)
    checks, imports = [], []
    for (c, req), (res, err) in zip(jobs, results):
        d = describe(c)
        lab = c["tag"]
        case = {"request_b64": c["request_b64"], "params": c["params"], "yaml": c.get("yaml"), "tag": lab}
        rpc_names = [x["name"] for s in d["svcs"] for x in s["rpcs"]]
        ci_clash = len({n.lower() for n in rpc_names}) < len(set(rpc_names))
        feats = [f"e2e transport={'+'.join(d['transports'])}"] + (["e2e internal"] if c.get("yaml") else []) + (["e2e letter-case clash"] if ci_clash else [])
        feats += ["e2e " + x for x in extra_features(c, d)]
        feats += ["e2e ads-templates"] if any(p.strip() == "python-gapic-templates=ads-templates" for p in c["params"]) else []
        ctx.case({"e2e": env.canon_hash(case)}, nontrivial=bool(d["svcs"]), feature=feats)
        if res is None:
            ctx.violation(f"generation failed ({gen.error_kind(err)}): no gapic_metadata.json / fix-up script at all", case)
            continue
        files = gen.files_of(res)
        ads = any(p.strip() == "python-gapic-templates=ads-templates" for p in c["params"])
        mfiles = [n for n in files if n.endswith("/gapic_metadata.json") or n == "gapic_metadata.json"]
        ffiles = [n for n in files if re.fullmatch(r"scripts/fixup_[^/]*_keywords\.py", n)]
        # (the ads tree ships gapic_metadata.json.j2 commented out: only the fix-up script and the clients are checked there)
        if len(ffiles) != 1 or (len(mfiles) != 1 and not ads) or (ads and mfiles):
            ctx.violation(f"expected {'no' if ads else 'one'} gapic_metadata.json and one fix-up script, found {mfiles} {ffiles}", case)
            continue
        S, T = svcs_term(d), coq.slist(d["transports"])
        # ---- T1: artefacts vs model ----
        try:
            md = json.loads(files[mfiles[0]]) if not ads else {}
            ents, snames, clis = flatten_metadata(md)
            m2p = read_method_to_params(files[ffiles[0]])
        except Exception as e:  # noqa
            ctx.oblige(f"T1 {lab}: extraction of gapic_metadata.json / METHOD_TO_PARAMS", False, repr(e), "T1")
            continue
        if not ads:
            checks.append((f"{lab}: emitted gapic_metadata.json entries", f"list_eqb entry_eqb (metadata_entries {T} {S}) {entries_term(ents)}"))
            checks.append((f"{lab}: emitted gapic_metadata.json services", f"list_eqb String.eqb (metadata_services {S}) {coq.slist(snames)}"))
            checks.append((f"{lab}: emitted gapic_metadata.json client entries (service x kind -> client)",
                           f"list_eqb client_eqb (metadata_clients {T} {S}) {clients_term(clis)}"))
            checks.append((f"{lab}: emitted libraryPackage",
                           f"String.eqb (library_package false {coq.slist(d['namespace'])} {coq.s(d['name'])} {coq.s(d['version'])}) {coq.s(md.get('libraryPackage', ''))}"))
        checks.append((f"{lab}: emitted METHOD_TO_PARAMS",
                       f"params_eqb (method_to_params {coq.b(d['add_iam'])} {S}) {coq.lst(f'({coq.s(k)}, {coq.slist(v)})' for k, v in m2p)}"))
        if ads:     # ads layout: <namespace>/<name>/<version>/
            root = "/".join([x.lower() for x in d["namespace"]] + [d["name"].lower()] + ([d["version"]] if d["version"] else [])) + "/"
        else:
            root = mfiles[0][: -len("gapic_metadata.json")]
        for s in d["svcs"]:
            st = f"(mkS {coq.s(s['name'])} " + coq.lst(f"mkR {coq.s(x['name'])} {coq.b(x['internal'])} {coq.b(x['pp'])} []" for x in s["rpcs"]) + ")"
            for modname, fn, need in (("client.py", "client_name", True), ("async_client.py", "async_client_name", "grpc" in d["transports"] and not ads)):
                path = f"{root}{''.join(x + '/' for x in s['sub'])}services/{osnake(s['name'])}/{modname}"
                if path not in files:
                    if need:
                        ctx.oblige(f"T1 {lab}: {path} emitted", False, "", "T1")
                    continue
                try:
                    defs = class_defs(files[path])
                except SyntaxError as e:
                    ctx.oblige(f"T1 {lab}: {path} parses", False, repr(e), "T1")
                    continue
                checks.append((f"{lab}: class {fn} of {s['name']} defined in {modname}", f"mem_str ({fn} {st}) {coq.slist(sorted(defs))}"))
                alldefs = sorted({f for v in defs.values() for f in v})
                checks.append((f"{lab}: methods of {s['name']} defined in {modname}",
                               f"forallb (fun r => mem_str (py_method r) {coq.slist(alldefs)}) (s_rpcs {st})"))
        # ---- direct oracle (1): the JSON against the input descriptors ----
        want_kinds = sorted(k for t in d["transports"] for k in KINDS.get(t, [])) if not ads else []
        services = md.get("services", {})
        if not ads and md.get("protoPackage") != d["package"]:
            ctx.violation(f"protoPackage {md.get('protoPackage')!r} is not the API's proto package {d['package']!r}", case)
        libdir = root.rstrip("/").replace("/", ".")
        if not ads and md.get("libraryPackage") != libdir:
            ctx.violation(f"libraryPackage {md.get('libraryPackage')!r} but the package was emitted at {libdir!r}", case)
        if not ads and sorted(services) != sorted(s["name"] for s in d["svcs"]):
            ctx.violation(f"services listed {sorted(services)} but the target package defines {sorted(s['name'] for s in d['svcs'])}", case)
        imp_checks = []
        for s in ([] if ads else d["svcs"]):
            clients = services.get(s["name"], {}).get("clients", {})
            if sorted(clients) != want_kinds:
                ctx.violation(f"service {s['name']}: client kinds {sorted(clients)} but transports {d['transports']} imply {want_kinds}", case)
            for kind, cl in clients.items():
                rp = cl.get("rpcs", {})
                if sorted(rp) != sorted(x["name"] for x in s["rpcs"]):
                    ctx.violation(f"service {s['name']} [{kind}]: rpcs {sorted(rp)} but the service defines {sorted(x['name'] for x in s['rpcs'])}", case)
                if any(len(v.get("methods", [])) != 1 for v in rp.values()):
                    ctx.violation(f"service {s['name']} [{kind}]: an rpc is not mapped to exactly one method", case)
                imp_checks.append({"client": cl.get("libraryClient", ""), "methods": [m for v in rp.values() for m in v.get("methods", [])],
                                   "service": s["name"], "kind": kind, "subpackage": ".".join(s["sub"])})
        # ---- direct oracle (2): METHOD_TO_PARAMS against the input descriptors ----
        table = {}
        for k, v in m2p:
            table[k] = v           # dict literal: the last duplicate wins at run time
        byname = {}
        for s in d["svcs"]:
            for x in s["rpcs"]:
                byname.setdefault(x["name"], []).append(x)
        allowed = {osnake(n) for n in byname} | (IAM_KEYS if d["add_iam"] else set())
        for k in table:
            if k not in allowed:
                ctx.violation(f"METHOD_TO_PARAMS has the key {k!r} which is no RPC of the target package"
                              + (" (and the add-iam-methods option is not given)" if k in IAM_KEYS else ""), case)
        for sn, sv in services.items():
            for kind, cl in sv.get("clients", {}).items():
                for rn in cl.get("rpcs", {}):
                    if osnake(rn) not in table and rn not in byname:
                        ctx.violation(f"gapic_metadata.json lists RPC {sn}.{rn} but METHOD_TO_PARAMS has no entry {osnake(rn)!r}", case)
        for name, xs in byname.items():
            key = osnake(name)
            got = table.get(key)
            if got is None:
                clash = [n for n in byname if n != name and n.lower() == name.lower()]
                ctx.violation(f"METHOD_TO_PARAMS has no entry {key!r} for RPC {name}", case,
                              "fixup.case_insensitive_unique" if clash else None)
                continue
            ok = False
            for x in xs + [y for n2, ys in byname.items() if osnake(n2) == key for y in ys]:
                want = [n for n, q in x["fields"] if q] + [n for n, q in x["fields"] if not q]
                if len(got) == len(want) and all(g == w or g == w + "_" for g, w in zip(got, want)):
                    ok = True
            if not ok:
                clash = [n for n in byname if n != name and n.lower() == name.lower()]
                ctx.violation(f"METHOD_TO_PARAMS[{key!r}] = {got} is not 'required fields first, then declaration order' of any RPC named {name}",
                              case, "fixup.case_insensitive_unique" if clash else None)
        if not ads:
            imports.append((c, case, res, md.get("libraryPackage", ""), imp_checks))
    # ---- direct oracle (3): the named classes and methods exist in the imported package ----
    def do_import(item):
        c, case, res, pkg, imp_checks = item
        d = gen.case_dir("c15imp_" + env.canon_hash(case)[:12])
        gen.materialize(res, d)
        try:
            return gen.impl("c15import", {"package": pkg, "checks": imp_checks}, extra_path=d, cwd=d, timeout=300)
        except Exception as e:  # noqa
            return {"import_error": f"child failed: {e}"[-800:], "results": []}
        finally:
            gen.rm(d)
    for (c, case, res, pkg, imp_checks), o in zip(imports, gen.pmap(do_import, imports)):
        if o.get("import_error"):
            nons = "." not in pkg and f"No module named '{pkg}.{pkg}'" in o["import_error"]
            ctx.violation(f"emitted package {pkg} cannot be imported, so no named class exists: {o['import_error'][:300]}", case,
                          "import.no_namespace_package_path" if nons else None)
            continue
        for chk, rr in zip(imp_checks, o["results"]):
            if not rr["is_class"]:
                where = pkg + ("." + chk["subpackage"] if chk.get("subpackage") else "")
                ctx.violation(f"gapic_metadata.json names client {chk['client']!r} for {chk['service']} [{chk['kind']}] but {where} has no such class"
                              + (f" ({rr['error']})" if rr.get("error") else ""), case)
            elif rr["missing"] or rr["not_callable"]:
                ctx.violation(f"client {chk['client']} of {pkg} lacks methods named by gapic_metadata.json: {rr['missing'] + rr['not_callable']}", case)
    return checks


def load_corpus():
    """corpus/C15/*.json: minimised cases that run first (witnesses of repaired defects: a regression is reported)."""
    out = []
    d = os.path.join(env.VERIF, "corpus", "C15")
    for f in sorted(os.listdir(d)) if os.path.isdir(d) else []:
        if f.endswith(".json"):
            c = json.load(open(os.path.join(d, f)))["case"]
            out.append({"request_b64": c["request_b64"], "params": c.get("params") or [], "yaml": c.get("yaml"), "tag": c.get("tag", f)})
    return out


def regen(ctx):
    U.write_case_gen()
    kw = U.interpreter_kwlist()
    rn = sorted(U.module_assign("gapic/utils/reserved_names.py", "RESERVED_NAMES"))
    if not kw or not rn:
        raise U.ExtractError("empty kwlist / RESERVED_NAMES")
    coq.write_gen("C15Gen", "(* regenerated on every run (T0): keyword.kwlist of the generator's interpreter, gapic/utils/reserved_names.py *)\n"
                  "From GV Require Import Base.Str.\n"
                  f"Definition kwlist : list string := {coq.slist(kw)}.\n"
                  f"Definition reserved_names : list string := {coq.slist(rn)}.\n")
    # the two templates must still delegate to the modelled functions (fail-closed structural pins, read from env.REPO)
    t1 = open(os.path.join(env.REPO, "gapic/templates/%namespace/%name_%version/gapic_metadata.json.j2")).read().strip()
    ctx.oblige("T0 gapic_metadata.json.j2 is exactly the call of api.gapic_metadata_json(opts)", t1 == "{{ api.gapic_metadata_json(opts) }}", t1[:200], "T0")
    t2 = open(os.path.join(env.REPO, "gapic/templates/scripts/fixup_%name_%version_keywords.py.j2")).read()
    want = ["{% for method in all_methods|sort(attribute='name')|unique(attribute='name', case_sensitive=True) %}",
            "'{{ method.name|snake_case }}': ({% for field in method.legacy_flattened_fields.values() %}'{{ field.name }}', {% endfor %}),",
            "{% for service in api.services.values() %}{% for method in service.methods.values() %}"]
    missing = [w for w in want if w not in t2]
    ctx.oblige("T0 fix-up template builds METHOD_TO_PARAMS by sort/unique on name, snake_case key, legacy_flattened_fields", not missing, str(missing), "T0")
    t3 = open(os.path.join(env.REPO, "gapic/ads-templates/scripts/fixup_%name_%version_keywords.py.j2")).read()
    missing = [w for w in want if w not in t3]
    ctx.oblige("T0 the ads-templates copy of the fix-up template builds METHOD_TO_PARAMS the same way", not missing, str(missing), "T0")


def evaluate(ctx, tag, checks, kind):
    failing, errors, nfiles = coq.eval_checks(tag, IMPORTS, "", checks)
    ctx.notes[f"{tag}_checks"] = len(checks)
    ctx.notes[f"{tag}_disagreements"] = failing[:20]
    return failing, errors, nfiles


def run(ctx):
    n2 = ctx.n(40, 500)
    corpus = load_corpus()
    cases = corpus + [c for c in (make_case("C15-t2", i) for i in range(n2)) if c]
    cases += [c for c in (make_case("C15-t2-ci", i, True) for i in range(ctx.n(3, 20))) if c]
    cases += [c for c in (make_case("C15-t2-unsafe", i, "unsafe") for i in range(ctx.n(3, 20))) if c]
    cases += [c for c in (make_case("C15-t2-empty", i, "empty") for i in range(ctx.n(4, 24))) if c]
    cases += [c for c in (make_case("C15-t2-subpkg", i, "subpkg") for i in range(ctx.n(4, 24))) if c]
    cases += [c for c in (make_case("C15-t2-deepsub", i, "deepsub") for i in range(ctx.n(2, 10))) if c]
    cases += [c for c in (make_case("C15-t2-streaming", i, "streaming") for i in range(ctx.n(4, 24))) if c]
    cases += [c for c in (make_case("C15-t2-presence", i, "presence") for i in range(ctx.n(4, 24))) if c]
    cases += [c for c in (make_case("C15-t2-iam", i, "iam") for i in range(ctx.n(3, 16))) if c]
    checks = run_t2(ctx, cases) + run_strings(ctx, ctx.n(150, 1500))
    failing, errors, nf = evaluate(ctx, "c15t2", checks, "T2")
    ctx.oblige(f"T2 model = gapic schema objects (gapic_metadata, client/method names, legacy_flattened_fields, snake/module names) "
               f"on {len(checks)} comparisons over {len(cases)} APIs", not failing and not errors and len(checks) > 0,
               "; ".join((failing + errors)[:8]))
    ne = ctx.n(10, 120)
    e2e = corpus + [c for c in (make_case("C15-e2e", i) for i in range(ne)) if c]
    e2e += [c for c in (make_case("C15-e2e-ci", i, True) for i in range(ctx.n(1, 4))) if c]
    e2e += [c for c in (make_case("C15-e2e-unsafe", i, "unsafe") for i in range(ctx.n(2, 8))) if c]
    e2e += [c for c in (make_case("C15-e2e-empty", i, "empty") for i in range(ctx.n(3, 10))) if c]
    e2e += [c for c in (make_case("C15-e2e-subpkg", i, "subpkg") for i in range(ctx.n(3, 12))) if c]
    e2e += [c for c in (make_case("C15-e2e-deepsub", i, "deepsub") for i in range(ctx.n(2, 10))) if c]
    e2e += [c for c in (make_case("C15-e2e-streaming", i, "streaming") for i in range(ctx.n(3, 12))) if c]
    e2e += [c for c in (make_case("C15-e2e-presence", i, "presence") for i in range(ctx.n(3, 12))) if c]
    e2e += [c for c in (make_case("C15-e2e-ads-ci", i, "ads-ci") for i in range(ctx.n(3, 12))) if c]
    e2e += [c for c in (make_case("C15-e2e-iam", i, "iam") for i in range(ctx.n(4, 16))) if c]
    e2e += [c for c in (make_case("C15-e2e-iam-option", i, "iam-option") for i in range(ctx.n(1, 6))) if c]
    checks = run_e2e(ctx, e2e)
    failing, errors, nf = evaluate(ctx, "c15t1", checks, "T1")
    ctx.oblige(f"T1 emitted gapic_metadata.json, METHOD_TO_PARAMS and emitted class/def names = model output "
               f"({len(checks)} comparisons over {len(e2e)} generated libraries)", not failing and not errors and len(checks) > 0,
               "; ".join((failing + errors)[:8]), "T1")


def search(ctx, broken):
    """A tie broke but no oracle failed on the regular cases: look harder (more libraries, every transport, internal methods)."""
    extra = [c for c in (make_case("C15-search", i) for i in range(32)) if c]
    run_e2e(ctx, extra)


def replay(ctx, rep):
    c = rep.get("case", {})
    if "request_b64" not in c:
        return run(ctx)
    case = {"request_b64": c["request_b64"], "params": c["params"], "yaml": c.get("yaml"), "tag": c.get("tag", "replay")}
    checks = run_t2(ctx, [case])
    failing, errors, _ = evaluate(ctx, "c15t2r", checks, "T2")
    ctx.oblige("T2 replayed case: model = gapic schema objects", not failing and not errors, "; ".join((failing + errors)[:8]))
    checks = run_e2e(ctx, [case])
    failing, errors, _ = evaluate(ctx, "c15t1r", checks, "T1")
    ctx.oblige("T1 replayed case: emitted artefacts = model output", not failing and not errors, "; ".join((failing + errors)[:8]), "T1")
