"""C20 — fix_whitespace: case grammar, direct oracle, T2 against Model/FixWs.v."""
import ast, re
from .. import env, coq, gen

IMPORTS = "From GV Require Import Model.FixWs Model.Wrap."
PYWS = "\t\n\x0b\x0c\r\x1c\x1d\x1e\x1f "      # str.isspace on ASCII

CORPUS = [
    "", "\n", "x", "x\n", "x  \n\n \n\n\ndef f:\n\n\n    p\t\n\n", "\n\n\n\ndef f(): pass", "a\n\n\n\n\n\nclass B:\n\n\n\n    x = 1\n",
    "a \t\nb", "a\n \n\n    b", "a\n\n\n\n@d\ndef f():\n\n\n\n        return 1   \n   ", "x\n\n\n\n#c\n\n\n\n_y = 1\n",
    "x\n\n\n\n  def f", "x\n\n\n      y", "x\n\n\n        y", "x\n\n\n\t    y", "x\n\n\n    \ty", "x\r\n\r\n\r\ndef", "x\x0c\n\n\n\ndef",
    "   \n  \n", "s = '''a  \n\n\n\n    b'''\n", "if x:\n    pass\n\n\n\n    # c\n\n\n\n# d\n", "a\n\n\n\n\n    ?", "\n\n\n    a", " \n\n\n_", "x\x1c\n\x1d\n\n\nclass",
]

HEADS = ["class A:", "def f():", "@dec", "# comment", "_x = 1", "x = 1", "pass", "return x", "import os", "if x:", "else:", '"""doc"""',
         "s = '''a", "b'''", "1", "?", "y = [", "]", "lambda: 0", "async def g():", "défaut = 1"]
TRAIL = ["", "", "", " ", "   ", "\t", " \t ", "\r", "\x0c", " \x1c"]
INDENT = ["", "", "", "    ", "    ", "        ", "  ", "   ", "      ", "\t", "            ", "     "]


def gen_layout(r):
    """Blank-line / indentation layouts: lines with indentation, heads that the regexes look at, trailing blanks, blank runs."""
    out = []
    for _ in range(r.randint(1, 9)):
        if r.random() < 0.7:
            out.append(r.choice(INDENT) + r.choice(HEADS) + r.choice(TRAIL))
        for _ in range(r.choice([0, 0, 1, 1, 2, 3, 4, 6])):
            out.append(r.choice(["", "", "", " ", "    ", "\t", "  \t", "\x0c", "\r"]))
    s = "\n".join(out)
    if r.random() < 0.5:
        s += r.choice(["\n", "\n\n", " ", "\n   \n", "\t\n"])
    return s


def gen_noise(r):
    alpha = ["\n"] * 6 + [" "] * 8 + list("\t\r\x0c\x1c\x0b") + list("ab_@#1:(") + ["class", "def", "    "]
    return "".join(r.choice(alpha) for _ in range(r.randint(0, 28)))


BODY = ["x = 1", "return None", "pass", "y = [1,\n{i}     2]", "s = '''t  \n\n\n\n{i}    u  '''", "# note", "z = f(a,\n{i}      b)",
        '"""Doc  \n\n{i}more.\n\n\n\n{i}"""', "if x:\n{i}    pass", "for i in y:\n{i}    continue", "w = 'a  '   ", "v = \"\"\"q\n\n\n\n\n    class\n\"\"\""]


def gen_python(r):
    """Syntactically valid Python modules with surplus blank lines / trailing blanks sprinkled between statements."""
    def blanks():
        return "".join(r.choice(["\n", "\n", " \n", "    \n", "\t\n", "  \t \n"]) for _ in range(r.choice([0, 0, 1, 2, 3, 5, 7])))

    def stmt(ind):
        return ind + r.choice(BODY).replace("{i}", ind) + r.choice(["", "", "  ", "\t"]) + "\n"

    def func(ind, depth):
        s = ""
        if r.random() < 0.3:
            s += ind + "@staticmethod\n" + (blanks() if r.random() < 0.2 else "")
        s += ind + f"def f{r.randint(0, 9)}(a=1):" + r.choice(["", " "]) + "\n" + blanks()
        for _ in range(r.randint(1, 3)):
            s += stmt(ind + "    ") + blanks()
        if depth < 2 and r.random() < 0.3:
            s += func(ind + "    ", depth + 1)
        return s

    def klass(ind, depth):
        s = ind + f"class C{r.randint(0, 9)}:\n" + blanks()
        for _ in range(r.randint(1, 3)):
            k = r.random()
            if k < 0.5:
                s += func(ind + "    ", depth + 1)
            elif k < 0.6 and depth < 1:
                s += klass(ind + "    ", depth + 1)
            else:
                s += stmt(ind + "    ")
            s += blanks()
        return s

    s = r.choice(["", "# -*- coding: utf-8 -*-\n", "\n\n", '"""Module doc."""\n'])
    for _ in range(r.randint(1, 5)):
        k = r.random()
        s += klass("", 0) if k < 0.35 else func("", 0) if k < 0.7 else stmt("") if k < 0.9 else "_private = 1\n"
        s += blanks()
    return s + r.choice(["", "\n", "\n\n\n", "   "])


# ---------------------------------------------------------------- the direct oracle (independent of the model and of /repo)
def squeeze(s):
    return "".join(ch for ch in s if ch not in PYWS)


def nonblank(s):
    return [l.rstrip(PYWS) for l in s.split("\n") if l.strip(PYWS)]


def norm_ast(src):
    """ast.dump with the whitespace inside string literals removed; None when the text is not Python."""
    try:
        tree = ast.parse(src)
    except (SyntaxError, ValueError, RecursionError, MemoryError):
        return None
    for n in ast.walk(tree):
        if isinstance(n, ast.Constant) and isinstance(n.value, str):
            n.value = "".join(n.value.split())
        elif isinstance(n, ast.Constant) and isinstance(n.value, bytes):
            n.value = bytes(b for b in n.value if chr(b) not in PYWS)     # (bytes.split() does not know \x1c..\x1f)
    return ast.dump(tree, include_attributes=False)


def oracle(text, rec):
    """The property's sentences about the post-processor, on what the implementation returned. -> list of (clause, detail)."""
    bad = []
    if "ok" not in rec:
        return [("raises", rec.get("err"))]
    out = rec["ok"]
    # only removes trailing blanks and surplus blank lines
    if squeeze(out) != squeeze(text):
        bad.append(("only-blanks-removed", "a non-blank character was added, dropped or moved"))
    elif nonblank(out) != nonblank(text):
        bad.append(("only-blanks-removed", "the sequence of non-blank lines (indentation included) changed"))
    elif len(out) > len(text) + 1:
        bad.append(("only-blanks-removed", "the output is longer than the input plus a final newline"))
    # leaves the AST unchanged up to whitespace inside string literals
    a = norm_ast(text)
    if a is not None:
        b = norm_ast(out)
        if a != b:
            bad.append(("ast-unchanged", "ast.dump differs (string-literal whitespace ignored)" if b is not None else "the output no longer parses"))
    # idempotent
    again = rec.get("again", {})
    if again.get("ok") != out:
        bad.append(("idempotent", f"second application gives {again!r:.200}"))
    # ends the file with exactly one newline
    if not out.endswith("\n") or (len(out) > 1 and out[-2] in PYWS):
        bad.append(("one-final-newline", repr(out[-6:])))
    return bad


def features(text):
    f = []
    if re.search(r"[ ]\n", text):
        f.append("fw:trailing-space")
    if re.search(r"\n\s*\n\s*\n\s*\n", text):
        f.append("fw:3+blank-lines")
    if re.search(r"\n\s*\n\s*\n(    )+\S", text):
        f.append("fw:2+blank-before-indented")
    if re.search(r"[\t\r\x0b\x0c\x1c-\x1f]", text):
        f.append("fw:exotic-ws")
    if not text.endswith("\n") or text.endswith("\n\n") or text.endswith(" \n"):
        f.append("fw:ragged-end")
    return f or ["fw:plain"]


def run_cases(ctx, tagged, tag="fw", max_model_len=6000):
    """tagged: list of (source_kind, text). Implementation once, oracle on everything, T2 on the ASCII texts."""
    texts = [t for _, t in tagged]
    recs = gen.impl("c20pure", {"fixws": texts})["fixws"]
    checks, nviol = [], 0
    for (kind, text), rec in zip(tagged, recs):
        feats = features(text) + [f"fw:src={kind}"]
        changed = rec.get("ok") != text
        ctx.case({"kind": "fixws", "text": text}, nontrivial=changed, feature=feats)
        for clause, detail in oracle(text, rec):
            nviol += 1
            ctx.violation(f"fix_whitespace violates '{clause}': {detail}", {"kind": "fixws", "text": text, "observed": rec, "clause": clause},
                          None)
        if text.isascii() and len(text) <= max_model_len:
            obs = f"Ok {coq.s(rec['ok'])}" if "ok" in rec else "IndexErr"
            checks.append((f"fix_whitespace({text!r:.300})", f"res_eqb (Ok (fix_whitespace {coq.s(text)})) ({obs})"))
    return checks, nviol


RES_EQB = ("Definition res_eqb (a b : res) : bool := match a, b with Ok x, Ok y => String.eqb x y | IndexErr, IndexErr => true "
           "| ValueErr, ValueErr => true | NeedsPandoc, NeedsPandoc => true | _, _ => false end.\n")


def evaluate(ctx, tag, what, checks):
    failing, errors, nfiles = coq.eval_checks(tag, IMPORTS, RES_EQB, checks)
    ctx.oblige(f"T2 model = implementation: {what} ({len(checks)} evaluations, {nfiles} cases files)",
               bool(checks) and not failing and not errors, "; ".join((failing + errors)[:6]))
    ctx.notes[f"{tag}_checks"] = len(checks)
    if failing or errors:
        ctx.notes[f"{tag}_disagreements"] = (failing + errors)[:20]
    return failing
