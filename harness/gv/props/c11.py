"""C11 — the emitted file set is well-formed and placed by package-derived naming."""
import json, os, re
from .. import env, coq, gen, apigen
from ..apigen import File
from . import c11_util as U
from .c15 import osnake      # the oracle's own snake-casing (a character loop, no regex, no /repo)

RULE = ("(a) pure cases: option strings composed from known flags, python-gapic- options, unknown options, repeated keys, values "
        "containing '=', blanks; package sets (0..3 namespace segments, versions v1/v1beta1/v1p1beta1/v2alpha/none/odd, several "
        "packages, upper case, CLI overrides); (template, naming, sub-package, service, proto) tuples over every template of both "
        "trees incl. adversarial values; skeleton APIs (file names needing sanitising, keyword names, dotted names, sub-packages, "
        "dependency files). (b) end-to-end: corpus/C11 (witnesses of repaired defects) first, then generated requests (package shape x "
        "version incl. v1p1beta1 / v2p3alpha x 1-3 target files incl. proto sub-packages one and two levels deep, services in "
        "sub-packages x dependency-only files incl. packages sharing a textual prefix x file names needing sanitising incl. "
        "k8s_min.proto / k8s.min.proto x option strings incl. unknown options with '=' in the value x template tree (default; ads-templates with unversioned / versioned packages, root files / sub-packages)) run through the real generator. "
        "(c) emptiness filter: rendered texts (blank lines incl. tab / form feed / CR / FS-US, comments at any indentation, code lines, "
        "docstrings whose lines start with '#', trailing-newline shapes) x file names (modules, __init__.py, py.typed and look-alikes) "
        "through utils.empty, fix_whitespace and the real Generator._get_file. "
        "A case is one input tuple; distinct = distinct canonical JSON / request hash; non-trivial = at least one target file.")
TRUSTED = [
    "Model/Files.v (Options.build, Naming.build, generate/API.build names, _render_template gating and iteration, _get_filename, "
    "dict de-duplication) and Model/Case.v: hand-written, tied by T0 (template lists of both trees, OPT_FLAGS, prefix, kwlist, the "
    "string literals of every modelled function pinned), T1 (response file names + supported_features) and T2 (direct calls)",
    "Model/Empty.v (utils.empty, the drop rule of Generator._get_file, over Model/FixWs.v): hand-written, ASCII text (non-ASCII "
    "blanks such as U+00A0 / U+0085 are outside the model; the oracle still runs on non-ASCII cases), tied by T0 (the one expression "
    "of utils.empty, the test and the literals of _get_file, the function its content goes through) and T2 (props/c11_empty.py: "
    "the real functions on generated texts; _get_file runs on a stand-in self whose template renders to the given text); WHICH "
    "templates render to no statement for a given API is not modelled (T1 only allows names other than __init__.py / py.typed to "
    "be dropped, the e2e oracle reports an emitted empty module); sample files (samples/generated_samples/*) go through the oracle only; "
    "service-YAML parsing (the two experimental flags are inputs of the model)",
    "harness/gv/props/c11.py reference(): reads packages, file names, services from the input descriptors; impl/c11fn.py; "
    "apigen + DescriptorPool as validity judge; jinja2.FileSystemLoader.list_templates = sorted relative paths (T0 extractor)",
]
ASSUMES = ["theorems about emitted names: namespace segments, module name, version, sub-package segments, service and proto module "
           "names are non-empty words over [a-z0-9_] (version and namespace may be absent)",
           "C11_init_complete: proto sub-packages at most one level deep (hypothesis shallow; the types / services theorems hold "
           "for any depth, depth 2 of init completeness is covered by C11_nested_example, T1 and the oracle)"]

IMPORTS = "From GV Require Import Model.Case Model.Files Gen.C11Gen."

# ------------------------------------------------------------------ option strings
KNOWN = ["metadata", "lazy-import", "old-naming", "transport=grpc", "transport=rest", "transport=grpc+rest", "transport=rest+grpc",
         "rest-numeric-enums", "add-iam-methods", "autogen-snippets=false", "autogen-snippets=T", "autogen-snippets",
         "warehouse-package-name=foo-bar", "warehouse-package-name=x", "proto-plus-deps=a.b+c.d", "proto-plus-deps=q",
         "metadata=false", "lazy-import=0", "transport=", "transport"]
PREFIXED = ["python-gapic-namespace=google.cloud", "python-gapic-namespace=ads", "python-gapic-namespace=a.b.c", "python-gapic-name=my_lib", "python-gapic-name=Other Lib", "python-gapic-namespace=x.y", "python-gapic-namespace=Zed",
            "python-gapic-templates=DEFAULT", "python-gapic-templates=/opt/tpl/ads", "python-gapic-bogus=1", "python-gapic-bogus",
            "python-gapic-transport=rest", "python-gapic-metadata", "python-gapic-", "python-gapic-name", "python-gapic-other=z"]
UNKNOWN = ["foo", "foo=bar", "paths=source_relative", "Mgoogle/api/x.proto=pkg", "go-gapic-package=a;b", "", "x y", "FOO=1",
           "Metadata", "transport ", "retry_config=zz", "plugins=grpc", "=", "=v", "k="]
# unknown options whose KEY merely contains the marker python-gapic- in the middle, followed by every recognised option name
MIDMARKER = ["legacy-python-gapic-name=bookstore", "x-python-gapic-namespace=acme.books", "old-python-gapic-name=library_legacy",
             "my-python-gapic-templates=ads-templates", "x-python-gapic-transport=rest", "no-python-gapic-metadata",
             "xpython-gapic-old-naming", "a-python-gapic-warehouse-package-name=zz", "z-python-gapic-retry-config=/nonexistent.json",
             "z-python-gapic-service-yaml=/nonexistent.yaml", "q-python-gapic-lazy-import", "q-python-gapic-add-iam-methods",
             "q-python-gapic-autogen-snippets=false", "q-python-gapic-rest-numeric-enums", "q-python-gapic-proto-plus-deps=a.b",
             "q-python-gapic-samples=/nonexistent", "_python-gapic-name=under", "go-python-gapic-python-gapic-name=twice"]
BAD = ["foo=a=b", "Mx.proto=pkg=alias", "transport=a=b", "python-gapic-name=a=b", "a==", "==="]


def gen_option_items(r, allow_bad=True, files=None):
    items = []
    for _ in range(r.randint(0, 6)):
        k = r.random()
        if k < 0.35:
            it = r.choice(KNOWN)
        elif k < 0.55:
            it = r.choice(PREFIXED)
        elif k < 0.62 and files:
            it = r.choice(files)
        elif k < 0.70:
            it = r.choice(MIDMARKER)
        elif k < 0.93 or not allow_bad:
            it = r.choice(UNKNOWN)
        else:
            it = r.choice(BAD)
        if r.random() < 0.2:
            it = r.choice([" ", "\t", "  "]) + it + r.choice(["", " ", "\n"])
        items.append(it)
    return items


_optfiles = None


def option_files():
    """retry-config / service-yaml files with a marker, so that T2 can tell which file was read."""
    global _optfiles
    if _optfiles is None:
        d = gen.case_dir("c11_optfiles")
        _optfiles = {}
        for i in range(3):
            p = os.path.join(d, f"retry{i}.json")
            json.dump({"marker": f"r{i}"}, open(p, "w"))
            _optfiles[f"retry-config={p}"] = ("retry", p, f"r{i}")
            q = os.path.join(d, f"svc{i}.yaml")
            open(q, "w").write(f"type: google.api.Service\nmarker: y{i}\n")
            _optfiles[f"service-yaml={q}"] = ("yaml", q, f"y{i}")
    return _optfiles


def option_checks(ctx, strings):
    out = gen.impl("c11fn", {"options": strings})["options"]
    marker_path = {m: p for _, p, m in option_files().values()}
    checks = []
    for s, o in zip(strings, out):
        feats = ["opt:bad-equals" if any(x.count("=") > 1 for x in s.split(",")) else "opt:ok"]
        ctx.case({"option_string": s}, nontrivial=bool(s.strip()), feature=feats)
        S = coq.s(s)
        if "error" in o:
            if o["error"] == "BadOption":
                checks.append((f"options {s!r}: error", f"is_err (options_build {S}) EBadOption"))
            else:
                ctx.oblige(f"T2 Options.build({s!r}) raised an unmodelled error", False, o["error"])
            continue
        warn = []
        for m in o["warn"]:
            mm = re.fullmatch(r"Unrecognized option: `python-gapic-(.*)`\.", m, flags=re.S)
            warn.append(mm.group(1) if mm else "<unparsed>" + m)
        retry = marker_path.get(o["retry"]) if o["retry"] is not None else None
        yaml_ = marker_path.get(o["service_yaml"]) if o["service_yaml"] is not None else None
        checks.append((f"options {s!r}",
                       f"on_ok (options_build {S}) (fun o => options_eqb o {coq.s(o['name'])} {coq.slist(o['namespace'])} {coq.s(o['warehouse'])} "
                       f"{coq.opt(retry)} {coq.opt(yaml_)} {coq.b(o['autogen'])} {coq.slist(o['templates'])} {coq.b(o['lazy'])} {coq.b(o['old_naming'])} "
                       f"{coq.b(o['add_iam'])} {coq.b(o['metadata'])} {coq.slist(o['transport'])} {coq.b(o['numeric'])} {coq.slist(o['pp_deps'])} {coq.slist(warn)})"))
    return checks


# ------------------------------------------------------------------ packages / naming
NS_SEGS = ["google", "cloud", "acme", "data", "x1", "my_org", "ads", "a"]
NAMES = ["library", "widgets", "storage", "fleet", "things", "big_query", "v", "v2x", "speech2text", "iam"]
VERSIONS = ["v1", "v1beta1", "v1p1beta1", "v2alpha", "v10p2beta3", "", "", "v1main", "v3beta", "v1p", "valpha1", "v0"]


def gen_package(r):
    ns = [r.choice(NS_SEGS) for _ in range(r.randint(0, 3))]
    segs = ns + [r.choice(NAMES)]
    v = r.choice(VERSIONS)
    if v:
        segs.append(v)
    return ".".join(segs)


def gen_naming_case(r):
    p = gen_package(r)
    k = r.random()
    pk = [p]
    if k < 0.25:
        pk.append(p + "." + r.choice(["sub", "types", "v2", "services"]))
    elif k < 0.35:
        pk.append(p[:-1] + r.choice(["2", "x", "beta"]))
    elif k < 0.42:
        pk.append(gen_package(r))
    elif k < 0.45:
        pk = [p + ".alpha", p + ".apple"] + ([p] if r.random() < 0.3 else [])      # siblings sharing leading letters
    elif k < 0.47:
        pk = [p.replace(r.choice(p), r.choice("AZ_."), 1)]
    elif k < 0.5:
        pk = [r.choice(["", ".", "v1", "1abc.v1", "a..b.v1", "a.v1.b.v2", "Foo.v1", "a.b.v1beta", "x.v1alpha.y"])]
    r.shuffle(pk)
    items = [x for x in gen_option_items(r, allow_bad=False) if "templates" not in x]
    if r.random() < 0.2:     # the namespace key repeated, dotted and plain values mixed, interleaved with the other options
        for v in r.sample(["google.cloud", "ads", "a.b.c", "Zed", "x.y"], r.choice([2, 3])):
            items.insert(r.randint(0, len(items)), "python-gapic-namespace=" + v)
    return {"packages": pk, "opt": ",".join(items)}


def naming_checks(ctx, cases):
    out = gen.impl("c11fn", {"naming": cases})["naming"]
    checks = []
    for c, o in zip(cases, out):
        ctx.case({"naming": c}, nontrivial=True, feature=["naming:error" if "error" in o else "naming:ok"])
        P, O = coq.slist(c["packages"]), coq.s(c["opt"])
        expr = f"bind (options_build {O}) (fun o => naming_build {P} o)"
        if "error" in o:
            enum = {"NoCommonRoot": "ENoCommonRoot", "NoRegexMatch": "ENoRegexMatch", "UnversionedMulti": "EUnversionedMulti"}.get(o["error"])
            if enum is None:
                ctx.oblige(f"T2 Naming.build({c}) raised an unmodelled error", False, o["error"])
                continue
            checks.append((f"naming {c}: error", f"is_err ({expr}) {enum}"))
        else:
            checks.append((f"naming {c}", f"on_ok ({expr}) (fun n => naming_eqb n {coq.s(o['name'])} {coq.slist(o['namespace'])} {coq.s(o['version'])} "
                                          f"{coq.s(o['proto_package'])} {coq.s(o['module_name'])} {coq.s(o['versioned'])} "
                                          f"{coq.s('/'.join(x.lower() for x in o['namespace']))})"))
    return checks


# ------------------------------------------------------------------ _get_filename
def gen_filename_case(r, tpl):
    adversarial = r.random() < 0.15
    word = lambda: r.choice(["library", "my_lib", "x", "big_query2", "a_b"])
    ns = [r.choice(["Google", "Cloud", "Acme", "My_org"]) for _ in range(r.randint(0, 3))]
    name = r.choice(["Library", "My Lib", "Big-Query", "X", "a.b", "Über".encode("ascii", "ignore").decode() or "U"])
    ver = r.choice(["v1", "v1beta1", "", "", "v1p1beta1"])
    sub = [word() for _ in range(r.choice([0, 0, 1, 1, 2]))]
    c = {"tpl": tpl, "namespace": ns, "name": name, "version": ver, "sub": sub, "old": r.random() < 0.15,
         "service": word() if "%service" in tpl or r.random() < 0.1 else None,
         "proto": word() if "%proto" in tpl or r.random() < 0.1 else None}
    if adversarial:
        k = r.choice(["namespace", "name", "version", "sub", "service", "proto"])
        bad = r.choice(["%name", "a/b", "%", "..", "", "/", "%sub", "x%versiony", "."])
        if k == "namespace":
            c["namespace"] = ns + [bad]
        elif k == "sub":
            c["sub"] = sub + [bad]
        else:
            c[k] = bad
    return c


def filename_checks(ctx, cases, feature="filename"):
    out = gen.impl("c11fn", {"filename": cases})["filename"]
    checks = []
    for c, o in zip(cases, out):
        ctx.case({"filename": c}, nontrivial=True, feature=[feature])
        if "error" in o:
            ctx.oblige(f"T2 _get_filename({c}) raised", False, o["error"])
            continue
        term = (f"get_filename {coq.s(c['tpl'])} {{| c_ns := {coq.s(o['ns_path'])}; c_nv := versioned_module {coq.b(c['old'])} {coq.s(c['name'])} {coq.s(c['version'])}; "
                f"c_ver := {coq.s(c['version'])}; c_name := valid_module {coq.s(c['name'])}; c_sub := sjoin \"/\" {coq.slist(c['sub'])}; "
                f"c_service := {coq.opt(c['service'])}; c_proto := {coq.opt(c['proto'])} |}}")
        checks.append((f"get_filename {c}", f"String.eqb ({term}) {coq.s(o['filename'])}"))
        checks.append((f"versioned_module {c['name']!r} {c['version']!r}", f"String.eqb (versioned_module {coq.b(c['old'])} {coq.s(c['name'])} {coq.s(c['version'])}) {coq.s(o['versioned'])}"))
    return checks


# ------------------------------------------------------------------ API.build on skeletons
FNAMES = ["Import", "Class", "my-types", "my_types", "transport", "import_", "Import", "my-types", "_shared", "__private", "_shared", "k8s_min", "k8s.min", "k8s_min", "k8s.min", "library", "resources", "My-File", "foo.bar", "class", "CamelCase2FA", "metadata", "import", "HTTPApi", "a_b", "x.y.z",
          "request", "lambda", "Types", "service2", "class_", "__init__"]


def gen_build_case(r):
    pkg = gen_package(r)
    while not pkg or pkg.startswith("v"):
        pkg = gen_package(r)
    d = pkg.replace(".", "/")
    files, used = [], set()
    for i in range(r.randint(1, 4)):
        k = r.random()
        sub = r.choice(["sub", "types", "v2", "deep"]) if k < 0.25 else None
        sub2 = r.choice(["low", "sub"]) if sub and r.random() < 0.2 else None
        p = pkg + ("." + sub if sub else "") + ("." + sub2 if sub2 else "")
        fn = r.choice(FNAMES)
        name = f"{p.replace('.', '/')}/{fn}.proto" if r.random() < 0.9 else f"{fn}.proto"
        if name in used:
            continue
        used.add(name)
        svcs = [r.choice(["Library", "BigQueryAdmin", "IAM", "Aux2B", "X"]) + str(i) for _ in range(r.choice([0, 0, 1, 1, 2]))]
        files.append({"name": name, "package": p, "services": sorted(set(svcs), key=svcs.index)})
    deps = []
    for j in range(r.choice([0, 0, 1, 2])):
        k = r.random()
        if k < 0.5:
            dp = r.choice(["google.api", "google.protobuf", "other.dep.v1", "google.type"])
        elif k < 0.75:
            dp = pkg + r.choice(["beta1", "x", "_common", "2"])      # string prefix, not a package prefix
        else:
            dp = pkg
        dn = f"{dp.replace('.', '/')}/{r.choice(FNAMES)}.proto"
        if dn not in used:
            used.add(dn)
            deps.append({"name": dn, "package": dp, "services": [f"DepSvc{j}"] if r.random() < 0.3 else []})
    allf = deps + files
    if r.random() < 0.3:
        r.shuffle(allf)
    opt = ",".join(x for x in gen_option_items(r, allow_bad=False) if "templates" not in x) if r.random() < 0.3 else ""
    return {"files": allf, "to_generate": [f["name"] for f in files], "opt": opt}


def files_term(files):
    return coq.lst(f"mkPF {coq.s(f['name'])} {coq.s(f['package'])} {coq.slist(f['services'])}" for f in files)


def build_checks(ctx, cases):
    out = gen.impl("c11fn", {"build": cases})["build"]
    checks = []
    for c, o in zip(cases, out):
        feats = ["build:error" if "error" in o else "build:ok"]
        if any(f["name"] not in c["to_generate"] for f in c["files"]):
            feats.append("build:dependency-files")
        ctx.case({"build": c}, nontrivial=True, feature=feats)
        expr = f"bind (options_build {coq.s(c['opt'])}) (fun o => build_rapi {files_term(c['files'])} {coq.slist(c['to_generate'])} o)"
        if "error" in o:
            enum = {"NoCommonRoot": "ENoCommonRoot", "NoRegexMatch": "ENoRegexMatch", "UnversionedMulti": "EUnversionedMulti"}.get(o["error"])
            if enum is None:
                ctx.oblige(f"T2 API.build({c}) raised an unmodelled error", False, o["error"])
                continue
            checks.append((f"build {c}: error", f"is_err ({expr}) {enum}"))
            continue
        protos = coq.lst(f"mkU {coq.s(m)} {coq.slist(sub)} {coq.slist(sv)}" for m, sub, sv in o["protos"])
        lab = f"build {c['to_generate']} of {[f['name'] for f in c['files']]} opt={c['opt']!r}"
        checks.append((lab, f"on_ok ({expr}) (fun a => rapi_eqb a {coq.s(o['ns_path'])} {coq.s(o['module_name'])} {coq.s(o['version'])} {coq.s(o['versioned'])} {protos})"))
        checks.append((lab + " services order", f"on_ok ({expr}) (fun a => list_eqb (pair_eqb String.eqb sl_eqb) (services_of a []) "
                       + coq.lst(f"({coq.s(m)}, {coq.slist(sub)})" for m, sub in o["services"]) + ")"))
        checks.append((lab + " subviews", f"on_ok ({expr}) (fun a => list_eqb sl_eqb (subviews a []) {coq.lst(coq.slist(v) for v in o['subviews'])})"))
        for k, v in o["sub"].items():
            checks.append((lab + f" view {k}: protos", f"on_ok ({expr}) (fun a => list_eqb unit_eqb (protos_of a [{coq.s(k)}]) "
                           + coq.lst(f"mkU {coq.s(m)} {coq.slist(sub)} {coq.slist(sv)}" for m, sub, sv in v["protos"]) + ")"))
            checks.append((lab + f" view {k}: subviews", f"on_ok ({expr}) (fun a => list_eqb sl_eqb (subviews a [{coq.s(k)}]) {coq.lst(coq.slist(x) for x in v['subviews'])})"))
    return checks


def run_pure(ctx):
    of = option_files()
    strings = [",".join(gen_option_items(env.rng("C11-opt", i), files=list(of))) for i in range(ctx.n(120, 1500))]
    strings += ["python-gapic-namespace=google.cloud,python-gapic-namespace=ads", "python-gapic-namespace=ads,foo=1,python-gapic-namespace=google.cloud,python-gapic-name=my_lib",
                "python-gapic-namespace=a.b,python-gapic-namespace=c.d,metadata", "python-gapic-namespace=a,python-gapic-namespace=b"]
    strings += KNOWN + PREFIXED + UNKNOWN + BAD + MIDMARKER + ["python-gapic-name=shelf," + m for m in MIDMARKER[:4]] + [m + "," + m for m in MIDMARKER[:3]] + ["metadata,foo=a=b", "a=b,transport=rest", ",,", " , "]
    checks = option_checks(ctx, strings)
    checks += naming_checks(ctx, [gen_naming_case(env.rng("C11-naming", i)) for i in range(ctx.n(150, 2000))])
    tpls = U.list_templates("templates") + U.list_templates("ads-templates")
    fcases = []
    for rep in range(ctx.n(2, 12)):
        for j, t in enumerate(tpls):
            fcases.append(gen_filename_case(env.rng("C11-fn", rep * 1000 + j), t))
    checks += filename_checks(ctx, fcases)
    checks += build_checks(ctx, [gen_build_case(env.rng("C11-build", i)) for i in range(ctx.n(60, 800))])
    failing, errors, nfiles = coq.eval_checks("c11pure", IMPORTS, "", checks, chunk=120)
    ctx.oblige(f"T2 model = implementation on {len(checks)} direct calls of Options.build / Naming.build / _get_filename / API.build "
               f"({nfiles} cases files)", not failing and not errors and len(checks) > 0, "; ".join((failing + errors)[:6]))
    ctx.notes["pure_checks"] = len(checks)
    ctx.notes["pure_disagreements"] = failing[:20]
    return failing


# ------------------------------------------------------------------ end to end: requests
# (file stem -> module name the generator must give it): fixed reference table, not computed by the model or by /repo
# k8s_min / k8s.min: the dotted name is sanitised to k8s_min, which is taken when k8s_min.proto comes first -> k8s_min_
FILE_POOL = [("k8s_min", "k8s_min"), ("k8s.min", "k8s_min"), ("my-types", "my_types"), ("my_types", "my_types"), ("Import", "import_"),
             ("Class", "class_"), ("transport", "transport_"), ("_shared", "_shared"), ("__private", "__private"), ("library", "library"), ("resources", "resources"), ("My-File", "my_file"), ("foo.bar", "foo_bar"), ("class", "class_"),
             ("CamelCase2FA", "camel_case_2fa"), ("metadata", "metadata_"), ("import", "import_"), ("HTTPApi", "http_api"),
             ("a_b", "a_b"), ("x.y.z", "x_y_z"), ("request", "request_"), ("Types", "types"), ("service2", "service2")]
SVC_POOL = [("_Internal", "_internal"), ("Library", "library"), ("BigQueryAdmin", "big_query_admin"), ("IAM", "iam"), ("Aux2B", "aux_2b"), ("X", "x"),
            ("FleetOps", "fleet_ops"), ("Services_", "services_")]
E2E_NS = [[], ["google"], ["google", "cloud"], ["acme", "data", "x1"], ["my_org"]]
E2E_NAMES = ["library", "widgets", "big_query", "speech2text", "iam"]
E2E_VERSIONS = ["v1", "v1beta1", "v1p1beta1", "", "v2alpha", "v2p3alpha", "v1p1beta1"]
DOCUMENTED = {"add-iam-methods", "autogen-snippets", "lazy-import", "metadata", "old-naming", "proto-plus-deps", "rest-numeric-enums",
              "retry-config", "samples", "service-yaml", "transport", "warehouse-package-name"}
E2E_KNOWN = ["metadata", "transport=grpc", "transport=rest", "transport=grpc+rest", "rest-numeric-enums", "autogen-snippets=false",
             "warehouse-package-name=foo-bar", "lazy-import", "metadata", "transport=grpc+rest"]
E2E_OVERRIDES = [("python-gapic-name=my_lib", "name", "my_lib"), ("python-gapic-namespace=x.y", "namespace", ["x", "y"]),
                 ("python-gapic-namespace=Zed", "namespace", ["zed"]), ("python-gapic-name=Other", "name", "other"),
                 ("python-gapic-namespace=google.cloud", "namespace", ["google", "cloud"]), ("python-gapic-namespace=ads", "namespace", ["ads"]),
                 ("python-gapic-namespace=acme.data.x1", "namespace", ["acme", "data", "x1"])]
NS_OVERRIDES = [o for o in E2E_OVERRIDES if o[1] == "namespace"]
E2E_UNKNOWN = ["foo", "foo=bar", "paths=source_relative", "Mgoogle/api/x.proto=pkg", "go-gapic-package=a;b", "x y", "FOO=1", "Metadata",
               "python-gapic-bogus=1", "plugins=grpc", "", "foo=a=b", "Mx.proto=pkg=alias", "k==", "a=b=c=d"]
E2E_BAD_UNKNOWN = ["foo=a=b", "Mx.proto=pkg=alias"]
E2E_MIDMARKER = [m for m in MIDMARKER if "nonexistent" not in m]


def gen_request(r, defect=None):
    """-> case dict {request_b64, params, ...}.  defect: None | 'eq' | 'prefixdep' | 'nested' | 'subsvc' | 'dotted' | 'ads'."""
    ns = r.choice(E2E_NS)
    name = r.choice(E2E_NAMES)
    ver = r.choice(E2E_VERSIONS)
    ads = defect == "ads" or (defect is None and r.random() < 0.1)
    if defect == "ads":
        # the ads tree lays the package out as %namespace/%name/%version/%sub: unversioned packages with files in the root
        # package leave two empty segments in a row; versioned ones and sub-packages are the controls
        ver = r.choice(["", "", "", "v1", "v1beta1"])
    pkg = ".".join(ns + [name] + ([ver] if ver else []))
    d = pkg.replace(".", "/")
    stems = r.sample(FILE_POOL, r.randint(1, 3))
    if defect == "dotted" or r.random() < 0.08:
        stems = [FILE_POOL[0], FILE_POOL[1]] + [x for x in stems if x not in FILE_POOL[:2]][:1]
        if r.random() < 0.3:
            stems[0], stems[1] = stems[1], stems[0]
    if defect == "underscore":
        us = [x for x in FILE_POOL if x[0].startswith("_")]
        stems = r.sample(us, r.randint(1, 2)) + [x for x in stems if not x[0].startswith("_")][:1]
        r.shuffle(stems)
    if defect == "reserved":
        rs = [x for x in FILE_POOL if x[0] in ("Import", "Class", "transport", "my-types", "my_types", "My-File")]
        stems = r.sample(rs, r.randint(2, 3))
        if r.random() < 0.5:
            stems = [x for x in stems if x[0] not in ("my-types", "my_types")][:1] + r.sample([FILE_POOL[2], FILE_POOL[3]], 2)
    # two target files whose module names coincide are only generated for the pairs whose PATHS collide after sanitising
    # (k8s_min / k8s.min, my_types / my-types: the second gets a trailing underscore); files differing only by letter case
    # (class.proto / Class.proto) silently share one module: reported as a finding, not generated
    if defect == "casepair":
        pair = r.choice([[("class", "class_"), ("Class", "class_")], [("library", "library"), ("Library", "library")],
                         [("Import", "import_"), ("import_", "import_")]])
        stems = pair + [x for x in stems if x[1] not in (pair[0][1],)][:1]
    kept = []
    for x in stems if defect != "casepair" else []:
        clash = [y for y in kept if y[1] == x[1]]
        if not clash or all({x[0], y[0]} in ({"k8s_min", "k8s.min"}, {"my-types", "my_types"}) for y in clash):
            kept.append(x)
    stems = kept if defect != "casepair" else stems
    if defect is None and r.random() < 0.08:
        defect = r.choice(["nested", "prefixdep"])
    svcs = r.sample(SVC_POOL, r.randint(0, 3))
    if defect == "underscore" and r.random() < 0.6 and SVC_POOL[0] not in svcs:
        svcs = [SVC_POOL[0]] + svcs[:2]
    files, mi, bare = [], 0, set()
    nested_mid = r.random() < 0.5
    sib_pair = r.choice([("common", "common_types"), ("type", "types"), ("resource", "resources")])
    sibs_root = r.random() < 0.5
    sub = r.choice(["sub", "types_ext", "admin"]) if (ver and r.random() < 0.3) or defect in ("nested", "subsvc") else None
    if stems[:2] in ([FILE_POOL[0], FILE_POOL[1]], [FILE_POOL[1], FILE_POOL[0]]) and len(stems) < 3 and defect not in ("nested", "subsvc"):
        sub = None
    if defect == "casepair" and len(stems) < 3:
        sub = None
    if defect == "nomsg" and len(svcs) < 2:
        svcs = r.sample(SVC_POOL, 2)
    if defect == "nomsg" and len(stems) < 2:
        stems = (stems + [x for x in FILE_POOL if x not in stems and not x[0].startswith("k8s")])[:r.randint(2, 3)]
    if defect in ("subsvc", "nested"):
        ver = ver or "v1"
        pkg = ".".join(ns + [name, ver])
        d = pkg.replace(".", "/")
        stems = (stems + [s for s in FILE_POOL if s not in stems])[:max(2, len(stems))]
        svcs = svcs if len(svcs) >= 2 else r.sample(SVC_POOL, 2)
    if defect in ("siblings", "prefixsibs"):
        ver = ver or "v1"
        pkg = ".".join(ns + [name, ver])
        d = pkg.replace(".", "/")
        if len(stems) < (3 if defect == "prefixsibs" else 2):
            stems = (stems + [x for x in FILE_POOL if x[1] not in [y[1] for y in stems]])[:(3 if defect == "prefixsibs" else 2)]
    if defect == "emptyroot":
        ver = ver or "v1"
        pkg = ".".join(ns + [name, ver])
        d = pkg.replace(".", "/")
        sub = sub or "admin"
        if len(stems) < 2:
            stems = (stems + [x for x in FILE_POOL if x[1] not in [y[1] for y in stems]])[:r.randint(2, 3)]
    for k, (stem, _) in enumerate(stems):
        p = pkg + "." + sub if (sub and k == len(stems) - 1 and k > 0) else pkg
        if defect == "emptyroot" and k > 0:
            p = pkg + "." + sub
        if defect == "siblings":
            p = pkg + "." + ["alpha", "apple", "alpha"][k % 3]
        if defect == "prefixsibs":
            # sibling sub-packages where one NAME is a textual prefix of the other (common / common_types, type / types);
            # optionally a file in the root package first
            p = pkg if (k == 0 and sibs_root) else pkg + "." + sib_pair[(k + (0 if sibs_root else 1)) % 2]
        if defect == "nested" and k == len(stems) - 1:
            p = pkg + "." + sub + ".deep"
        elif defect == "nested" and k == 1 and len(stems) > 2 and nested_mid:
            p = pkg + "." + sub          # the intermediate level owns a file too (otherwise it is empty)
        f = File(f"{p.replace('.', '/')}/{stem}.proto", p, deps=list(apigen.STD_DEPS))
        # target files without any message or enum: a service-only file whose request / response messages live in a sibling
        # file, or an empty placeholder file — each still gets its types module
        if defect == "emptyroot" and k == 0:
            # a target file in the API ROOT package that declares nothing (only a file-level resource definition)
            f.resource_def("files.example.com/Vault", ["vaults/{vault}"])
            bare.add(k)
        elif k > 0 and (defect == "nomsg" or r.random() < 0.1) and files[0].proto.message_type:
            f.dep(files[0].proto.name)
            bare.add(k)
        else:
            mi += 1
            m = f.message(f"Msg{mi}")
            m.field("name", 1, "string")
        files.append(f)
    if defect == "nested" and len(files) == 1:
        f = File(f"{d}/top.proto", pkg, deps=list(apigen.STD_DEPS))
        f.message("MsgTop").field("name", 1, "string")
        files.insert(0, f)
    rootfiles = [f for f in files if f.proto.package == pkg and (defect != "emptyroot" or f.proto.message_type)] or [f for f in files if f.proto.message_type]
    for k, (sname, _) in enumerate(svcs):
        f = files[-1 - (k % len(files))] if (defect == "subsvc" or r.random() < 0.3) else rootfiles[k % len(rootfiles)]
        s = f.service(sname, host="files.example.com", scopes="https://www.googleapis.com/auth/cloud-platform")
        owner = f if f.proto.message_type else next(x for x in files if x.proto.message_type)
        if owner is not f:
            f.dep(owner.proto.name)
        mm = owner.proto.message_type[0]
        fq = "." + owner.proto.package + "." + mm.name
        s.rpc("Get" + sname.strip("_"), fq, fq, http=("post", f"/v1/{sname.lower()}:get"), body="*")
    deps = []
    if r.random() < 0.35 or defect == "prefixdep":
        dp = pkg + r.choice(["beta1", "x", "_common"]) if defect == "prefixdep" else r.choice(["other.dep.v1", "acme.common", "zz.shared.v2"])
        df = File(f"{dp.replace('.', '/')}/{r.choice(['shared', 'common_types', 'Dep-File'])}.proto", dp, deps=[])
        dm = df.message("Shared")
        dm.field("value", 1, "string")
        deps.append(df)
        holder = next(x for x in files if x.proto.message_type)
        holder.dep(df.proto.name)
        holder.proto.message_type[0].field.add(name="shared", number=9, label=1, type=11, type_name=dm.fqn)
    params = []
    for _ in range(r.randint(0, 3)):
        params.append(r.choice(E2E_KNOWN))
    if r.random() < 0.3:
        params.append(r.choice(E2E_OVERRIDES)[0])
    for _ in range(r.choice([0, 0, 1, 2])):
        params.append(r.choice(E2E_UNKNOWN))
    if defect == "eq":
        params.append(r.choice(E2E_BAD_UNKNOWN))
    if ads:
        params = [p for p in params if opt_key(p) not in ("autogen-snippets", "old-naming") and not p.startswith("python-gapic-templates")]
        params += ["python-gapic-templates=ads-templates", r.choice(["old-naming", "autogen-snippets=false"])]
    r.shuffle(params)
    if defect == "nsrepeat" or r.random() < 0.06:
        # the namespace key repeated, dotted and plain values mixed, interleaved with other / unknown options and a name override
        params = [p for p in params if not p.startswith("python-gapic-namespace")]
        picks = r.sample(NS_OVERRIDES, r.choice([2, 2, 3]))
        if not any("." in o[0] for o in picks):
            picks[r.randrange(len(picks))] = NS_OVERRIDES[3]
        for o in picks:
            params.insert(r.randint(0, len(params)), o[0])
        if r.random() < 0.5 and not any(p.startswith("python-gapic-name=") for p in params):
            params.insert(r.randint(0, len(params)), "python-gapic-name=my_lib")
        if r.random() < 0.5:
            params.insert(r.randint(0, len(params)), r.choice(["foo=1", "paths=source_relative", "x-python-gapic-namespace=acme.books"]))
    if defect == "midmarker" or r.random() < 0.1:
        # alone, after a genuine option of the same name, repeated
        m = r.choice(E2E_MIDMARKER)
        k = r.random()
        if k < 0.35:
            params.append(m)
        elif k < 0.7:
            params = [p for p in params if not p.startswith("python-gapic-name")] + ["python-gapic-name=my_lib", r.choice(E2E_MIDMARKER[:3] + [m])]
        else:
            params += [m, r.choice(E2E_MIDMARKER), m]
    yaml = None
    if r.random() < 0.1 and ver and not ads:
        yaml = {"type": "google.api.Service", "config_version": 3, "name": "files.example.com",
                "publishing": {"library_settings": [{"version": pkg, "python_settings": {"experimental_features": {"unversioned_package_disabled": True}}}]}}
    req = apigen.request(deps + files, to_generate=[f.proto.name for f in files])
    return {"request_b64": apigen.req_b64(req), "params": params, "yaml": yaml}


def make_case(tag, i, defect=None):
    r = env.rng(tag, i)
    for _ in range(5):
        try:
            c = gen_request(r, defect)
            c["tag"] = f"{tag}#{i}"
            return c
        except apigen.Invalid:
            continue
    return None


def realise(case, params=None):
    req = apigen.req_from_b64(case["request_b64"])
    d = gen.case_dir("c11_" + env.canon_hash(case)[:12])
    return gen.with_params(req, case["params"] if params is None else params, d, service_yaml=case.get("yaml"))


def opt_key(p):
    return p.strip().split("=")[0]


def is_unknown(p):
    k = opt_key(p)
    return k not in DOCUMENTED and not k.startswith("python-gapic-")


def reference(case):
    """What the property's sentence expects, read from the input descriptors and the option list (no /repo, no model)."""
    req = apigen.req_from_b64(case["request_b64"])
    tg = [fp for fp in req.proto_file if fp.name in req.file_to_generate]
    pkgs = sorted({fp.package for fp in tg}, key=len)
    common = pkgs[0].split(".")
    for q in pkgs[1:]:
        qs = q.split(".")
        n = 0
        while n < min(len(common), len(qs)) and common[n] == qs[n]:
            n += 1
        common = common[:n]
    package = ".".join(common)       # the common package of the target files, by segments
    if not package:
        raise ValueError("target files share no package")
    segs = package.split(".")
    version = segs[-1] if len(segs) > 1 and re.fullmatch(r"v[0-9]+(p[0-9]+)?((alpha|beta)[0-9]*)?", segs[-1]) else ""
    rest = segs[:-1] if version else segs
    ns, name = rest[:-1], rest[-1]
    nsov = [val for p in case["params"] for text, kind, val in E2E_OVERRIDES if p.strip() == text and kind == "namespace"]
    if nsov:
        ns = [x for v in nsov for x in v]
    nmov = [val for p in case["params"] for text, kind, val in E2E_OVERRIDES if p.strip() == text and kind == "name"]
    if nmov:
        name = nmov[-1]
    stem2mod, svc2mod = dict(FILE_POOL + [("top", "top"), ("Library", "library"), ("import_", "import_")]), dict(SVC_POOL)
    types, services, service_modules = set(), set(), set()
    ads = any(p.strip() == "python-gapic-templates=ads-templates" for p in case["params"])
    if ads:
        root = "/".join(ns + [name] + ([version] if version else []))       # ads-templates: %namespace/%name/%version/
    else:
        root = "/".join(ns + [name + ("_" + version if version else "")])
    # file names that collide once dots are replaced (k8s_min.proto, k8s.min.proto) get a trailing underscore, in request order
    import keyword
    reserved = set(keyword.kwlist) | {"metadata", "retry", "timeout", "request", "transport"}
    seen, extra = set(), {}
    for fp in req.proto_file:
        d, _, b = fp.name.rpartition("/")
        san = b[:-len(".proto")].replace(".", "_").replace("-", "_")
        if san in reserved or osnake(san) in reserved:
            san += "_"
        n = 0
        while (d, san) in seen:
            san += "_"
            n += 1
        seen.add((d, san))
        extra[fp.name] = "_" * n
    for fp in tg:
        sub = fp.package[len(package):].strip(".").split(".") if fp.package != package else []
        stem = fp.name.split("/")[-1][:-len(".proto")]
        base = "/".join([root] + sub)
        types.add(f"{base}/types/{stem2mod[stem]}{extra[fp.name]}.py")
        for s in fp.service:
            services.add(f"{base}/services/{svc2mod[s.name]}")
            service_modules.add(svc2mod[s.name])
    transports = "grpc"
    for p in case["params"]:
        if opt_key(p) == "transport" and "=" in p:
            transports = p.strip().split("=", 1)[1]
            break
    unv_disabled = bool(case.get("yaml"))
    return {"ads": ads, "service_modules": service_modules, "n_targets": len(tg), "package": package, "root": root, "alias": "/".join(ns + [name]), "types": types, "services": services,
            "versioned": bool(version), "multi_package": len(pkgs) > 1, "metadata": any(opt_key(p) == "metadata" for p in case["params"]),
            "transports": transports.split("+"), "unversioned_disabled": unv_disabled,
            "dep_only": [fp.name for fp in req.proto_file if fp.name not in req.file_to_generate]}


def prefix_dep(case, ref):
    """a dependency-only file whose package has the target package as a string prefix without being in its package tree"""
    req = apigen.req_from_b64(case["request_b64"])
    return any(fp.name in ref["dep_only"] and fp.package.startswith(ref["package"]) and not fp.package.startswith(ref["package"] + ".")
               and fp.package != ref["package"] for fp in req.proto_file)


def py_empty(content):
    return all(not l.strip() or l.strip().startswith("#") for l in content.split("\n"))


SCAFFOLD_TOP = {"docs", "tests", "scripts", "samples", "testing"}
SCAFFOLD_FILES = {"setup.py", "noxfile.py"}


def oracle(ctx, case, res, ref):
    """The property's own sentence on one response. Returns number of violations reported."""
    v0 = len(ctx.violations)
    viol = lambda what, sig=None: ctx.violation(what, case, sig)
    names = [f.name for f in res.file]
    dup = sorted({n for n in names if names.count(n) > 1})
    if dup:
        viol(f"duplicate response file names {dup[:3]}")
    for n in names:
        segs = n.split("/")
        if n.startswith("/") or any(s in ("", ".", "..") for s in segs) or "\\" in n:
            viol(f"file name {n!r} is not relative and normalised")
    import posixpath
    byfile = {}
    for n in names:
        byfile.setdefault(posixpath.normpath(n), []).append(n)
    for k, v in byfile.items():
        if len(v) > 1:
            viol(f"two response names denote the same file {k!r}: {v}")
    nameset = set(names)
    root, alias = ref["root"], ref["alias"]
    for n in names:
        if not n.endswith(".py"):
            continue
        top = n.split("/")[0]
        under = n.startswith(root + "/") or (n.startswith(alias + "/") and not ref["unversioned_disabled"])
        if not under and not (n in SCAFFOLD_FILES or top in SCAFFOLD_TOP):
            viol(f"Python source {n!r} is neither under {root}/ (or the unversioned {alias}/) nor part of the fixed scaffolding")
        if under:
            base = root if n.startswith(root + "/") else alias
            parts = n[len(base) + 1:].split("/")[:-1]
            for k in range(len(parts) + 1):
                dname = "/".join([base] + parts[:k])
                if dname + "/__init__.py" not in nameset:
                    viol(f"directory {dname} holds Python sources ({n}) but no __init__.py is emitted for it")
                    break
    got_types = {n for n in names if re.fullmatch(re.escape(root) + r"/(?:[^/]+/)*types/[^/]+\.py", n) and not n.endswith("/__init__.py")}
    if got_types != ref["types"]:
        extra, missing = sorted(got_types - ref["types"]), sorted(ref["types"] - got_types)
        sig = None
        if extra and not missing and prefix_dep(case, ref):
            sig = "files.dependency_package_string_prefix"
        if missing and not extra and all(m.count("/") > root.count("/") + 3 for m in missing):
            sig = "files.nested_subpackage"
        viol(f"types modules: unexpected {extra}, missing {missing} (one per target proto, none for dependency-only files {ref['dep_only'][-2:]})", sig)
    if got_types == ref["types"] and len(got_types) != ref["n_targets"]:
        # the expected module paths of two target files coincide: files of one directory whose names agree in snake case
        viol(f"{ref['n_targets']} target proto files but {len(got_types)} types modules {sorted(t.split('/')[-1] for t in got_types)}: "
             "two files whose names agree in snake case share one module", "files.module_name_case_collision")
    got_svcs = {m.group(1) for n in names for m in [re.match("(" + re.escape(root) + r"/(?:[^/]+/)*services/[^/]+)/", n)] if m}
    if got_svcs != ref["services"]:
        viol(f"service packages: unexpected {sorted(got_svcs - ref['services'])}, missing {sorted(ref['services'] - got_svcs)}")
    if not ref["ads"]:
        # the default tree documents every service in docs/<name>_<version>/<service>.rst
        for m in sorted(ref["service_modules"]):
            doc = f"docs/{root.split('/')[-1]}/{m}.rst"
            if doc not in nameset:
                viol(f"service module {m!r} has its package but {doc} is not emitted")
    for sdir in ref["services"]:
        for need in ("__init__.py", "client.py", "transports/__init__.py", "transports/base.py"):
            if f"{sdir}/{need}" not in nameset:
                viol(f"service package {sdir} lacks {need}")
    for f in res.file:
        b = f.name.split("/")[-1]
        if b.startswith("_") and b != "__init__.py" and f.name not in ref["types"] and not any(
                b in (m + ".rst", "test_" + m + ".py") for m in ref["service_modules"] if m.startswith("_")):
            viol(f"underscore-prefixed file emitted that is neither the module of a target proto nor named after a service: {f.name}")
        if not (b == "__init__.py" or b == "py.typed") and py_empty(f.content):
            viol(f"empty module emitted: {f.name}")
    if not (res.supported_features & 1):
        viol("supported_features does not advertise FEATURE_PROTO3_OPTIONAL")
    # (the ads tree ships its gapic_metadata.json.j2 commented out: nothing to emit there)
    if not ref["ads"] and ref["metadata"] != any(n.endswith("gapic_metadata.json") for n in names):
        viol(f"gapic_metadata.json present={not ref['metadata']} but option metadata={ref['metadata']}")
    return len(ctx.violations) - v0


def model_inputs(case):
    req = apigen.req_from_b64(case["request_b64"])
    files = coq.lst(f"mkPF {coq.s(fp.name)} {coq.s(fp.package)} {coq.slist([s.name for s in fp.service])}" for fp in req.proto_file)
    return files, coq.slist(list(req.file_to_generate))


def err_enum(err):
    if "too many values to unpack" in err:
        return "EBadOption"
    if "do not share a common root package" in err:
        return "ENoCommonRoot"
    if "All protos must have the same proto package" in err:
        return "EUnversionedMulti"
    return None


def run_e2e(ctx, cases, tag="c11e2e"):
    jobs = []
    nstripped = 0
    for c in cases:
        jobs.append((c, None))
        # differential run without the unknown options (quick tier: the first 8 such cases)
        if any(is_unknown(p) for p in c["params"]) and (ctx.tier != "quick" or nstripped < 8):
            jobs.append((c, [p for p in c["params"] if not is_unknown(p)]))
            nstripped += 1
    results = gen.pmap(lambda j: gen.run_generator(realise(j[0], j[1])), jobs)
    by = {}
    for (c, ps), r in zip(jobs, results):
        by.setdefault(c["tag"], {})["base" if ps is None else "stripped"] = r
    checks = []
    for c in cases:
        res, err = by[c["tag"]]["base"]
        case = {k: c[k] for k in ("request_b64", "params", "yaml", "tag")}
        try:
            ref = reference(c)
        except Exception as e:  # noqa
            ctx.features["e2e-unreferenced"] += 1
            continue
        files, tg = model_inputs(c)
        unknown = [p for p in c["params"] if is_unknown(p)]
        feats = ["e2e", f"e2e ns={len(ref['root'].split('/')) - 1}", "e2e versioned" if ref["versioned"] else "e2e unversioned",
                 f"e2e targets={len(ref['types'])}", f"e2e services={len(ref['services'])}"]
        feats += ["e2e dependency-only own file"] if any(not d.startswith("google/") for d in ref["dep_only"]) else []
        feats += ["e2e unknown options"] if unknown else []
        feats += [("e2e ads-templates " + ("versioned" if ref["versioned"] else "unversioned"))] if ref["ads"] else []
        _req = apigen.req_from_b64(c["request_b64"])
        _bare = [fp for fp in _req.proto_file if fp.name in _req.file_to_generate and not fp.message_type and not fp.enum_type]
        feats += ["e2e target file without messages: " + ("service-only" if any(fp.service for fp in _bare) else "empty")] if _bare else []
        feats += ["e2e sub-package"] if any("/types/" in t and t.count("/") > ref["root"].count("/") + 2 for t in ref["types"]) else []
        ctx.case({"e2e": env.canon_hash(case)}, nontrivial=True, feature=feats)
        tpl = "ads_templates" if ref["ads"] else "default_templates"
        mterm = (f"generate {tpl} {files} {tg} {coq.s(gen_param(c))} {coq.b(ref['unversioned_disabled'])} false")
        if res is None:
            enum = err_enum(err)
            bad_unknown = [p for p in unknown if p.count("=") > 1]
            if enum == "EBadOption" and bad_unknown:
                ctx.violation(f"unknown option {bad_unknown[0]!r} is not ignored: generation fails with ValueError (too many values to unpack)",
                              case, "options.unknown_value_with_equals")
            elif "KeyError" in err and "generate_sample_specs" in err and any(s.count("/") > ref["root"].count("/") + 2 for s in ref["services"]):
                ctx.violation("generation fails (KeyError in samplegen.generate_sample_specs) when a service lives in a proto sub-package "
                              "and snippets are generated: nothing is emitted", case, "samples.service_in_subpackage")
            elif enum == "EUnversionedMulti" and prefix_dep(c, ref):
                ctx.violation("generation fails (ValueError: All protos must have the same proto package) because a dependency-only file whose "
                              "package merely has the target package as a string prefix is taken for a target", case,
                              "files.dependency_package_string_prefix")
            elif enum == "EUnversionedMulti" and not ref["versioned"] and ref["multi_package"]:
                # documented refusal: target files in several packages need a version segment to share
                ctx.features["e2e refused: unversioned sub-packages"] += 1
            else:
                ctx.violation(f"generation failed: {gen.error_kind(err)}: {err.strip().splitlines()[-1][:200] if err.strip() else ''}", case)
            if enum:
                checks.append((f"{c['tag']}: failure kind", f"is_err ({mterm}) {enum}"))
            continue
        names = [f.name for f in res.file]
        lib = [n for n in names if not n.startswith("samples/generated_samples/")]
        checks.append((f"{c['tag']}: response names", f"on_ok ({mterm}) (fun r => response_ok (fst r) {coq.slist(lib)} && Nat.eqb (snd r) {int(res.supported_features)})"))
        checks.append((f"{c['tag']}: every name normalised", f"forallb normalised {coq.slist(names)}"))
        oracle(ctx, case, res, ref)
        if "stripped" in by[c["tag"]]:
            res2, err2 = by[c["tag"]]["stripped"]
            if res2 is None:
                ctx.oblige(f"{c['tag']}: generation without the unknown options succeeds", False, err2[-300:], "T1")
            else:
                a, b = gen.files_of(res), gen.files_of(res2)
                if list(a) != list(b) or any(a[k] != b[k] for k in a) or res.supported_features != res2.supported_features:
                    diff = [k for k in set(a) | set(b) if a.get(k) != b.get(k)]
                    ctx.violation(f"unknown options {unknown} change the response (differs in {sorted(diff)[:4]})", case)
    return checks


def gen_param(c):
    """The option string the generator actually receives (gen.with_params joins the fragments and adds the yaml path)."""
    return realise(c).parameter


def eval_e2e(ctx, checks, tag, ncases):
    failing, errors, nf = coq.eval_checks(tag, IMPORTS, "", checks, chunk=10)
    ctx.oblige(f"T1 response file names / supported_features / failure kind = model ({len(checks)} comparisons over {ncases} requests)",
               not failing and not errors and len(checks) > 0, "; ".join((failing + errors)[:6]), "T1")
    ctx.notes[f"{tag}_disagreements"] = failing[:20]


def load_corpus():
    """corpus/C11/*.json: minimised cases that run first (the witnesses of repaired defects, so that a regression is reported)."""
    out = []
    d = os.path.join(env.VERIF, "corpus", "C11")
    for f in sorted(os.listdir(d)) if os.path.isdir(d) else []:
        if f.endswith(".json"):
            c = json.load(open(os.path.join(d, f)))["case"]
            if "sequence" in c:
                continue
            out.append({"request_b64": c["request_b64"], "params": c.get("params") or [], "yaml": c.get("yaml"), "tag": c.get("tag", f)})
    return out


def load_corpus_sequences():
    out = []
    d = os.path.join(env.VERIF, "corpus", "C11")
    for f in sorted(os.listdir(d)) if os.path.isdir(d) else []:
        if f.endswith(".json"):
            c = json.load(open(os.path.join(d, f)))["case"]
            if "sequence" in c:
                out.append({"sequence": c["sequence"], "tag": c.get("tag", f)})
    return out


# ------------------------------------------------------------------ one Generator object serving several APIs
def make_sequence(tag, i):
    """2-3 different requests (default templates, no yaml) to be served by ONE Generator instance, one after the other."""
    r = env.rng(tag, i)
    seq, roots, want = [], set(), r.choice([2, 3])
    for j in range(40):
        if len(seq) == want:
            break
        c = make_case(f"{tag}-m{i}", j)
        if not c or c.get("yaml") or any("templates" in p or opt_key(p) in ("autogen-snippets", "old-naming") or p.count("=") > 1 for p in c["params"]):
            continue
        c["params"] = c["params"] + ["autogen-snippets=false"]       # keeps the in-process renders short
        try:
            root = reference(c)["root"]
        except Exception:  # noqa
            continue
        if root in roots:
            continue
        roots.add(root)
        seq.append({"request_b64": c["request_b64"], "params": c["params"]})
    return {"sequence": seq, "tag": f"{tag}#{i}"} if len(seq) >= 2 else None


def run_sequences(ctx, seqs):
    """T2 + oracle: the file set is a function of the request for the Generator as an object too."""
    from google.protobuf.compiler import plugin_pb2
    def call(sq):
        reqs = [apigen.req_b64(realise({"request_b64": m["request_b64"], "params": m["params"], "yaml": None})) for m in sq["sequence"]]
        try:
            return gen.impl("c11seq", {"sequences": [reqs]}, timeout=600)[0]
        except Exception as e:  # noqa
            return {"error": f"child failed: {e}"[-600:], "shared": [], "fresh": []}
    checks = []
    for sq, o in zip(seqs, gen.pmap(call, seqs)):
        case = {"sequence": sq["sequence"], "tag": sq["tag"]}
        ctx.case({"sequence": env.canon_hash(case)}, nontrivial=True, feature=[f"generator reuse: {len(sq['sequence'])} APIs through one Generator"])
        if o.get("error"):
            ctx.oblige(f"T2 {sq['tag']}: one Generator serves the whole sequence", False, o["error"])
            continue
        for k, (m, sh, fr) in enumerate(zip(sq["sequence"], o["shared"], o["fresh"])):
            c = {"request_b64": m["request_b64"], "params": m["params"], "yaml": None, "tag": f"{sq['tag']}[{k}]"}
            vcase = dict(case, index=k)
            if sh["names"] != fr["names"] or sh["features"] != fr["features"]:
                only_s = [n for n in sh["names"] if n not in set(fr["names"])][:3]
                only_f = [n for n in fr["names"] if n not in set(sh["names"])][:3]
                ctx.violation(f"request {k + 1} of a sequence served by ONE Generator object gets other file names than from a fresh Generator: "
                              f"only with the reused object {only_s}, only with a fresh one {only_f}", vcase)
            # the property's own sentence on the response of the reused object
            try:
                ref = reference(c)
            except Exception:  # noqa
                continue
            res = plugin_pb2.CodeGeneratorResponse(supported_features=sh["features"])
            for n in sh["names"]:
                res.file.add(name=n, content="pass\n")
            oracle(ctx, vcase, res, ref)
            files, tg = model_inputs(c)
            lib = [n for n in sh["names"] if not n.startswith("samples/generated_samples/")]
            checks.append((f"{sq['tag']}[{k}]: names from the reused Generator = model plan",
                           f"on_ok (generate default_templates {files} {tg} {coq.s(gen_param(c))} false false) "
                           f"(fun r => response_ok (fst r) {coq.slist(lib)} && Nat.eqb (snd r) {sh['features']})"))
    return checks




def regen(ctx):
    U.write_case_gen()
    U.write_c11_gen()


def run(ctx):
    run_pure(ctx)
    from gv.props import c11_empty
    c11_empty.run_empty(ctx)
    cases = load_corpus()
    cases += [c for c in (make_case("C11-e2e", i) for i in range(ctx.n(14, 400))) if c]
    for k, d in enumerate(["eq", "prefixdep", "nested", "subsvc", "dotted"]):
        cases += [c for c in (make_case(f"C11-e2e-{d}", i, d) for i in range(ctx.n(1, 6))) if c]
    cases += [c for c in (make_case("C11-e2e-ads", i, "ads") for i in range(ctx.n(3, 40))) if c]
    cases += [c for c in (make_case("C11-e2e-underscore", i, "underscore") for i in range(ctx.n(3, 30))) if c]
    cases += [c for c in (make_case("C11-e2e-nomsg", i, "nomsg") for i in range(ctx.n(3, 30))) if c]
    cases += [c for c in (make_case("C11-e2e-reserved", i, "reserved") for i in range(ctx.n(3, 30))) if c]
    cases += [c for c in (make_case("C11-e2e-casepair", i, "casepair") for i in range(ctx.n(1, 6))) if c]
    cases += [c for c in (make_case("C11-e2e-siblings", i, "siblings") for i in range(ctx.n(1, 8))) if c]
    cases += [c for c in (make_case("C11-e2e-prefixsibs", i, "prefixsibs") for i in range(ctx.n(2, 16))) if c]
    cases += [c for c in (make_case("C11-e2e-emptyroot", i, "emptyroot") for i in range(ctx.n(2, 16))) if c]
    cases += [c for c in (make_case("C11-e2e-midmarker", i, "midmarker") for i in range(ctx.n(2, 16))) if c]
    cases += [c for c in (make_case("C11-e2e-nsrepeat", i, "nsrepeat") for i in range(ctx.n(2, 16))) if c]
    checks = run_e2e(ctx, cases)
    eval_e2e(ctx, checks, "c11e2e", len(cases))
    seqs = load_corpus_sequences() + [q for q in (make_sequence("C11-seq", i) for i in range(ctx.n(2, 24))) if q]
    schecks = run_sequences(ctx, seqs)
    failing, errors, nf = coq.eval_checks("c11seq", IMPORTS, "", schecks, chunk=4)
    ctx.oblige(f"T2 file names of every request of {len(seqs)} sequences served by one Generator object = model plan ({len(schecks)} comparisons)",
               not failing and not errors and len(schecks) > 0, "; ".join((failing + errors)[:6]))


def search(ctx, broken):
    """A theorem, pin or correspondence broke and no oracle failed on the regular cases: run the end-to-end oracle on many more
    requests (every package shape, sub-packages, dependency files, sanitised names, option strings)."""
    cases = [c for c in (make_case("C11-search", i) for i in range(64)) if c]
    run_e2e(ctx, cases, tag="c11search")


def replay(ctx, rep):
    c = rep.get("case", {})
    if "sequence" in c:
        schecks = run_sequences(ctx, [{"sequence": c["sequence"], "tag": c.get("tag", "replay")}])
        failing, errors, nf = coq.eval_checks("c11seqr", IMPORTS, "", schecks)
        ctx.oblige("T2 replayed sequence: names from the reused Generator = model plan", not failing and not errors, "; ".join((failing + errors)[:6]))
        return
    if "empty_case" in c:
        from gv.props import c11_empty
        c11_empty.FIXED[:] = [c["empty_case"]]
        c11_empty.run_empty(ctx)
        return
    if "request_b64" in c:
        case = {"request_b64": c["request_b64"], "params": c.get("params", []), "yaml": c.get("yaml"), "tag": c.get("tag", "replay")}
        checks = run_e2e(ctx, [case], tag="c11replay")
        if checks:
            eval_e2e(ctx, checks, "c11replay", 1)
        return
    run(ctx)
