"""C13 — the unit-test suite emitted with a library passes against that library (PARTIAL)."""
import json, os, re, subprocess, xml.etree.ElementTree as ET
from .. import env, coq, gen, apigen, apis, pb2synth
from ..apigen import File

RULE = ("APIs from the conventional profile of DESIGN.md section 8 (CRUD + custom + LRO + streaming + paging, resources, required fields of "
        "several kinds, reserved-word fields, keyword-named and deprecated rpcs, explicit routing, dependency-package types) x option sets that "
        "change the surface (transports, mixins via service YAML, numeric enums, add-iam-methods, retry config, ads templates); for each the "
        "emitted tests/unit suite is run with pytest in a scratch tree against the emitted package. A case = one (API, option set); distinct = "
        "distinct request+options; non-trivial = the emitted suite collected at least 50 tests. T2: uri_sample.sample_from_path_fields vs "
        "Model/Mock.v and api_core's path_template.validate vs the model's matcher on generated templates.")
TRUSTED = [
    "Model/Mock.v: model of the sample values substituted into URI templates, and of path-template matching on segments",
    "contract: google.api_core.path_template.validate agrees with Model/Mock.matches on literal/*/** segment templates (validated by T2)",
    "pytest + the emitted tests as their own judge; pb2synth.py for dependency packages",
    "PARTIAL: that the emitted suite passes for EVERY conventional API is only exercised on the generated APIs, not proved",
]
ASSUMES = ["the two excluded shapes of DESIGN.md section 8 are not generated"]

MIXIN_YAML = {"apis": [{"name": "google.longrunning.Operations"}, {"name": "google.cloud.location.Locations"}, {"name": "google.iam.v1.IAMPolicy"}],
              "http": {"rules": [{"selector": "google.longrunning.Operations.GetOperation", "get": "/v1/{name=operations/*}"},
                                 {"selector": "google.longrunning.Operations.ListOperations", "get": "/v1/{name=operations}"},
                                 {"selector": "google.longrunning.Operations.CancelOperation", "post": "/v1/{name=operations/*}:cancel", "body": "*"},
                                 {"selector": "google.longrunning.Operations.DeleteOperation", "delete": "/v1/{name=operations/*}"},
                                 # a rule with no standard-verb binding: the rpc is exposed, REST has nothing to call
                                 {"selector": "google.longrunning.Operations.WaitOperation", "custom": {"kind": "HEAD", "path": "/v1/{name=operations/*}:wait"}},
                                 {"selector": "google.cloud.location.Locations.GetLocation", "get": "/v1/{name=projects/*/locations/*}",
                                  "additional_bindings": [{"get": "/v1/{name=organizations/*/locations/*}"}]},
                                 {"selector": "google.cloud.location.Locations.ListLocations", "get": "/v1/{name=projects/*}/locations"},
                                 # primary binding without a body, additional binding with one — and the other way round for SetIamPolicy
                                 {"selector": "google.iam.v1.IAMPolicy.GetIamPolicy", "get": "/v1/{resource=projects/*}:getIamPolicy",
                                  "additional_bindings": [{"post": "/v1/{resource=projects/*/things/*}:getIamPolicy", "body": "*"}]},
                                 {"selector": "google.iam.v1.IAMPolicy.SetIamPolicy", "post": "/v1/{resource=projects/*}:setIamPolicy", "body": "*",
                                  "additional_bindings": [{"get": "/v1/{resource=projects/*/things/*}:setIamPolicy"}]},
                                 {"selector": "google.iam.v1.IAMPolicy.TestIamPermissions", "post": "/v1/{resource=projects/*}:testIamPermissions", "body": "*"}]}}


def conventional_plus(r, idx):
    api = apis.conventional(r, features={"lro", "streaming", "custom"} if idx % 3 == 0 else None)
    feats = list(api.info["features"])
    main, svc = api.main, api.services[0]
    deps = []
    res = next(iter(api.info["resources"].items()))
    k = idx % 4
    # every API: a GET with REQUIRED primitive fields that travel as query parameters (the standard create/lookup shape)
    lk = main.message("LookupThingRequest")
    lk.field("name", 1, "string", required=True).field("region", 2, "string", required=True).field("limit", 3, "int32", required=True)
    lk.field("view", 4, "string")
    # REQUIRED query parameters of every scalar kind the required-fields table distinguishes (the emitted *_rest_required_fields tests)
    lk.field("revision", 5, "int64", required=True).field("big", 6, "uint64", required=True).field("flag", 7, "bool", required=True)
    lk.field("ratio", 8, "double", required=True).field("fx", 9, "fixed64", required=True).field("small", 10, "sint32", required=True)
    lkr = main.message("LookupThingResponse"); lkr.field("found", 1, "bool")
    # every scalar shape the emitted response assertions distinguish: repeated bool / double / float / enum-free ints / bytes / strings
    lkr.field("bits", 10, "bool", repeated=True).field("weights", 11, "double", repeated=True).field("ratio", 12, "float")
    lkr.field("ratios", 13, "float", repeated=True).field("counts", 14, "int64", repeated=True).field("blob", 15, "bytes").field("notes", 16, "string", repeated=True)
    # a body message reaching a repeated google.protobuf.Any before a singular one (google.rpc.Status.details), a Struct, a FieldMask
    main.dep("google/rpc/status.proto"); main.dep("google/protobuf/struct.proto"); main.dep("google/protobuf/field_mask.proto")
    lkr.field("last_status", 2, ".google.rpc.Status").field("labels", 3, ".google.protobuf.Struct").field("mask", 4, ".google.protobuf.FieldMask")
    svc.rpc("LookupThing", lk.fqn, lkr.fqn, http=("get", "/v1/{name=things/*}:lookup"), sigs=["name,region"])
    mk = main.message("MakeThingRequest")
    mk.field("parent", 1, "string", required=True).field("thing", 2, lkr.fqn, required=True).field("thing_id", 3, "string", required=True)
    svc.rpc("MakeThing", mk.fqn, lkr.fqn, http=("post", "/v1/{parent=projects/*}/things"), body="thing", sigs=["parent,thing,thing_id"])
    feats.append("required-query-params")
    # flattened map / repeated / message arguments of a same-package request
    tg = main.message("TagThingRequest")
    tg.field("name", 1, "string").map_field("labels", 2, "string", "string").field("tags", 3, "string", repeated=True)
    tg.field("origin", 4, lkr.fqn).map_field("weights", 5, "string", "int32")
    # a map whose value message (and a map whose value enum) is declared in ANOTHER file of the API than everything else the method uses
    tf = File(f"{api.dir}/marks.proto", api.package, deps=list(apigen.STD_DEPS))
    mark = tf.message("Mark"); mark.field("label", 1, "string")
    grade = tf.enum("Grade", ["GRADE_UNSPECIFIED", "GRADE_A", "GRADE_B"])
    api.files.append(tf); main.dep(tf.proto.name)
    tg.map_field("marks", 6, "string", mark.fqn)
    snail = main.message("MarkedThing"); snail.map_field("grades", 1, "string", ("enum", grade)).field("title", 2, "string")
    tg.field("marked", 7, snail.fqn)
    svc.rpc("TagThing", tg.fqn, lkr.fqn, http=("post", "/v1/{name=things/*}:tag"), body="*",
            sigs=["name,labels,tags", "name,origin,weights", "name,marks", "marked"])
    feats.append("flattened-map-and-repeated")
    # a paged method whose page field is a map (the aggregated-list shape): the emitted REST pager test reads the pager after iteration
    sl = main.message("ThingsScopedList"); sl.field("things", 1, lkr.fqn, repeated=True).field("note", 2, "string")
    ag = main.message("AggregatedListThingsRequest"); ag.field("parent", 1, "string").field("page_size", 2, "int32").field("page_token", 3, "string")
    agr = main.message("AggregatedListThingsResponse"); agr.map_field("items", 1, "string", sl.fqn).field("next_page_token", 2, "string")
    svc.rpc("AggregatedListThings", ag.fqn, agr.fqn, http=("get", "/v1/{parent=projects/*}/aggregated/things"), sigs=["parent"])
    feats.append("map-valued-paged-method")
    # paged methods whose page field is a repeated enum / a repeated scalar
    kd = main.enum("ThingKind", ["THING_KIND_UNSPECIFIED", "THING_KIND_SMALL", "THING_KIND_LARGE"])
    lkq = main.message("ListThingKindsRequest"); lkq.field("parent", 1, "string").field("page_size", 2, "int32").field("page_token", 3, "string")
    lkp = main.message("ListThingKindsResponse"); lkp.field("kinds", 1, ("enum", kd), repeated=True).field("next_page_token", 2, "string")
    svc.rpc("ListThingKinds", lkq.fqn, lkp.fqn, http=("get", "/v1/{parent=projects/*}/thingKinds"), sigs=["parent"])
    lnp = main.message("ListThingNamesResponse"); lnp.field("names", 1, "string", repeated=True).field("next_page_token", 2, "string")
    lnq = main.message("ListThingNamesRequest"); lnq.field("parent", 1, "string").field("page_size", 2, "int32").field("page_token", 3, "string")
    svc.rpc("ListThingNames", lnq.fqn, lnp.fqn, http=("get", "/v1/{parent=projects/*}/thingNames"), sigs=["parent"])
    # a LATER paged method whose item type lives in another file of the API than every other paged method's types
    lmq = main.message("ListMarksRequest"); lmq.field("parent", 1, "string").field("page_size", 2, "int32").field("page_token", 3, "string")
    lmp = main.message("ListMarksResponse"); lmp.field("marks", 1, mark.fqn, repeated=True).field("next_page_token", 2, "string")
    svc.rpc("ListMarks", lmq.fqn, lmp.fqn, http=("get", "/v1/{parent=projects/*}/marks"), sigs=["parent"])
    feats.append("enum-and-scalar-paged-methods")
    # two path variables nested under the SAME request sub-message (plus a third level)
    pos = main.message("ThingPosition"); pos.field("shelf", 1, "string").field("thing_id", 2, "string").field("slot", 3, "int32")
    mv = main.message("MoveThingAroundRequest"); mv.field("position", 1, pos.fqn).field("note", 2, "string")
    svc.rpc("MoveThingAround", mv.fqn, lkr.fqn, http=("post", "/v1/{position.shelf=shelves/*}/things/{position.thing_id}:moveAround"), body="*",
            sigs=["position"])
    feats.append("two-path-variables-one-parent")
    if idx % 2 == 1:
        # the service declares google.api.api_version: every call also carries the x-goog-api-version header
        from google.api import client_pb2
        svc.proto.options.Extensions[client_pb2.api_version] = "v1_20240506"
        feats.append("api-version")
    if k in (0, 2):
        # required fields of several kinds + reserved-word fields, custom :verb method, deprecated, keyword-named rpc
        req = main.message("CheckThingRequest")
        req.field("name", 1, "string", required=True)
        req.field("count", 2, "int32", required=True).field("ratio", 3, "double", required=True).field("flag", 4, "bool", required=True)
        en = req.enum("Mode", ["MODE_UNSPECIFIED", "MODE_FAST", "MODE_SAFE"])
        req.field("mode", 5, ("enum", en), required=True).field("tags", 6, "string", repeated=True, required=True)
        req.field("class", 7, "string").field("import", 8, "int64").field("type", 9, "string", optional=True)
        resp = main.message("CheckThingResponse"); resp.field("ok", 1, "bool").field("from", 2, "string")
        svc.rpc("CheckThing", req.fqn, resp.fqn, http=("post", "/v1/{name=things/*}:check"), body="*", sigs=["name", "name,count"], deprecated=(k == 2))
        rq2 = main.message("ImportRequest"); rq2.field("name", 1, "string")
        svc.rpc("Import", rq2.fqn, resp.fqn, http=("post", "/v1/{name=things/*}:import"), body="*", sigs=["name"])
        feats += ["required-kinds", "reserved-fields", "keyword-rpc"] + (["deprecated"] if k == 2 else [])
    if k in (1, 2):
        main.dep("google/api/routing.proto")
        rq = main.message("RouteThingRequest"); rq.field("name", 1, "string").field("table", 2, "string")
        rp = main.message("RouteThingResponse"); rp.field("ok", 1, "bool")
        svc.rpc("RouteThing", rq.fqn, rp.fqn, http=("post", "/v1/{name=things/*}:route"), body="*",
                routing=[("name", "{thing_id=things/*}"), ("table", None), ("table", "projects/*/{table_location=instances/*}/tables/*")])
        # parameters on DIFFERENT fields whose templates also match the empty string (the AIP-4222 {routing_id=**} shape)
        rq3 = main.message("MoveThingRequest"); rq3.field("name", 1, "string").field("other", 2, "string").field("app_profile_id", 3, "string")
        svc.rpc("MoveThing", rq3.fqn, rp.fqn, http=("post", "/v1/{name=things/*}:move"), body="*",
                routing=[("name", "{shelf_id=things/*}"), ("other", "{other=**}"), ("app_profile_id", "{routing_id=**}")])
        feats.append("explicit-routing")
    if k in (1, 3):
        rq = main.message("GetGadgetRequest")
        rq.field("project_number", 1, "int64", required=True).field("gadget_id", 2, "string", required=True).field("archived", 3, "bool")
        gd = main.message("Gadget"); gd.field("name", 1, "string").field("size", 2, "int32")
        svc.rpc("GetGadget", rq.fqn, gd.fqn, http=("get", "/v1/projects/{project_number}/gadgets/{gadget_id}"), sigs=["project_number,gadget_id"])
        rq2 = main.message("FlagGadgetRequest")
        rq2.field("project_number", 1, "uint32", required=True).field("archived", 2, "bool", required=True).field("note", 3, "string")
        svc.rpc("FlagGadget", rq2.fqn, gd.fqn, http=("post", "/v1/projects/{project_number}/flags/{archived}:flag"), body="*")
        feats.append("non-string-path-fields")
    if k == 3:
        dep = File("acme/common/types.proto", "acme.common")
        mo = dep.message("Money"); mo.field("units", 1, "int64").field("currency", 2, "string")
        tgt = main.proto.message_type[0]
        main.dep(dep.proto.name)
        f = tgt.field.add(); f.name, f.number, f.label, f.type, f.type_name = "price", 70, 1, 11, mo.fqn
        deps.append(dep)
        feats.append("dependency-package")
    return api, deps, feats


def option_sets(idx, quick):
    sets = [
        {"params": ["transport=grpc+rest"], "yaml": None, "retry": None},
        {"params": ["transport=rest", "rest-numeric-enums"], "yaml": MIXIN_YAML, "retry": None},
        {"params": ["transport=grpc"], "yaml": MIXIN_YAML, "retry": "svc"},
        {"params": ["transport=grpc+rest", "rest-numeric-enums", "metadata"], "yaml": None, "retry": "svc"},
        {"params": ["transport=grpc+rest", "add-iam-methods"], "yaml": None, "retry": None},
        {"params": ["transport=grpc", "python-gapic-templates=ads-templates", "old-naming"], "yaml": None, "retry": None},
    ]
    if quick:
        return [sets[1] if idx % 2 else sets[3], sets[idx % 3 if idx % 3 != 1 else 4]]
    return sets


def run_suite(args):
    idx, oi, req, opt, deps, svc_full = args
    d = gen.case_dir(f"c13-{idx}-{oi}")
    retry = None
    if opt["retry"]:
        retry = {"methodConfig": [{"name": [{"service": svc_full}], "timeout": "30s",
                                   "retryPolicy": {"maxAttempts": 3, "initialBackoff": "0.2s", "maxBackoff": "5s", "backoffMultiplier": 2,
                                                   "retryableStatusCodes": ["UNAVAILABLE", "DEADLINE_EXCEEDED"]}}]}
    r2 = gen.with_params(req, opt["params"], d, service_yaml=opt["yaml"], retry=retry)
    case = {"api_index": idx, "options": opt["params"], "service_yaml": opt["yaml"], "retry": retry, "request_b64": apigen.req_b64(r2)}
    out, err = gen.run_generator(r2, cwd=d)
    if out is None:
        gen.rm(d)
        return {"case": case, "gen_error": f"{gen.error_kind(err)}: {(err.strip().splitlines() or [''])[-1][:200]}"}
    root = os.path.join(d, "out")
    gen.materialize(out, root)
    for dp in deps:
        pb2synth.write_pb2(root, dp.proto)
    asserts = extract_asserts(root)
    junit = os.path.join(d, "junit.xml")
    e = env.child_env()
    e["PYTHONPATH"] = root
    p = subprocess.run([env.PY, "-m", "pytest", "tests/unit", "-q", "-p", "no:cacheprovider", "-n", "4", "--timeout=600",
                        f"--junitxml={junit}", "-o", "asyncio_default_fixture_loop_scope=function"],
                       cwd=root, env=e, stdout=subprocess.PIPE, stderr=subprocess.STDOUT, text=True, timeout=1800)
    res = {"case": case, "rc": p.returncode, "tail": p.stdout[-1500:], "failed": [], "total": 0, "asserts": asserts}
    try:
        for tc in ET.parse(junit).getroot().iter("testcase"):
            res["total"] += 1
            bad = [c for c in tc if c.tag in ("failure", "error")]
            if bad:
                res["failed"].append({"test": tc.get("name"), "msg": (bad[0].get("message") or "")[:300]})
    except Exception as ex:  # noqa
        res["junit_error"] = str(ex)
    gen.rm(d)
    return res


def extract_asserts(root):
    """T1: every `assert` of an emitted test function that compares an attribute of `response` with a value, as
    (client method called in that function, attribute, form); form is one of is / eq / isclose / isclose-each."""
    import ast
    out, errors = set(), []
    for dp, _, files in os.walk(os.path.join(root, "tests", "unit")):
        for fn in files:
            if not (fn.startswith("test_") and fn.endswith(".py")):
                continue
            try:
                tree = ast.parse(open(os.path.join(dp, fn), encoding="utf-8").read())
            except SyntaxError as e:
                errors.append(f"{fn}: {e}")
                continue
            for f in ast.walk(tree):
                if not isinstance(f, (ast.FunctionDef, ast.AsyncFunctionDef)) or not f.name.startswith("test_"):
                    continue
                called = None
                for n in ast.walk(f):
                    if (isinstance(n, ast.Call) and isinstance(n.func, ast.Attribute) and isinstance(n.func.value, ast.Name)
                            and n.func.value.id == "client" and not n.func.attr.startswith("__") and called is None):
                        called = n.func.attr
                def resp_attr(e):
                    return e.attr if isinstance(e, ast.Attribute) and isinstance(e.value, ast.Name) and e.value.id == "response" else None
                for n in ast.walk(f):
                    if not isinstance(n, ast.Assert):
                        continue
                    t = n.test
                    if isinstance(t, ast.Compare) and len(t.ops) == 1 and resp_attr(t.left):
                        form = {"Is": "is", "Eq": "eq"}.get(type(t.ops[0]).__name__)
                        if form:
                            out.add((called or "", resp_attr(t.left), form))
                    elif (isinstance(t, ast.Call) and isinstance(t.func, ast.Attribute) and t.func.attr == "isclose" and t.args):
                        a0 = t.args[0]
                        if resp_attr(a0):
                            out.add((called or "", resp_attr(a0), "isclose"))
                        elif isinstance(a0, ast.Subscript) and resp_attr(a0.value):
                            out.add((called or "", resp_attr(a0.value), "isclose-each"))
    return {"rows": sorted(out), "errors": errors}


def check_asserts(ctx, jobs, results):
    """Compare the extracted assertion forms with Model/Asserts.v assert_form on (type, repeated) of the response field."""
    FORM = {"is": "AIs", "eq": "AEq", "isclose": "AIsClose", "isclose-each": "AIsCloseEach"}
    checks, seen, unmapped = [], set(), 0
    for j, res in zip(jobs, results):
        a = res.get("asserts")
        if not a:
            continue
        for e in a["errors"]:
            ctx.oblige("T1 emitted tests parse", False, e)
        req = j[2]
        msgs = {}
        def walk(prefix, m):
            msgs[prefix + "." + m.name] = m
            for n in m.nested_type:
                walk(prefix + "." + m.name, n)
        methods = {}
        for fp in req.proto_file:
            for m in fp.message_type:
                walk("." + fp.package, m)
            if fp.name in req.file_to_generate:
                for sv in fp.service:
                    for m in sv.method:
                        methods.setdefault(m.name.lower(), []).append(m)
        for called, attr, form in a["rows"]:
            cands = methods.get(called.lstrip("_").replace("_", "").lower(), [])
            hit = None
            for m in cands:
                om = msgs.get(m.output_type)
                if om is None:
                    continue
                for f in om.field:
                    if f.name in (attr, attr[:-1] if attr.endswith("_") else attr):
                        hit = (m, om, f)
            if hit is None:
                unmapped += 1
                continue
            m, om, f = hit
            key = (f.type, f.label == 3, form)
            ctx.case({"assert": [m.name, f.name, form]}, nontrivial=True, feature=f"assert-{form}" + ("-repeated" if f.label == 3 else ""))
            if key in seen:
                continue
            seen.add(key)
            checks.append((f"api #{j[0]} {m.name}: `response.{attr}` (type {f.type}, repeated={f.label == 3}) is compared with form {form}",
                           f"aform_eqb (assert_form {f.type} {'true' if f.label == 3 else 'false'}) {FORM[form]}"))
    ctx.notes["asserts_unmapped"] = unmapped
    if not checks:
        ctx.oblige("T1 emitted response assertions were extracted", False, "no assertion of a response field was found in any emitted suite")
        return
    failing, errors, nf = coq.eval_checks("c13asserts", "From GV Require Import Model.Asserts.", "", checks)
    ctx.oblige(f"T1 emitted response-field assertions = assert_form on {len(checks)} distinct (type, repeated, form) shapes",
               not failing and not errors, "; ".join((failing + errors)[:6]))


def signature_of(failed, params):
    names = " ".join(f["test"] for f in failed)
    if "add-iam-methods" in params and re.search(r"iam_policy|test_iam_permissions", names) and all(re.search(r"iam|permissions", f["test"]) for f in failed):
        return "tests.add_iam_methods_asyncio_keyerror"
    return None


def run_pure(ctx):
    r = env.rng("C13-pure", 0)
    cases = []
    for i in range(ctx.n(80, 400)):
        fields = []
        for j in range(r.randint(1, 3)):
            segs = []
            for _ in range(r.randint(1, 5)):
                x = r.random()
                segs.append("*" if x < 0.35 else ("**" if x < 0.45 else r.choice(["projects", "books", "v1", "locations", "a-b", "x_y", "items"])))
            fields.append([r.choice(["name", "parent", "book.name", "a.b.c"]) + str(j), "/".join(segs)])
        cases.append(fields)
    out = gen.impl("c13_pure", {"cases": cases})

    def segs_term(t):
        return coq.lst("SStar" if s == "*" else ("SDStar" if s == "**" else f"SLit {coq.s(s)}") for s in t.split("/"))
    checks = []
    for fields, got in zip(cases, out):
        ctx.case({"sample_fields": fields}, nontrivial=any("*" in t for _, t in fields), feature="sample-values")
        term = coq.lst(f"({coq.s(n)}, {segs_term(t)})" for n, t in fields)
        want = coq.lst(f"({coq.s(n)}, {coq.s(v)})" for n, v, _ in got)
        checks.append((f"sample_fields {fields}", f"list_eqb (pair_eqb String.eqb String.eqb) (sample_fields 0 {term}) {want}"))
        for (n, t), (_, v, valid) in zip(fields, got):
            checks.append((f"validate {t!r} {v!r}", f"Bool.eqb (matches {segs_term(t)} (split_on \"/\"%char {coq.s(v)})) {coq.b(valid)}"))
            if not valid:
                ctx.violation(f"sample value {v!r} does not validate against its own template {t!r}", {"fields": fields})
    failing, errors, nf = coq.eval_checks("c13pure", "From GV Require Import Model.Mock.", "", checks)
    ctx.oblige(f"T2 model = implementation on {len(checks)} evaluations of sample_from_path_fields / path_template.validate", not failing and not errors,
               "; ".join((failing + errors)[:6]))


def segs_term(t):
    return coq.lst("SStar" if x == "*" else ("SDStar" if x == "**" else f"SLit {coq.s(x)}") for x in (t or "*").split("/"))


def run_sample_request(ctx, reqs):
    """T2: HttpRule.sample_request of the real schema objects vs Model/Mock.sample_typed; oracle: every value validates."""
    outs = gen.pmap(lambda r: gen.impl("c13_sample", {"request_b64": apigen.req_b64(r)}), reqs)
    checks = []
    kinds = {"str": "PStr", "int": "PInt", "bool": "PBool"}
    for ri, out in enumerate(outs):
        for rec in out:
            if "error" in rec:
                ctx.oblige(f"sample_request of {rec['method']} binding {rec['binding']}", False, rec["error"])
                continue
            if not rec["fields"] or any(f["kind"] == "other" for f in rec["fields"]):
                continue
            ctx.case({"sample_request": rec["uri"], "kinds": [f["kind"] for f in rec["fields"]]}, nontrivial=True,
                     feature=["sample_request"] + [f"path-field-{f['kind']}" for f in rec["fields"]])
            term = coq.lst(f"({coq.s(f['path'])}, {coq.s(f['attr'])}, {kinds[f['kind']]}, {segs_term(f['template'])})" for f in rec["fields"])

            def val(f):
                if f["kind"] == "str":
                    return f"VS {coq.s(f['value'])}" if isinstance(f["value"], str) else "VB false"
                if f["kind"] == "int":
                    return f"VI {coq.nat(f['value'])}" if isinstance(f["value"], int) and not isinstance(f["value"], bool) else "VB false"
                return f"VB {coq.b(f['value'])}" if isinstance(f["value"], bool) else "VI 0%nat"
            want = coq.lst(f"({coq.s(f['path'])}, {val(f)})" for f in rec["fields"])
            checks.append((f"req#{ri} {rec['method']} {rec['uri']}: sample_request = {[(f['path'], f['value']) for f in rec['fields']]}",
                           f"list_eqb (pair_eqb String.eqb pval_eqb) (sample_typed 0 {term}) {want}"))
            # oracle: the value substituted for each variable must validate against that variable's template
            for f in rec["fields"]:
                from google.api_core import path_template as pt
                if not pt.validate(f["template"] or "*", str(f["value"])):
                    ctx.violation(f"{rec['method']}: sample value {f['value']!r} for path field {f['path']} ({f['kind']}) does not match its template "
                                  f"{f['template'] or '*'!r}", {"request_b64": apigen.req_b64(reqs[ri]), "method": rec["method"], "field": f})
                if f["kind"] != "str" and isinstance(f["value"], str):
                    ctx.violation(f"{rec['method']}: sample value for the {f['kind']} path field {f['path']} is the string {f['value']!r}",
                                  {"request_b64": apigen.req_b64(reqs[ri]), "method": rec["method"], "field": f})
    defs = ("Definition pval_eqb (a b : pval) : bool := match a, b with VS x, VS y => String.eqb x y | VI x, VI y => Nat.eqb x y "
            "| VB x, VB y => Bool.eqb x y | _, _ => false end.\n")
    failing, errors, nf = coq.eval_checks("c13sample", "From GV Require Import Model.Mock.", defs, checks)
    ctx.oblige(f"T2 HttpRule.sample_request = Model/Mock.sample_typed on {len(checks)} http bindings", not failing and not errors and len(checks) > 0,
               "; ".join((failing + errors)[:6]))


# ---------------------------------------------------------------- mock values (Model/MockDfs.v)
_PK = {1: "PkFloat", 2: "PkFloat", 3: "PkInt", 4: "PkInt", 5: "PkInt", 6: "PkInt", 7: "PkInt", 8: "PkBool", 9: "PkStr", 12: "PkBytes",
       13: "PkInt", 15: "PkInt", 16: "PkInt", 17: "PkInt", 18: "PkInt"}


def schema_terms(req, reserved):
    """(schema term, {message fqn: [(attr name, field descriptor)]}, enum table) from the INPUT descriptors."""
    msgs, enums = {}, {}

    def walk(prefix, m):
        fqn = prefix + "." + m.name
        msgs[fqn] = m
        for e in m.enum_type:
            enums[fqn + "." + e.name] = [v.number for v in e.value]
        for n in m.nested_type:
            walk(fqn, n)
    for fp in req.proto_file:
        pre = "." + fp.package if fp.package else ""
        for e in fp.enum_type:
            enums[pre + "." + e.name] = [v.number for v in e.value]
        for m in fp.message_type:
            walk(pre, m)
    target_pkgs = {fp.package for fp in req.proto_file if fp.name in req.file_to_generate}
    import os
    common = os.path.commonprefix(sorted(target_pkgs)).rstrip(".")

    def attr(fqn, f):
        # Field.name: suffixed only for proto-plus types, i.e. messages of the target package
        return f.name + "_" if f.name in reserved and fqn[1:].startswith(common) else f.name

    def kind(f):
        if f.type == 11:
            t = msgs.get(f.type_name)
            if t is not None and t.options.map_entry:
                return f"MMapEntry {coq.s(f.type_name[1:])}"
            if f.type_name == ".google.protobuf.Any":
                return "MAny"
            return f"MMsg {coq.s(f.type_name[1:])}"
        if f.type == 14:
            return "MEnum " + coq.lst(coq.z(n) for n in enums.get(f.type_name, []))
        return f"MPrim {_PK[f.type]}"

    def fterm(fqn, f):
        return f"{{| mf_name := {coq.s(attr(fqn, f))}; mf_kind := {kind(f)}; mf_rep := {coq.b(f.label == 3 and not (f.type == 11 and msgs.get(f.type_name) is not None and msgs[f.type_name].options.map_entry and False))} |}}"
    sch = coq.lst(f"({coq.s(fqn[1:])}, {coq.lst(fterm(fqn, f) for f in m.field)})" for fqn, m in msgs.items())
    return sch, msgs, fterm, len(msgs)


def mval_term(v):
    k = v["k"]
    if k == "none": return "MVNone"
    if k == "bool": return "MVBool"
    if k == "str": return f"MVStr {coq.s(v['v'])}"
    if k == "bytes": return f"MVBytes {coq.s(v['v'].encode('latin-1'))}"
    if k == "float": return None
    if k == "int": return ("INT", v["v"])
    if k == "dict":
        if [x[0] for x in v["v"]] == ["type_url", "value"] and v["v"][0][1].get("v") == "type.googleapis.com/google.protobuf.Duration":
            return "MVAnyDuration"
        return ("DICT", v["v"])
    if k == "list": return ("LIST", v["v"])
    return None


def run_mock(ctx, reqs):
    from .. import t0
    reserved = set(t0.reserved_names())
    outs = gen.pmap(lambda r: gen.impl("c13_mock", {"request_b64": apigen.req_b64(r)}), reqs)
    checks, defs = [], []
    for ri, (req, out) in enumerate(zip(reqs, outs)):
        sch, msgs, fterm, nmsgs = schema_terms(req, reserved)
        defs.append(f"Definition sch{ri} : mschema := {sch}.")
        for rec in out:
            fqn = "." + rec["message"]
            m = msgs.get(fqn)
            if m is None:
                continue
            f = next(x for x in m.field if x.name == rec["field"])
            ctx.case({"mock": rec["message"] + "." + rec["field"], "req": ri}, nontrivial=f.type in (11, 14) or f.label == 3,
                     feature=["mock-msg" if f.type == 11 else ("mock-enum" if f.type == 14 else "mock-prim")])
            if "error" in rec:
                ctx.violation(f"mock_value_original_type of {rec['message']}.{rec['field']} raised {rec['error']}",
                              {"request_b64": apigen.req_b64(req), "field": rec["message"] + "." + rec["field"]})
                continue
            # compare through a canonical rendering computed inside Coq (render_mval) vs the same rendering of the implementation's value
            checks.append((f"req#{ri} mock {rec['message']}.{rec['field']}",
                           f"match mock {nmsgs + 1} sch{ri} [] {fterm(fqn, f)} with Some (v, _) => String.eqb (render_mval v) {coq.s(render_py(rec['value']))} | None => false end"))
    defs.append(RENDER_DEF)
    failing, errors, nf = coq.eval_checks("c13mock", "From GV Require Import Model.MockDfs.\nFrom Coq Require Import ZArith.", "\n".join(defs), checks, chunk=150)
    ctx.oblige(f"T2 Field.mock_value_original_type = Model/MockDfs.mock on {len(checks)} fields of {len(reqs)} generated APIs",
               not failing and not errors and len(checks) > 0, "; ".join((failing + errors)[:6]))


def render_py(v):
    """Canonical text of a mock value (floats opaque)."""
    k = v["k"]
    if k == "none": return "N"
    if k == "bool": return "B"
    if k == "str": return "S<" + v["v"] + ">"
    if k == "bytes": return "Y<" + v["v"] + ">"
    if k == "float": return "F"
    if k == "int": return "I<" + str(v["v"]) + ">"
    if k == "dict":
        if [x[0] for x in v["v"]] == ["type_url", "value"] and v["v"][0][1].get("v") == "type.googleapis.com/google.protobuf.Duration":
            return "A"
        return "D{" + ",".join(kk + "=" + render_py(x) for kk, x in v["v"]) + "}"
    if k == "list": return "L[" + ",".join(render_py(x) for x in v["v"]) + "]"
    return "?"


RENDER_DEF = """
Fixpoint pos_dec (fuel : nat) (p : positive) (acc : string) : string :=
  match fuel with O => acc | S f =>
    let d := Z.to_nat (Z.modulo (Zpos p) 10) in
    let acc' := String (chr (48 + N.of_nat d)) acc in
    match Z.div (Zpos p) 10 with Zpos q => pos_dec f q acc' | _ => acc' end end.
Definition z_dec (z : Z) : string :=
  match z with Z0 => "0" | Zpos p => pos_dec 40 p "" | Zneg p => "-" ++ pos_dec 40 p "" end.
Fixpoint render_mval (v : mval) : string :=
  match v with
  | MVNone => "N" | MVBool => "B" | MVStr s => "S<" ++ s ++ ">" | MVBytes s => "Y<" ++ s ++ ">"
  | MVInt z => "I<" ++ z_dec z ++ ">" | MVEnum z => "I<" ++ z_dec z ++ ">" | MVFloat _ _ => "F" | MVAnyDuration => "A"
  | MVDict d => "D{" ++ sjoin "," (map (fun kv => fst kv ++ "=" ++ render_mval (snd kv)) d) ++ "}"
  | MVList l => "L[" ++ sjoin "," (map render_mval l) ++ "]"
  end.
"""


def _stage(ctx, name, fn, *a):
    """A stage that cannot run (model/implementation tie crashed) is a broken obligation, not the end of the check."""
    import traceback
    try:
        fn(*a)
    except Exception:  # noqa
        ctx.oblige(f"stage '{name}' ran to completion", False, traceback.format_exc()[-1500:], "T2")


def run(ctx):
    _stage(ctx, "pure T2", run_pure, ctx)
    sample_reqs = []
    for i in range(ctx.n(8, 40)):
        try:
            api, deps, _ = conventional_plus(env.rng("C13-api", i), i)
            sample_reqs.append(api.request("", extra_files=deps))
        except apigen.Invalid:
            pass
    _stage(ctx, "sample_request T2", run_sample_request, ctx, sample_reqs)
    _stage(ctx, "mock T2", run_mock, ctx, sample_reqs[:ctx.n(4, 20)])
    jobs = []
    for i in range(ctx.n(2, 40)):
        r = env.rng("C13-api", i)
        try:
            api, deps, feats = conventional_plus(r, i)
            req = api.request("", extra_files=deps)
        except apigen.Invalid:
            ctx.features["invalid-candidate"] += 1
            continue
        svc_full = f"{api.package}.{api.main.proto.service[0].name}"
        for oi, o in enumerate(option_sets(i, ctx.quick())):
            jobs.append((i, oi, req, o, deps, svc_full, feats))
    results = gen.pmap(lambda j: run_suite(j[:6]), jobs, workers=max(2, env.NCPU // 4))
    for j, res in zip(jobs, results):
        feats = j[6] + j[3]["params"] + (["mixins"] if j[3]["yaml"] else []) + (["retry-config"] if j[3]["retry"] else [])
        ctx.case({"api": j[0], "options": j[3]["params"], "features": feats, "tests": res.get("total", 0)}, nontrivial=res.get("total", 0) >= 50, feature=feats)
        if "gen_error" in res:
            ctx.violation(f"generation failed for a conventional API: {res['gen_error']}", res["case"])
            continue
        if res["rc"] != 0 or res["failed"]:
            first = res["failed"][:4]
            ctx.violation(f"emitted tests/unit: {len(res['failed'])} of {res['total']} tests failed (pytest exit {res['rc']}): "
                          f"{[f['test'] for f in first]} :: {first[0]['msg'] if first else res['tail'][-300:]}",
                          dict(res["case"], failed=[f["test"] for f in res["failed"][:30]]), signature_of(res["failed"], j[3]["params"]))
    _stage(ctx, "assertion forms T1", check_asserts, ctx, jobs, results)
    ctx.notes["suites_run"] = len(jobs)
    ctx.notes["tests_total"] = sum(r.get("total", 0) for r in results)


def replay(ctx, rep):
    c = rep.get("case", {})
    if "api_index" not in c or "options" not in c:
        return run(ctx)
    i = c["api_index"]
    api, deps, feats = conventional_plus(env.rng("C13-api", i), i)
    req = api.request("", extra_files=deps)
    svc_full = f"{api.package}.{api.main.proto.service[0].name}"
    opt = {"params": c["options"], "yaml": c.get("service_yaml"), "retry": "svc" if c.get("retry") else None}
    res = run_suite((i, 0, req, opt, deps, svc_full))
    ctx.case({"api": i, "options": opt["params"], "tests": res.get("total", 0)}, nontrivial=True, feature=feats)
    if "gen_error" in res:
        ctx.violation(f"generation failed for a conventional API: {res['gen_error']}", res["case"])
    elif res["rc"] != 0 or res["failed"]:
        first = res["failed"][:4]
        ctx.violation(f"emitted tests/unit: {len(res['failed'])} of {res['total']} tests failed (pytest exit {res['rc']}): "
                      f"{[f['test'] for f in first]} :: {first[0]['msg'] if first else res['tail'][-300:]}",
                      dict(res["case"], failed=[f["test"] for f in res["failed"][:30]]), signature_of(res["failed"], opt["params"]))
    ctx.notes["suites_run"] = 1
    ctx.notes["tests_total"] = res.get("total", 0)
