"""C01 — every generated library is valid, importable Python with the requested clients (PARTIAL)."""
import ast, json, os, re
from .. import env, coq, gen, apigen, apis, t0, pb2synth
from ..apigen import File

RULE = ("generated APIs (conventional resource-oriented APIs with LRO / streaming / custom methods / second service / several files, plus a "
        "file in a proto sub-package, a non-proto-plus dependency package, recursive and mutually recursive messages, name overrides) x the "
        "option lattice {grpc, rest, grpc+rest} x rest-numeric-enums x metadata x autogen-snippets x name/namespace/warehouse overrides x "
        "service-yaml (mixins) x {default, ads templates + old-naming}. Each response: every .py compiled, every .json parsed, the package and all "
        "sub-modules imported in a fresh interpreter, clients and transport registry inspected; T1: emitted service-module set, intra-package "
        "imports (ast) and registry assignments compared with Model/Render.v inside coqc. distinct = distinct (request, options); non-trivial = "
        "the API has at least one service (always).")
TRUSTED = [
    "Model/Render.v: hand-written model of Generator._render_template / _is_desired_transport gating and of the transport import lines and registry block of the service templates",
    "Gen/Templates.v regenerated from /repo's template directories (T0)",
    "CPython compile()/import as the judge of 'valid, importable Python'; harness/gv/impl/c01_probe.py; pb2synth.py for dependency packages",
    "PARTIAL: that each of the ~100 templates renders to importable Python for EVERY schema is only exercised on the generated inputs, not proved",
]
ASSUMES = ["the experimental rest_async_io flag is outside 'supported' option sets (C01_async_rest_without_grpc_refuted records what happens there)"]


def regen(ctx):
    t0.write_templates()


# ---------------------------------------------------------------- inputs
def c01_api(r, idx):
    # every package shape of apis.PACKAGES is visited in turn (namespace-less, 1..3 namespace segments, v1p1beta1, ...)
    api = apis.conventional(r, package=apis.PACKAGES[(idx + 2 + idx // 6) % len(apis.PACKAGES)])
    feats = list(api.info["features"])
    extra_files, dep_protos = [], []
    k = idx % 6
    if k in (1, 4):
        # a file in a proto sub-package of the target package, with the SAME base name as the main file; the main file uses its type
        base = os.path.basename(api.main.proto.name)
        sub = File(f"{api.dir}/admin/{base}", api.package + ".admin", deps=list(apigen.STD_DEPS))
        m = sub.message("AdminNote"); m.field("text", 1, "string")
        rq = sub.message("GetAdminNoteRequest"); rq.field("name", 1, "string")
        if k == 4:
            s = sub.service("AdminService", host=api.host)
            s.rpc("GetAdminNote", rq.fqn, m.fqn, http=("get", "/v1/{name=adminNotes/*}"), sigs=["name"])
            # a PAGED rpc of the sub-package service whose request message lives in the parent package (third file)
            pc = File(f"{api.dir}/paging_common.proto", api.package, deps=list(apigen.STD_DEPS))
            lq = pc.message("ListAdminNotesRequest"); lq.field("parent", 1, "string").field("page_size", 2, "int32").field("page_token", 3, "string")
            sub.dep(pc.proto.name)
            lr = sub.message("ListAdminNotesResponse"); lr.field("notes", 1, m.fqn, repeated=True).field("next_page_token", 2, "string")
            s.rpc("ListAdminNotes", lq.fqn, lr.fqn, http=("get", "/v1/{parent=projects/*}/adminNotes"), sigs=["parent"])
            extra_files.append(pc)
            feats.append("sub-package-service")
        api.main.dep(sub.proto.name)
        first = api.main.proto.message_type[0]
        f = first.field.add(); f.name, f.number, f.label, f.type, f.type_name = "admin_note", 74, 1, 11, m.fqn
        extra_files.append(sub)
        feats.append("sub-package")
    if k in (0, 3):
        # a target file named like a dependency file it uses (status.proto using google/rpc/status.proto)
        st = File(f"{api.dir}/status.proto", api.package, deps=["google/rpc/status.proto"])
        rep = st.message("StatusReport"); rep.field("status", 1, ".google.rpc.Status").field("note", 2, "string")
        api.main.dep(st.proto.name)
        first = api.main.proto.message_type[0]
        f = first.field.add(); f.name, f.number, f.label, f.type, f.type_name = "status_report", 75, 1, 11, rep.fqn
        extra_files.append(st)
        feats.append("same-basename-dependency")
    if idx % 3 != 2:
        # resources whose pattern has no variable (the pure wildcard) or only literals: helpers with no argument, in the sync client,
        # the asyncio aliases and the emitted tests alike
        from google.api import resource_pb2
        api.main.resource_def("library.example.com/AnyAsset", ["*"])
        api.main.resource_def("library.example.com/Singleton", ["settings"])
        rqs = [m for m in api.main.proto.message_type if m.name.endswith("Request")]
        if rqs:
            tgt = rqs[idx % len(rqs)]
            for nm, num, typ in (("any_asset", 76, "library.example.com/AnyAsset"), ("singleton", 77, "library.example.com/Singleton")):
                f = tgt.field.add(); f.name, f.number, f.label, f.type = nm, num, 1, 9
                f.options.Extensions[resource_pb2.resource_reference].type = typ
            feats.append("resource-pattern-without-variables")
    if idx % 2 == 0:
        # a NESTED message with a field named like a sibling module it also takes a type from (the module must be aliased)
        cm = File(f"{api.dir}/common.proto", api.package)
        th = cm.message("Thing"); th.field("label", 1, "string")
        api.main.dep(cm.proto.name)
        rack = api.main.message("Rack")
        tier = cm.enum("ThingTier", ["THING_TIER_UNSPECIFIED", "THING_TIER_ONE"])
        slot = rack.nested("Slot"); slot.field("common", 1, "string").field("thing", 2, th.fqn)
        # ... and an ENUM of that module used after the field named like it (enum references take the alias too)
        lane = rack.nested("Lane"); lane.field("common", 1, "string").field("tier", 2, ("enum", tier)).map_field("tiers", 3, "string", ("enum", tier))
        rack.field("lanes", 2, lane.fqn, repeated=True)
        rack.field("slots", 1, slot.fqn, repeated=True)
        first = api.main.proto.message_type[0]
        f = first.field.add(); f.name, f.number, f.label, f.type, f.type_name = "rack", 76, 1, 11, rack.fqn
        # a flattened map argument whose value message (and one whose value enum) lives in that other file
        tq = api.main.message("TagRackRequest")
        tq.field("name", 1, "string").map_field("things", 2, "string", th.fqn).map_field("tiers", 3, "string", ("enum", tier))
        api.services[0].rpc("TagRack", tq.fqn, rack.fqn, http=("post", "/v1/{name=racks/*}:tag"), body="*", sigs=["name,things", "name,tiers"])
        extra_files.append(cm)
        feats.append("nested-field-named-like-module")
    if idx % 3 != 2:
        # a top-level message and a NESTED message of the same name; the top-level one uses a type nested in its namesake
        crate = api.main.message("Crate")
        pal = crate.nested("Pallet")
        tag = pal.nested("Tag"); tag.field("text", 1, "string")
        pal.field("cover", 1, tag.fqn)
        crate.field("favourite", 1, pal.fqn).field("top_tag", 2, tag.fqn)
        top = api.main.message("Pallet"); top.field("name", 1, "string").field("first_tag", 2, tag.fqn).field("inner", 3, pal.fqn)
        first = api.main.proto.message_type[0]
        f = first.field.add(); f.name, f.number, f.label, f.type, f.type_name = "pallet", 77, 1, 11, top.fqn
        f = first.field.add(); f.name, f.number, f.label, f.type, f.type_name = "crate", 78, 1, 11, crate.fqn
        feats.append("nested-namesake-of-top-level")
    if k in (2, 4, 5):
        dep = File("acme/common/types.proto", "acme.common")
        mo = dep.message("Money"); mo.field("units", 1, "int64").field("currency", 2, "string")
        en = dep.enum("Tier", ["TIER_UNSPECIFIED", "TIER_FREE", "TIER_PAID"])
        tgt = api.main.proto.message_type[0]
        api.main.dep(dep.proto.name)
        f = tgt.field.add(); f.name, f.number, f.label, f.type, f.type_name = "price", 70, 1, 11, mo.fqn
        f = tgt.field.add(); f.name, f.number, f.label, f.type, f.type_name = "tier", 71, 1, 14, en
        dep_protos.append(dep)
        feats.append("dependency-package")
    if idx % 4 in (0, 3):
        # a target file named by a reserved word that is not a keyword (type.proto / format.proto / list.proto): its module is
        # always imported under an alias; its message is an rpc request and response type
        nm = ["type", "format", "list", "any", "object", "license"][idx % 6]
        tf = File(f"{api.dir}/{nm}.proto", api.package, deps=list(apigen.STD_DEPS))
        tm = tf.message("TypedThing"); tm.field("name", 1, "string").field("size", 2, "int32")
        tq = tf.message("GetTypedThingRequest"); tq.field("name", 1, "string")
        api.main.dep(tf.proto.name)
        api.services[0].rpc("GetTypedThing", tq.fqn, tm.fqn, http=("get", "/v1/{name=typedThings/*}"), sigs=["name"])
        extra_files.append(tf)
        feats.append("target-file-named-by-reserved-word")
    if idx % 2 == 1:
        # services that each have ONE streaming kind only (the typing imports of the clients are conditional per kind)
        ch = api.main.message("Chunk"); ch.field("data", 1, "bytes").field("name", 2, "string")
        sm = api.main.message("Summary"); sm.field("count", 1, "int64")
        up = api.main.service("Uploader", host=api.host)
        up.rpc("GetSummary", ch.fqn, sm.fqn, http=("get", "/v1/{name=uploads/*}"))
        up.rpc("Upload", ch.fqn, sm.fqn, cs=True)
        wa = api.main.service("Watcher", host=api.host)
        wa.rpc("Watch", ch.fqn, sm.fqn, ss=True, http=("get", "/v1/{name=watches/*}:watch"))
        ct = api.main.service("Chatter", host=api.host)
        ct.rpc("Chat", ch.fqn, sm.fqn, cs=True, ss=True)
        pl = api.main.service("PlainOnly", host=api.host)
        pl.rpc("Peek", ch.fqn, sm.fqn, http=("get", "/v1/{name=peeks/*}"))
        feats.append("single-streaming-kind-services")
    if k in (3, 5):
        tree = api.main.message("TreeNode")
        tree.field("children", 1, tree.fqn, repeated=True).field("parent", 2, tree.fqn).map_field("index", 3, "string", tree.fqn)
        a = api.main.message("Ping"); b = api.main.message("Pong")
        a.field("pong", 1, b.fqn); b.field("ping", 1, a.fqn)
        tgt = api.main.proto.message_type[0]
        f = tgt.field.add(); f.name, f.number, f.label, f.type, f.type_name = "tree", 72, 1, 11, tree.fqn
        f = tgt.field.add(); f.name, f.number, f.label, f.type, f.type_name = "ping", 73, 1, 11, a.fqn
        feats.append("recursive")
    return api, extra_files, dep_protos, feats


MIXIN_YAML = {"apis": [{"name": "google.longrunning.Operations"}, {"name": "google.cloud.location.Locations"}],
              "http": {"rules": [{"selector": "google.longrunning.Operations.GetOperation", "get": "/v1/{name=operations/*}"},
                                 {"selector": "google.longrunning.Operations.CancelOperation", "post": "/v1/{name=operations/*}:cancel", "body": "*"},
                                 {"selector": "google.cloud.location.Locations.ListLocations", "get": "/v1/{name=projects/*}/locations"}]}}


def option_sets(r, n):
    out = []
    transports = ["grpc", "rest", "grpc+rest"]
    for i in range(n):
        o = {"transport": transports[i % 3], "params": [], "yaml": None, "ads": False}
        if r.random() < 0.5: o["params"].append("rest-numeric-enums")
        if r.random() < 0.5: o["params"].append("metadata")
        if r.random() < 0.3: o["params"].append("autogen-snippets=false")
        if r.random() < 0.25: o["params"] += ["python-gapic-name=things", "python-gapic-namespace=acme.cloud"]
        if r.random() < 0.2: o["params"].append("warehouse-package-name=acme-things-client")
        if r.random() < 0.2: o["params"].append("unknown-option=1")
        if r.random() < 0.4: o["yaml"] = MIXIN_YAML
        out.append(o)
    return out


# ---------------------------------------------------------------- T1 extraction
def relative_imports(src):
    """Unguarded and guarded `from .x import` targets of a module (level-1 relative imports)."""
    tree = ast.parse(src)
    unguarded, guarded = [], []

    def visit(nodes, in_try):
        for n in nodes:
            if isinstance(n, ast.ImportFrom) and n.level == 1 and n.module:
                (guarded if in_try else unguarded).append(n.module.replace(".", "/"))
            elif isinstance(n, ast.Try):
                visit(n.body, True); visit(n.orelse, in_try); visit(n.finalbody, in_try)
                for h in n.handlers:
                    visit(h.body, in_try)
            elif isinstance(n, (ast.If,)):
                visit(n.body, in_try); visit(n.orelse, in_try)
    visit(tree.body, False)
    return unguarded, guarded


def registry_keys(client_src):
    keys = []
    for cls in [n for n in ast.parse(client_src).body if isinstance(n, ast.ClassDef)]:
        for st in cls.body:
            if (isinstance(st, ast.Assign) and isinstance(st.targets[0], ast.Subscript) and
                    getattr(st.targets[0].value, "id", "") == "_transport_registry" and isinstance(st.targets[0].slice, ast.Constant)):
                keys.append(st.targets[0].slice.value)
    return keys


def run_case(args):
    idx, oi, req, opt, dep_protos, services = args
    res = {"violations": [], "checks": [], "t1_errors": [], "feat": []}
    d = gen.case_dir(f"c01-{idx}-{oi}")
    params = [f"transport={opt['transport']}"] + opt["params"]
    if opt["ads"]:
        params += ["python-gapic-templates=ads-templates", "old-naming"]
    r2 = gen.with_params(req, params, d, service_yaml=opt["yaml"])
    case = {"api_index": idx, "options": params, "service_yaml": opt["yaml"], "request_b64": apigen.req_b64(r2)}
    out, err = gen.run_generator(r2, cwd=d)
    if out is None:
        last = (err.strip().splitlines() or [''])[-1][:200]
        sig = None
        if "KeyError" in last and "generate_sample_specs" in err and any(".admin." in fp.package + "." and fp.service for fp in req.proto_file):
            sig = "subpackage.service_samples_keyerror"
        res["violations"].append((f"generation failed: {gen.error_kind(err)}: {last}", case, sig))
        gen.rm(d)
        return res
    files = gen.files_of(out)
    names = [f.name for f in out.file]
    for n, c in files.items():
        if n.endswith(".py"):
            try:
                compile(c, n, "exec")
            except SyntaxError as e:
                res["violations"].append((f"emitted {n} does not parse: {e.msg} line {e.lineno}: {(e.text or '').strip()[:100]}", case, None))
        elif n.endswith(".json"):
            try:
                json.loads(c)
            except Exception as e:  # noqa
                res["violations"].append((f"emitted {n} is not valid JSON: {e}", case, None))
    if res["violations"]:
        gen.rm(d)
        return res
    root = os.path.join(d, "out")
    gen.materialize(out, root)
    for dp in dep_protos:
        pb2synth.write_pb2(root, dp.proto)
    tops = sorted({os.path.dirname(n).replace("/", ".") for n in names if n.endswith("/gapic_version.py")})
    with_services = [t for t in tops if any(n.startswith(t.replace(".", "/") + "/services/") for n in names)]
    main = min(with_services, key=len) if with_services else (max(tops, key=len) if tops else None)
    grpc, rest = "grpc" in opt["transport"].split("+"), "rest" in opt["transport"].split("+")
    clients = []
    for s in services:
        clients += [f"{s}Client", f"{s}AsyncClient"]
    probe = gen.impl("c01_probe", {"root": root, "packages": tops, "main": main, "clients": clients})
    # services declared in a proto sub-package are exported by that sub-package
    sub_probe = None
    subs = sorted({re.sub(r"/services/.*$", "", n).replace("/", ".") for n in names
                   if main and n.startswith(main.replace(".", "/") + "/") and "/services/" in n and not n.startswith(main.replace(".", "/") + "/services/")})
    if subs and probe["import_ok"]:
        for sub in subs:
            sp = gen.impl("c01_probe", {"root": root, "packages": [], "main": sub, "clients": clients})
            if sub_probe is None:
                sub_probe = sp
            else:
                for k, v in sp["clients"].items():
                    if v and not sub_probe["clients"].get(k):
                        sub_probe["clients"][k] = v
    if not probe["import_ok"]:
        res["violations"].append((f"emitted package does not import: {probe['errors'][:3]}", case, None))
    else:
        for s in services:
            c, a = probe["clients"].get(f"{s}Client"), probe["clients"].get(f"{s}AsyncClient")
            if not c and sub_probe is not None:
                c, a = sub_probe["clients"].get(f"{s}Client"), sub_probe["clients"].get(f"{s}AsyncClient")
            if not c:
                res["violations"].append((f"no synchronous client {s}Client in {main}", case, None))
                continue
            if bool(a) != grpc and not opt["ads"]:
                res["violations"].append((f"{s}AsyncClient present={bool(a)} but gRPC requested={grpc}", case, None))
            want = (["grpc", "grpc_asyncio"] if grpc else []) + (["rest"] if rest else [])
            if not opt["ads"] and c.get("registry") != want:
                res["violations"].append((f"{s}Client offers transports {c.get('registry')}, requested {want}", case, None))
            for label, how in sorted((c.get("by_label") or {}).items()):
                if (label in (c.get("registry") or [])) != (how == "registered") or (how != "registered" and how != "KeyError"):
                    res["violations"].append((f"{s}Client.get_transport_class({label!r}): {how}; the client offers exactly {c.get('registry')}", case, None))
            if not opt["ads"] and c.get("default") != (want[0] if want else None):
                res["violations"].append((f"{s}Client default transport {c.get('default')} != {want[0] if want else None}", case, None))
    # ---- T1 against Model/Render.v (default templates only)
    if not opt["ads"]:
        O = "{| o_grpc := %s; o_rest := %s; o_rest_async := false |}" % (coq.b(grpc), coq.b(rest))
        by_svc = {}
        for n in names:
            m = re.search(r"/services/([^/]+)/(.+)\.py$", n)
            if m:
                by_svc.setdefault(m.group(1), {})[m.group(2)] = files[n]
        for svc, mods in by_svc.items():
            # pagers.py is rendered for every service but dropped by _get_file when the service has no paged method (utils.empty)
            listed = sorted(set(mods) | {"pagers"})
            res["checks"].append((f"#{idx}/{oi} {svc}: emitted service modules", f"list_eqb String.eqb (emitted_modules {O}) {coq.slist(listed)}"))
            for mod, src in mods.items():
                try:
                    ung, _ = relative_imports(src)
                except Exception as e:  # noqa
                    res["t1_errors"].append(f"{svc}/{mod}: {e}")
                    continue
                base = os.path.dirname(mod)
                ung = sorted({(base + "/" + u if base else u) for u in ung})
                res["checks"].append((f"#{idx}/{oi} {svc}/{mod}: intra-package imports {ung}",
                                      f"list_eqb String.eqb {coq.slist(ung)} (sorted_strs_dedup (imports_of {O} {coq.s(mod)}))"))
            if "client" in mods:
                res["checks"].append((f"#{idx}/{oi} {svc}: registry keys", f"list_eqb String.eqb (registry {O}) {coq.slist(registry_keys(mods['client']))}"))
    res["case"] = case
    gen.rm(d)
    return res


SEGS = ["google", "cloud", "foo", "bar", "v1", "v1beta1", "v2", "v1p1beta1", "foo_v1", "types", "a", "admin", "x9", "v10alpha"]


def run_imports(ctx):
    """T2: metadata.Address.python_import / in_api_package / subpackage against Model/Imports.v."""
    r = env.rng("C01-imports", 0)
    cases = []
    for i in range(ctx.n(60, 400)):
        api = [r.choice(SEGS) for _ in range(r.randint(1, 4))]
        ver = api[-1] if re.fullmatch(r"v[0-9]+(p[0-9]+)?((alpha|beta)[0-9]*)?", api[-1]) and len(api) > 1 else ""
        name = (api[-2] if ver else api[-1])
        ns = api[:-2] if ver else api[:-1]
        deps = [[r.choice(SEGS) for _ in range(r.randint(1, 4))] for _ in range(r.randint(0, 3))]
        addrs = [api, api + [r.choice(SEGS)], api + [r.choice(SEGS), r.choice(SEGS)], api[:-1] + [api[-1] + r.choice(["beta1", "x", "_v1", "1"])],
                 api[:-1], [r.choice(SEGS) for _ in range(r.randint(1, 4))]] + deps + [d + [r.choice(SEGS)] for d in deps]
        addrs = [a for a in addrs if a]
        cases.append({"name": name.capitalize(), "namespace": [x.capitalize() for x in ns], "version": ver, "api_package": ".".join(api),
                      "ppdeps": [".".join(d) for d in deps[: r.randint(0, len(deps))]],
                      "addresses": [[".".join(a), r.choice(["common", "resources", "foo", "types"])] for a in addrs]})
    out = gen.impl("c01_imports", {"cases": cases})
    checks = []
    for c, row in zip(cases, out):
        n = (f"{{| api_pkg := {coq.slist(c['api_package'].split('.'))}; mod_ns := {coq.slist(row['mod_ns'])}; vmod := {coq.s(row['vmod'])}; "
             f"ppdeps := {coq.lst(coq.slist(d.split('.')) for d in c['ppdeps'])} |}}")
        for (pkg, mod), got in zip(c["addresses"], row["addresses"]):
            a = f"{{| a_pkg := {coq.slist(pkg.split('.'))}; a_mod := {coq.s(mod)} |}}"
            if not got["ok"]:
                ctx.violation(f"Address.python_import raised {got['error']} for package {pkg!r} under API package {c['api_package']!r} "
                              f"(proto-plus-deps {c['ppdeps']})", {"imports_case": c, "address": [pkg, mod]}, None)
                continue
            kind = "in-api" if got["in_api"] else ("proto-plus-dependency" if got["proto_plus"] else "dependency")
            ctx.case({"imports": [c["api_package"], pkg, mod, c["ppdeps"]]}, nontrivial=pkg != c["api_package"], feature="import-" + kind + ("-sub" if got["sub"] and got["in_api"] else ""))
            checks.append((f"python_import of {pkg}/{mod} under API {c['api_package']} deps {c['ppdeps']}: impl {got['package']}, {got['module']}",
                           f"pair_eqb (list_eqb String.eqb) String.eqb (import_of {n} {a}) ({coq.slist(got['package'])}, {coq.s(got['module'])})"
                           f" && Bool.eqb (in_api {n} {a}) {'true' if got['in_api'] else 'false'}"
                           f" && Bool.eqb (is_proto_plus {n} {a}) {'true' if got['proto_plus'] else 'false'}"
                           + (f" && list_eqb String.eqb (subpackage {n} {a}) {coq.slist(got['sub'])}" if got["in_api"] else "")))
    failing, errors, nf = coq.eval_checks("c01imports", "From GV Require Import Model.Files Model.Imports.", "", checks)
    ctx.oblige(f"T2 model = implementation on {len(checks)} evaluations of Address.python_import / in_api_package / subpackage",
               not failing and not errors, "; ".join((failing + errors)[:6]))


def run(ctx):
    ctx.stage("imports T2", run_imports, ctx)
    napi = ctx.n(8, 72)
    nopt = ctx.n(3, 6)
    jobs = []
    for i in range(napi):
        r = env.rng("C01-api", i)
        try:
            api, extra, deps, feats = c01_api(r, i)
            req = api.request("", extra_files=[d for d in deps] + extra,
                              to_generate=[f.proto.name for f in api.files] + [e.proto.name for e in extra])
        except apigen.Invalid as e:
            ctx.features["invalid-candidate"] += 1
            continue
        services = [s.name for f in api.files + extra for s in f.proto.service]
        opts = option_sets(env.rng("C01-opt", i), nopt)
        if i % 8 == 7:
            opts.append({"transport": "grpc", "params": [], "yaml": None, "ads": True})
        for oi, o in enumerate(opts):
            jobs.append((i, oi, req, o, deps, services, feats))
    # compute-style APIs: extended operations polled through several services; status field enum / string / bool
    from . import c10
    for k, status in enumerate(["enum", "string", "bool"]):
        try:
            req = c10.extended_multi_request(env.rng("C01-extended", k), k)
        except apigen.Invalid:
            ctx.features["invalid-candidate"] += 1
            continue
        fp = [p for p in req.proto_file if p.name.endswith("compute.proto")][0]
        fld = [x for x in [m for m in fp.message_type if m.name == "Operation"][0].field if x.name == "status"][0]
        if status != "enum":
            fld.type = 9 if status == "string" else 8
            fld.ClearField("type_name")
        jobs.append((2000 + k, 0, req, {"transport": "rest", "params": [], "yaml": None, "ads": False}, [],
                     [sv.name for sv in fp.service], ["extended-operations", f"status-{status}"]))
    # packages WITHOUT a version segment (two segments, one segment) and with an unusual version
    for k, pk in enumerate([("animalia.mollusca", "mollusca.example.com"), ("solo", "solo.example.com"), ("acme.fleet.v2alpha3", "fleet.example.com")]):
        try:
            api = apis.conventional(env.rng("C01-unversioned", k), package=pk)
            req = api.request("")
        except apigen.Invalid:
            ctx.features["invalid-candidate"] += 1
            continue
        jobs.append((4000 + k, 0, req, {"transport": ["grpc+rest", "grpc", "rest"][k], "params": [], "yaml": None, "ads": False}, [],
                     [sv.name for f in api.files for sv in f.proto.service], list(api.info["features"]) + ["package-shape=" + pk[0]]))
    # an API whose files all live in sibling sub-packages that share leading letters (no file in the root package)
    for k, (sa, sb) in enumerate([("alpha", "apple"), ("enums", "errors")]):
        fa = File(f"google/example/v1/{sa}/{sa}.proto", f"google.example.v1.{sa}", deps=list(apigen.STD_DEPS))
        ta = fa.message("Thing"); ta.field("name", 1, "string")
        fb = File(f"google/example/v1/{sb}/{sb}.proto", f"google.example.v1.{sb}", deps=list(apigen.STD_DEPS) + [fa.proto.name])
        qb = fb.message("GetOtherRequest"); qb.field("name", 1, "string")
        ob = fb.message("Other"); ob.field("name", 1, "string").field("thing", 2, ta.fqn)
        sv = fb.service("Others", host="others.example.com")
        sv.rpc("GetOther", qb.fqn, ob.fqn, http=("get", "/v1/{name=others/*}"), sigs=["name"])
        try:
            req = apigen.request([fa, fb])
        except apigen.Invalid:
            ctx.features["invalid-candidate"] += 1
            continue
        jobs.append((5000 + k, 0, req, {"transport": ["grpc+rest", "grpc"][k], "params": [], "yaml": None, "ads": False}, [], ["Others"],
                     ["only-sibling-sub-packages-sharing-leading-letters"]))
    # a service two levels below the versioned package whose intermediate level owns no proto file
    for k in range(2):
        root_f = File("acme/vault/v1/vault.proto", "acme.vault.v1", deps=list(apigen.STD_DEPS))
        sec = root_f.message("Secret"); sec.field("name", 1, "string")
        gq = root_f.message("GetSecretRequest"); gq.field("name", 1, "string")
        sv0 = root_f.service("Vault", host="vault.example.com")
        sv0.rpc("GetSecret", gq.fqn, sec.fqn, http=("get", "/v1/{name=secrets/*}"), sigs=["name"])
        deep = File("acme/vault/v1/internal/admin/admin.proto", "acme.vault.v1.internal.admin", deps=list(apigen.STD_DEPS) + [root_f.proto.name])
        rq = deep.message("RotateKeysRequest"); rq.field("name", 1, "string").field("secret", 2, sec.fqn)
        rp = deep.message("RotateKeysResponse"); rp.field("rotated", 1, "int32")
        sv1 = deep.service("Admin", host="vault.example.com")
        sv1.rpc("RotateKeys", rq.fqn, rp.fqn, http=("post", "/v1/{name=secrets/*}:rotate"), body="*", sigs=["name"])
        files = [root_f, deep] if k == 0 else [deep, root_f]
        try:
            req = apigen.request([root_f, deep]) if k == 0 else apigen.request([root_f, deep], to_generate=[deep.proto.name, root_f.proto.name])
        except (apigen.Invalid, TypeError):
            ctx.features["invalid-candidate"] += 1
            continue
        jobs.append((5100 + k, 0, req, {"transport": ["grpc+rest", "grpc"][k], "params": ["metadata"] if k else [], "yaml": None, "ads": False}, [], ["Vault", "Admin"],
                     ["sub-package-below-an-empty-intermediate-level"]))
    # a service that declares no default host, in both template trees
    for k, ads in enumerate((False, True)):
        nh = File("google/example/nohost/v1/nohost.proto", "google.example.nohost.v1", deps=list(apigen.STD_DEPS))
        nq = nh.message("PingRequest"); nq.field("name", 1, "string")
        nr = nh.message("Pong"); nr.field("name", 1, "string")
        ns = nh.service("Pinger", host=None)
        ns.rpc("Ping", nq.fqn, nr.fqn, http=("get", "/v1/{name=pings/*}"), sigs=["name"])
        try:
            req = apigen.request([nh])
        except apigen.Invalid:
            ctx.features["invalid-candidate"] += 1
            continue
        jobs.append((5200 + k, 0, req, {"transport": "grpc", "params": [], "yaml": None, "ads": ads}, [], ["Pinger"], ["service-without-default-host"]))
    # a dependency package that shares a textual prefix with the API package (foo.v1beta1 used by foo.v1); the library is
    # given its own namespace so that the dependency's pb2 package does not sit inside the emitted unversioned package
    for k, (tpkg, dpkg) in enumerate([("google.example.v1", "google.example.v1beta1"), ("acme.things.v2", "acme.things.v2alpha")]):
        dep = File("/".join(dpkg.split(".")) + "/types.proto", dpkg)
        mo = dep.message("Money"); mo.field("units", 1, "int64")
        en = dep.enum("Tier", ["TIER_UNSPECIFIED", "TIER_FREE"])
        f = File("/".join(tpkg.split(".")) + "/svc.proto", tpkg, deps=list(apigen.STD_DEPS) + [dep.proto.name])
        rq = f.message("GetThingRequest"); rq.field("name", 1, "string").field("price", 2, mo.fqn)
        rp = f.message("Thing"); rp.field("name", 1, "string").field("price", 2, mo.fqn).field("tier", 3, ("enum", en))
        sv = f.service("Things", host="things.example.com")
        sv.rpc("GetThing", rq.fqn, rp.fqn, http=("get", "/v1/{name=things/*}"), sigs=["name"])
        try:
            req = apigen.request([dep, f], to_generate=[f.proto.name])
        except apigen.Invalid:
            ctx.features["invalid-candidate"] += 1
            continue
        jobs.append((3000 + k, 0, req, {"transport": ["grpc+rest", "rest"][k], "params": ["python-gapic-namespace=acme.cloud", "python-gapic-name=things"],
                                         "yaml": None, "ads": False}, [dep], ["Things"], ["dependency-package-shares-textual-prefix"]))
    results = gen.pmap(lambda j: run_case(j[:6]), jobs)
    checks, t1e = [], []
    for j, res in zip(jobs, results):
        feats = j[6] + [f"transport={j[3]['transport']}"] + (["ads"] if j[3]["ads"] else []) + (["mixins"] if j[3]["yaml"] else []) + j[3]["params"]
        ctx.case({"api": j[0], "opt": j[1], "features": feats}, nontrivial=True, feature=feats)
        for what, case, sig in res["violations"]:
            ctx.violation(what, case, sig)
        checks += res["checks"]
        t1e += res["t1_errors"]
    defs = ("Definition sorted_strs_dedup (l : list string) : list string := GV.Model.Determ.sorted_strs (GV.Model.Determ.dedup l).\n")
    failing, errors, nf = coq.eval_checks("c01t1", "From GV Require Import Gen.Templates Model.Render Model.Determ.", defs, checks)
    ctx.oblige(f"T1 emitted service-module set, intra-package imports and registry keys = Model/Render.v ({len(checks)} comparisons over {len(jobs)} generated libraries)",
               not failing and not errors and not t1e and len(checks) > 0, "; ".join((failing + errors + t1e)[:8]), "T1")
    # the refuted corner, replayed on the implementation
    replay_async_rest(ctx)


def replay_async_rest(ctx):
    """C01_async_rest_without_grpc_refuted: transport=rest with the experimental async REST flag."""
    r = env.rng("C01-asyncrest", 0)
    api = apis.conventional(r, features=set())
    req = api.request("")
    yaml = {"publishing": {"library_settings": [{"version": api.package, "python_settings": {"experimental_features": {"rest_async_io_enabled": True}}}]}}
    d = gen.case_dir("c01-asyncrest")
    r2 = gen.with_params(req, ["transport=rest"], d, service_yaml=yaml)
    out, err = gen.run_generator(r2, cwd=d)
    case = {"options": ["transport=rest"], "service_yaml": yaml, "request_b64": apigen.req_b64(r2)}
    ctx.case({"async_rest_without_grpc": True}, feature="refuted-witness")
    if out is None:
        gen.rm(d)
        ctx.notes["async_rest_witness"] = "generation failed: " + err[-200:]
        return
    root = os.path.join(d, "out")
    gen.materialize(out, root)
    tops = sorted({os.path.dirname(f.name).replace("/", ".") for f in out.file if f.name.endswith("/gapic_version.py")})
    probe = gen.impl("c01_probe", {"root": root, "packages": tops, "main": None, "clients": []})
    gen.rm(d)
    bad = [e for e in probe["errors"] if "async_client" in e]
    ctx.notes["async_rest_witness"] = bad[:1] or "imports fine"
    if bad:
        ctx.violation("transport=rest with experimental rest_async_io_enabled: services/<svc>/async_client.py is emitted and imports "
                      ".transports.grpc_asyncio, which is not: " + bad[0][:200], case, "render.async_client_without_grpc")


def replay(ctx, rep):
    run(ctx)
