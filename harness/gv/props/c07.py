"""C07 — paginated methods yield every item of every page exactly once, in order."""
import ast, base64, json, os, re
from google.protobuf import json_format
from .. import env, coq, gen, apigen, dyn
from ..apigen import File, INT_SCALARS

RULE = ("(1) classification: request/response shapes built around the AIP-4233 rule — one-factor variations of the "
        "conventional List shape over every paging field (absent / each integer kind / non-integer scalars / wrappers / "
        "other messages / enum / repeated label / near-miss names / presence: plain, proto3 optional, member of a real oneof) plus random products, field numbers permuted against declaration order, with 0..3 repeated response "
        "fields (messages of the same file, of another file, of another package, scalars, maps) in random positions; "
        "one case = one (request shape, response shape); non-trivial = the request has at least one of the paging field names. "
        "(2) pager behaviour: generated libraries (grpc / grpc+rest / rest) whose paged methods are called through the sync, "
        "asyncio and REST clients (iterating items or pages to the end, or leaving the loop early while holding page N>=2 / after j items, "
        "with attributes read through the pager object at every yield and after the loop; plus multi-step sequences on a caller-owned request "
        "object: mutate it after the pager was returned, drain and list again with the same object) against loopback servers answering from scripted page histories (1..5 pages up to the "
        "first empty token, page sizes 0..3, empty intermediate pages, unreachable pages after the empty token, initial "
        "page_token set or not; call options: timeout a value / not passed (configured default) / explicit None, metadata, retry an explicit "
        "Retry / not passed (configured default retry on UNAVAILABLE) / explicit None, with a failing follow-up fetch); one case = one (library, method, client kind, history, mode); "
        "non-trivial = the history has at least two pages or at least one item. Distinct = distinct canonical JSON.")
TRUSTED = [
    "Model/Paging.v: hand-written model of Method.paged_result_field/_validate_paged_field_size_type, of the fixed skeleton "
    "pagers.py.j2 emits (as canonical ast.unparse lines), of the paged branch of the client templates, and the denotation of that "
    "skeleton as a loop over a scripted server history",
    "contract: proto-plus attribute assignment/lookup and generator semantics of Python behave as the loop model says "
    "(validated on every run by T2 against real loopback gRPC/HTTP servers)",
    "harness/gv/impl/paging.py (API.build as gapic.cli.generate calls it), harness/gv/impl/pagedrive.py, the ast readers of "
    "pagers.py / client.py / async_client.py in this file, apigen + DescriptorPool as validity judge, dyn (decoding under the input descriptors)",
]
ASSUMES = ["field names within one message are distinct (protoc guarantees it): hypothesis [uniq] of the classification theorems",
           "the loop theorems speak about histories in which some page has an empty token (otherwise iteration does not end; "
           "C07_pager_undefined_iff says exactly when)"]

IMPORTS = "From GV Require Import Model.Paging."
WRAP = ".google.protobuf."
SIG_WRAPPER = "paging.wrapper_page_size"
SIG_SHADOW = "paging.max_results_shadows_page_size"
SIG_LABEL = "paging.repeated_paging_field"
SIG_MAPIMPORT = "paging.map_value_type_not_imported"
SIG_ADS_MAPIMPORT = "paging.ads_map_value_type_not_imported"
UUID4 = re.compile(r"^[0-9a-f]{8}-[0-9a-f]{4}-4[0-9a-f]{3}-[89ab][0-9a-f]{3}-[0-9a-f]{12}$")


# ---------------------------------------------------------------------------------------------- shapes
def fld(name, typ, repeated=False, map_=None, presence=None):
    """typ: scalar name | 'msg:<fqn>' | 'enum:<fqn>'; map_: (key scalar, value typ) makes a map field;
    presence: None (plain) | 'optional' (proto3 optional) | 'oneof:<group>' (member of a real oneof) — singular fields only."""
    f = {"name": name, "type": typ, "repeated": bool(repeated or map_), "map": list(map_) if map_ else None}
    if presence and not f["repeated"]:
        f["presence"] = presence
    return f


def required(f):
    """google.api.field_behavior = REQUIRED (no part in the classification; the REST transport keeps a per-method table for such fields)"""
    f = dict(f)
    f["required"] = True
    return f


def with_presence(f, presence):
    f = dict(f)
    f.pop("presence", None)
    if presence and not f["repeated"]:
        f["presence"] = presence
    return f


def coq_presence(f):
    p = f.get("presence")
    return "PPlain" if not p else "POptional" if p == "optional" else f"(POneof {coq.s(p.split(':', 1)[1])})"


def short(fqn):
    return fqn.rsplit(".", 1)[-1]


def coq_type(f, owner_fqn):
    t = f["type"]
    if f["map"]:
        entry = "".join(p.capitalize() for p in f["name"].split("_")) + "Entry"
        return f"(TMsg {coq.s(owner_fqn.lstrip('.'))} {coq.s(entry)})"
    if t == "string":
        return "TStr"
    if t in INT_SCALARS:
        return "TInt"
    if t in ("double", "float"):
        return "TFloat"
    if t == "bool":
        return "TBool"
    if t == "bytes":
        return "TBytes"
    if t.startswith("enum:"):
        return "TEnum"
    fqn = t[4:].lstrip(".")
    pkg, _, name = fqn.rpartition(".")
    return f"(TMsg {coq.s(pkg)} {coq.s(name)})"


def coq_shape(shape, owner_fqn):
    return coq.lst(f"(mkField {coq.s(f['name'])} {coq_type(f, owner_fqn)} {coq.b(f['repeated'])} {coq.b(bool(f['map']))} {coq_presence(f)})" for f in shape)


def renumber(r, shape):
    """Give the fields numbers that are NOT in declaration order (a random permutation, sometimes with gaps)."""
    nums = list(range(1, len(shape) + 1))
    r.shuffle(nums)
    gap = r.choice([0, 0, 7])
    for f, n in zip(shape, nums):
        f["number"] = n + (gap if n > 1 else 0)
    return shape


def add_fields(msg, shape, file):
    # real oneofs are declared first (protoc puts the synthetic oneofs of proto3-optional fields after them)
    for g in dict.fromkeys(f["presence"].split(":", 1)[1] for f in shape if str(f.get("presence", "")).startswith("oneof:")):
        msg.proto.oneof_decl.add().name = g
    for i, f in enumerate(shape, 1):
        i = f.get("number", i)
        if f["map"]:
            k, v = f["map"]
            msg.map_field(f["name"], i, k, v[4:] if v.startswith("msg:") else v)
            continue
        t = f["type"]
        pres = f.get("presence")
        kw = {"repeated": f["repeated"]}
        if f.get("required"):
            kw["required"] = True
        if pres == "optional":
            kw["optional"] = True
        elif pres:
            kw["oneof"] = pres.split(":", 1)[1]
        if t.startswith("msg:"):
            msg.field(f["name"], i, t[4:], **kw)
        elif t.startswith("enum:"):
            msg.field(f["name"], i, ("enum", t[5:]), **kw)
        else:
            msg.field(f["name"], i, t, **kw)


# ---- the property's own sentence on a shape (direct oracle; independent of the model and of /repo) ----
def is_wrapper32(f):
    return f["type"].startswith("msg:") and short(f["type"]) in ("Int32Value", "UInt32Value") and not f["map"]


def spec_paged(req, resp, relax=()):
    """'its request has a string page_token and an integer page_size (or legacy max_results, integer or Int32Value/UInt32Value)
    and its response has a string next_page_token and at least one repeated field'.
    relax: names of the three known code/sentence gaps, used only to *classify* a disagreement."""
    def singular(f):
        return (not f["repeated"]) or "label" in relax

    def named(shape, n):
        return [f for f in shape if f["name"] == n]

    tok = any(f["type"] == "string" and singular(f) for f in named(req, "page_token"))
    nxt = any(f["type"] == "string" and singular(f) for f in named(resp, "next_page_token"))
    ps = any((f["type"] in INT_SCALARS or ("wrapper" in relax and is_wrapper32(f))) and singular(f) for f in named(req, "page_size"))
    mr = any((f["type"] in INT_SCALARS or is_wrapper32(f)) and singular(f) for f in named(req, "max_results"))
    if "shadow" in relax and named(req, "max_results") and not mr:
        ps = False
    rep = any(f["repeated"] for f in resp)
    return tok and nxt and (ps or mr) and rep


def first_repeated(resp):
    return next((f["name"] for f in resp if f["repeated"]), None)


def classify_gap(req, resp, impl_paged):
    """None when the sentence and the implementation agree; otherwise (signature | None, text)."""
    if spec_paged(req, resp) == impl_paged:
        return None
    for relax, sig in ((("wrapper",), SIG_WRAPPER), (("shadow",), SIG_SHADOW), (("label",), SIG_LABEL),
                       (("wrapper", "label"), SIG_LABEL), (("shadow", "label"), SIG_LABEL), (("wrapper", "shadow"), SIG_WRAPPER),
                       (("wrapper", "shadow", "label"), SIG_LABEL)):
        if spec_paged(req, resp, relax) == impl_paged:
            return sig, "+".join(relax)
    return None, "unexplained"


# ---------------------------------------------------------------------------------------------- classification cases
PKG = "google.example.library.v1"
OTHER_PKG = "acme.other.v1"


def palette():
    size_types = [(t, False) for t in INT_SCALARS] + [
        ("double", False), ("float", False), ("bool", False), ("string", False), ("bytes", False),
        ("msg:" + WRAP + "Int32Value", False), ("msg:" + WRAP + "UInt32Value", False), ("msg:" + WRAP + "Int64Value", False),
        ("msg:" + WRAP + "BoolValue", False), ("msg:." + PKG + ".Book", False), ("msg:." + OTHER_PKG + ".Int32Value", False),
        ("msg:." + OTHER_PKG + ".UInt32Value", False), ("enum:." + PKG + ".View", False),
        ("int32", True), ("uint64", True), ("msg:" + WRAP + "Int32Value", True), ("string", True)]
    token_types = [("string", False), ("bytes", False), ("int32", False), ("string", True), ("bytes", True),
                   ("msg:" + WRAP + "StringValue", False), ("enum:." + PKG + ".View", False), ("bool", False)]
    return size_types, token_types


REPEATED_SLOTS = [
    lambda n: fld(n, "msg:." + PKG + ".Book", True),
    lambda n: fld(n, "msg:." + PKG + ".Shelf", True),            # declared in the second file of the package
    lambda n: fld(n, "msg:.google.rpc.Status", True),            # another package
    lambda n: fld(n, "msg:." + OTHER_PKG + ".Thing", True),      # a non-generated dependency package
    lambda n: fld(n, "string", True),
    lambda n: fld(n, "int64", True),
    lambda n: fld(n, "bytes", True),
    lambda n: fld(n, "enum:." + PKG + ".View", True),
    lambda n: fld(n, "string", map_=("string", "string")),
    lambda n: fld(n, "msg", map_=("string", "msg:." + PKG + ".Book")),
    lambda n: fld(n, "msg", map_=("int32", "msg:." + PKG + ".Shelf")),
]
SINGULAR_SLOTS = [
    lambda n: fld(n, "int32"), lambda n: fld(n, "string"), lambda n: fld(n, "msg:." + PKG + ".Book"),
    lambda n: fld(n, "msg:" + WRAP + "Int32Value"), lambda n: fld(n, "bool"),
]
ITEM_NAMES = ["books", "items", "results", "entries", "things", "unreachable", "labels", "warnings"]
PLAIN_NAMES = ["total_size", "etag", "summary", "kind", "first", "approx"]


def gen_response(r, token=("string", False), n_rep=None, token_name="next_page_token"):
    n_rep = r.choice([0, 1, 1, 2, 2, 3]) if n_rep is None else n_rep
    names_r, names_p = r.sample(ITEM_NAMES, n_rep), r.sample(PLAIN_NAMES, r.randint(0, 2))
    slots = [r.choice(REPEATED_SLOTS)(n) for n in names_r] + [r.choice(SINGULAR_SLOTS)(n) for n in names_p]
    r.shuffle(slots)
    if token is not None:
        slots.insert(r.randint(0, len(slots)), fld(token_name, token[0], token[1]))
    return renumber(r, slots) if r.random() < 0.5 else slots


def gen_request(r, token=("string", False), page_size=("int32", False), max_results=None, token_name="page_token",
                size_name="page_size", mr_name="max_results"):
    fields = [fld("parent", "string"), fld("filter", "string")]
    if r.random() < 0.5:
        fields.append(fld("order", "int32"))
    if r.random() < 0.3:
        fields.append(fld("tags", "string", True))
    if token is not None:
        fields.append(fld(token_name, token[0], token[1]))
    if page_size is not None:
        fields.append(fld(size_name, page_size[0], page_size[1]))
    if max_results is not None:
        fields.append(fld(mr_name, max_results[0], max_results[1]))
    r.shuffle(fields)
    return renumber(r, fields) if r.random() < 0.3 else fields


def numbered(name, typ, number, repeated=False, map_=None):
    f = fld(name, typ, repeated, map_)
    f["number"] = number
    return f


def classification_cases(r, n_random):
    """One-factor variations of the conventional shape, then random products."""
    size_types, token_types = palette()
    cases = []
    add = lambda rq, rs, tag: cases.append({"req": rq, "resp": rs, "tags": tag})
    add(gen_request(r), gen_response(r, n_rep=1), ["conventional"])
    for t in size_types:
        add(gen_request(r, page_size=t), gen_response(r, n_rep=r.choice([1, 2])), ["vary-page_size"])
        add(gen_request(r, page_size=None, max_results=t), gen_response(r, n_rep=r.choice([1, 2])), ["vary-max_results"])
        add(gen_request(r, page_size=("int32", False), max_results=t), gen_response(r, n_rep=1), ["both-size-fields"])
        add(gen_request(r, page_size=t, max_results=("int32", False)), gen_response(r, n_rep=1), ["both-size-fields"])
    for t in token_types:
        add(gen_request(r, token=t), gen_response(r, n_rep=1), ["vary-page_token"])
        add(gen_request(r), gen_response(r, token=t, n_rep=1), ["vary-next_page_token"])
    add(gen_request(r, token=None), gen_response(r, n_rep=1), ["absent-page_token"])
    add(gen_request(r), gen_response(r, token=None, n_rep=1), ["absent-next_page_token"])
    add(gen_request(r, page_size=None), gen_response(r, n_rep=1), ["absent-size"])
    for k in (0, 1, 2, 3):
        for _ in range(3):
            add(gen_request(r), gen_response(r, n_rep=k), [f"repeated-fields={k}"])
    for mk in REPEATED_SLOTS:      # every kind of first repeated field, followed by a message list
        resp = [fld("total_size", "int32"), mk("first_rep"), fld("books", "msg:." + PKG + ".Book", True), fld("next_page_token", "string")]
        add(gen_request(r), resp, ["first-repeated-kind"])
    # presence of the paging fields: plain / proto3 optional (the Compute shape) / member of a real oneof
    def presence_variant(pt=None, ps=None, mr=None, nx=None, use_mr=False):
        rq = gen_request(r, page_size=None if use_mr else ("int32", False), max_results=("int32", False) if use_mr else None)
        rs = gen_response(r, n_rep=r.choice([1, 2]))
        want = {"page_token": pt, "page_size": ps, "max_results": mr}
        rq = [with_presence(f, want.get(f["name"])) for f in rq]
        rs = [with_presence(f, nx if f["name"] == "next_page_token" else None) for f in rs]
        for grp, shape, sib in (("position", rq, "cursor"), ("next", rs, "next_cursor"), ("limit", rq, "limit_bytes")):
            if any(f.get("presence") == "oneof:" + grp for f in shape) and r.random() < 0.6:
                shape.append(fld(sib, "string", presence="oneof:" + grp))
        return rq, rs
    for pv in ("optional", "oneof:position"):
        add(*presence_variant(pt=pv), ["presence-page_token"])
    for pv in ("optional", "oneof:next"):
        add(*presence_variant(nx=pv), ["presence-next_page_token"])
    for pv in ("optional", "oneof:limit"):
        add(*presence_variant(ps=pv), ["presence-page_size"])
        add(*presence_variant(mr=pv, use_mr=True), ["presence-max_results"])
    add(*presence_variant(pt="optional", ps="optional", nx="optional"), ["presence-all-optional"])
    add(*presence_variant(pt="optional", mr="optional", nx="optional", use_mr=True), ["presence-all-optional"])
    add(*presence_variant(pt="oneof:position", ps="oneof:limit", nx="oneof:next"), ["presence-all-oneof"])
    add(*presence_variant(pt="optional", nx="oneof:next"), ["presence-mixed"])
    add(*presence_variant(pt="oneof:position", nx="optional"), ["presence-mixed"])
    # repeated fields NOT numbered in declaration order: the item field is the first one DECLARED
    B = "msg:." + PKG + ".Book"
    for resp in (
        [numbered("books", B, 3, True), numbered("next_page_token", "string", 2), numbered("unreachable", "string", 1, True)],
        [numbered("unreachable", "string", 3, True), numbered("next_page_token", "string", 2), numbered("books", B, 1, True)],
        [numbered("total_size", "int32", 4), numbered("labels", "msg", 9, map_=("string", "string")), numbered("books", B, 2, True), numbered("next_page_token", "string", 1)],
        [numbered("next_page_token", "string", 5), numbered("warnings", "string", 4, True), numbered("shelves", "msg:." + PKG + ".Shelf", 3, True), numbered("books", B, 2, True)],
    ):
        add(gen_request(r), resp, ["numbers-out-of-declaration-order"])
    for k in (2, 3):
        for _ in range(4):
            add(gen_request(r), renumber(r, gen_response(r, n_rep=k)), ["numbers-out-of-declaration-order"])
    for nm in ("pageToken", "page_tokens", "PAGE_TOKEN", "page_token_", "token"):
        add(gen_request(r, token_name=nm), gen_response(r, n_rep=1), ["near-miss-name"])
    for nm in ("nextPageToken", "next_page_tokens", "next_token", "page_token"):
        add(gen_request(r), gen_response(r, token_name=nm, n_rep=1), ["near-miss-name"])
    for nm in ("pageSize", "page_sizes", "size", "maxResults", "max_result"):
        add(gen_request(r, size_name=nm), gen_response(r, n_rep=1), ["near-miss-name"])
    for _ in range(n_random):
        tok = r.choice([None] + token_types + [("string", False)] * 8)
        nxt = r.choice([None] + token_types + [("string", False)] * 8)
        ps = r.choice([None] * 3 + size_types + [("int32", False)] * 6)
        mr = r.choice([None] * 12 + size_types)
        rq, rs = gen_request(r, token=tok, page_size=ps, max_results=mr), gen_response(r, token=nxt)
        if r.random() < 0.3:
            pick = lambda: r.choice([None, "optional", "optional", "oneof:grp"])
            rq = [with_presence(f, pick()) if f["name"] in ("page_token", "page_size", "max_results") else f for f in rq]
            rs = [with_presence(f, pick()) if f["name"] == "next_page_token" else f for f in rs]
        add(rq, rs, ["random"])
    return cases


def support_files():
    """Second file of the package (Shelf), and a dependency package that is not generated (Int32Value look-alikes)."""
    other = File("acme/other/v1/wrap.proto", OTHER_PKG)
    other.message("Int32Value").field("value", 1, "int32")
    other.message("UInt32Value").field("value", 1, "uint32")
    other.message("Thing").field("name", 1, "string")
    second = File("google/example/library/v1/shelves.proto", PKG, deps=list(apigen.STD_DEPS))
    second.message("Shelf").field("name", 1, "string").field("theme", 2, "string")
    return other, second


def classify_api(cases, first_index=0):
    other, second = support_files()
    main = File("google/example/library/v1/library.proto", PKG,
                deps=list(apigen.STD_DEPS) + ["google/protobuf/wrappers.proto", "google/rpc/status.proto", other.proto.name, second.proto.name])
    main.message("Book").field("name", 1, "string").field("pages", 2, "int32")
    main.enum("View", ["VIEW_UNSPECIFIED", "BASIC", "FULL"])
    svc = main.service("Library", host="library.example.com")
    for k, c in enumerate(cases):
        n = f"Op{first_index + k}"
        rq, rs = main.message(n + "Request"), main.message(n + "Response")
        add_fields(rq, c["req"], main)
        add_fields(rs, c["resp"], main)
        svc.rpc(n, rq.fqn, rs.fqn)
        c["rpc"], c["req_fqn"], c["resp_fqn"] = n, rq.fqn, rs.fqn
    return apigen.request([other, second, main], to_generate=[second.proto.name, main.proto.name])


def run_classification(ctx, cases, chunk=60, label="classification"):
    groups = [cases[i:i + chunk] for i in range(0, len(cases), chunk)]
    reqs = []
    for gi, g in enumerate(groups):
        reqs.append(classify_api(g, first_index=gi * chunk))
    outs = gen.pmap(lambda rq: gen.impl("paging", [{"request_b64": apigen.req_b64(rq)}])[0], reqs)
    checks, pending = [], []
    for g, rq, out in zip(groups, reqs, outs):
        if "error" in out:
            ctx.oblige(f"T2 {label}: API.build on generated shapes", False, json.dumps(out)[:600])
            continue
        for c in g:
            o = out["methods"].get("Library." + c["rpc"])
            if o is None:
                ctx.oblige(f"T2 {label}: method {c['rpc']} present in the schema", False, str(list(out["methods"])[:5]))
                continue
            c["impl"] = o
            names = {f["name"] for f in c["req"]}
            feats = list(c["tags"]) + ["paged" if o["paged"] else "not-paged"]
            ctx.case({"req": c["req"], "resp": c["resp"]}, nontrivial=bool(names & {"page_token", "page_size", "max_results"}), feature=feats)
            RQ, RS = coq_shape(c["req"], c["req_fqn"]), coq_shape(c["resp"], c["resp_fqn"])
            checks.append((f"{c['rpc']} {c['tags']}: paged_result_field req={short_shape(c['req'])} resp={short_shape(c['resp'])} impl={o['paged']}",
                           f"option_eqb String.eqb (option_map fname (paged_result_field {RQ} {RS})) {coq.opt(o['paged'])}"))
            checks.append((f"{c['rpc']}: map flag of the item field",
                           f"Bool.eqb (match paged_result_field {RQ} {RS} with Some f => fmap f | None => false end) {coq.b(o['map'])}"))
            # ---- direct oracle ----
            gap = classify_gap(c["req"], c["resp"], o["paged"] is not None)
            if gap is not None:
                sig, why = gap
                pending.append((sig, f"method classified as {'paginated' if o['paged'] else 'not paginated'} but the property's rule says "
                                     f"{'not paginated' if o['paged'] else 'paginated'} ({why}): request {short_shape(c['req'])}, response {short_shape(c['resp'])}", c))
            if o["paged"] is not None and o["paged"] != first_repeated(c["resp"]):
                pending.append((None, f"item field is {o['paged']!r} but the first repeated response field is {first_repeated(c['resp'])!r}", c))
            if o["paged"] is not None:
                want_sync, want_async = c["rpc"] + "Pager", c["rpc"] + "AsyncPager"
                if (o["client_output"], o["client_output_async"]) != (want_sync, want_async):
                    pending.append((None, f"paged method exposes {o['client_output']}/{o['client_output_async']} instead of its pagers", c))
            elif o["client_output"].endswith("Pager") or o["client_output_async"].endswith("Pager"):
                pending.append((None, f"method that is not paged exposes a pager type {o['client_output']}", c))
    failing, errors, nfiles = coq.eval_checks("c07cls" + re.sub(r"\W", "", label), IMPORTS, "", checks)
    ctx.oblige(f"T2 {label}: Model.paged_result_field = Method.paged_result_field on {len(checks) // 2} shapes ({nfiles} cases files)",
               not failing and not errors and len(checks) > 0, "; ".join((failing + errors)[:6]))
    ctx.notes.setdefault("classification_disagreements", []).extend(failing[:10])
    return pending


def short_shape(shape):
    def one(f):
        t = f["type"]
        if f["map"]:
            t = f"map<{f['map'][0]},{short(f['map'][1])}>"
        elif ":" in t:
            t = short(t) if not t.startswith("msg:.acme") else "acme." + short(t)
        pres = f.get("presence")
        pre = "optional " if pres == "optional" else (f"oneof({pres[6:]}) " if pres else "")
        return f"{pre}{'repeated ' if f['repeated'] and not f['map'] else ''}{t} {f['name']}" + (f" = {f['number']}" if "number" in f else "")
    return "{" + "; ".join(one(f) for f in shape) + "}"


def report(ctx, pending):
    """Unknown-class violations first (main.py prints at most five replays), known candidate-defect classes last."""
    def emit(sig, what, c):
        if str(c.get("kind", "")).startswith("drive") or str(c.get("kind", "")).startswith("witness"):
            ctx.violation(what, c, sig)
            return
        case = {"kind": "classify", "req": c["req"], "resp": c["resp"], "impl": c.get("impl")}
        try:
            case["request_b64"] = apigen.req_b64(classify_api([dict(req=c["req"], resp=c["resp"], tags=[])]))
        except Exception as e:  # noqa
            case["request_error"] = repr(e)
        ctx.violation(what, case, sig)
    seen = set()
    unknown = [p for p in pending if p[0] is None]
    cls_first = [p for p in unknown if not str(p[2].get("kind", "")).startswith("drive")][:3]
    groups = {}
    for p in unknown:
        if str(p[2].get("kind", "")).startswith("drive"):
            key = re.sub(r"[0-9]+|'[^']*'|\[.*?\]", "#", p[1].split(": ", 1)[-1])[:40]
            groups.setdefault(key, []).append(p)
    drive_some = [g[0] for g in groups.values()][:4]
    for sig, what, c in cls_first + drive_some:
        emit(sig, what, c)
    for sig, what, c in [p for p in pending if p[0] is not None]:
        if sig not in seen:
            seen.add(sig)
            emit(sig, what, c)
    ctx.notes["oracle_disagreements_by_signature"] = {str(k): sum(1 for p in pending if p[0] == k) for k in {p[0] for p in pending}}


# the three shapes on which code and sentence used to differ (fixed by /repo 40fb15d; Example former_gaps_closed), replayed in every run
WITNESSES = [
    {"tags": ["witness-wrapper_page_size"], "req": [fld("parent", "string"), fld("page_size", "msg:" + WRAP + "Int32Value"), fld("page_token", "string")],
     "resp": [fld("books", "msg:." + PKG + ".Book", True), fld("next_page_token", "string")], "expect_impl": False, "expect_spec": False},
    {"tags": ["witness-shadowed_page_size"], "req": [fld("max_results", "string"), fld("page_size", "int32"), fld("page_token", "string")],
     "resp": [fld("books", "msg:." + PKG + ".Book", True), fld("next_page_token", "string")], "expect_impl": True, "expect_spec": True},
    {"tags": ["witness-repeated_paging_field"], "req": [fld("page_size", "int32"), fld("page_token", "string", True)],
     "resp": [fld("books", "msg:." + PKG + ".Book", True), fld("next_page_token", "string")], "expect_impl": False, "expect_spec": False},
]


def load_corpus():
    d = os.path.join(env.VERIF, "corpus", "C07")
    out = []
    if os.path.isdir(d):
        for n in sorted(os.listdir(d)):
            if n.endswith(".json"):
                c = json.load(open(os.path.join(d, n)))
                if c.get("kind") == "classify":
                    out.append({"req": c["req"], "resp": c["resp"], "tags": ["corpus:" + n]})
    return out


# ---------------------------------------------------------------------------------------------- generated libraries
LIB_PACKAGES = [("google.example.library.v1", "google.example.library_v1"), ("acme.storage.v2", "acme.storage_v2"),
                ("google.cloud.widgets.v1beta1", "google.cloud.widgets_v1beta1")]
RPC_WORDS = ["Books", "Shelves", "Notes", "Topics", "Jobs", "Rings", "Widgets", "Assets", "Feeds", "Zones", "Sites", "Queues"]
VERBS = ["List", "Search", "Fetch", "Query"]


def snake(s):
    return re.sub(r"(?<=[a-z0-9])([A-Z])", r"_\1", s).lower()


def library_api(r, transports):
    """A library with paged methods of many shapes (and some that are not paged). Returns (request, info)."""
    pkg, pypkg = r.choice(LIB_PACKAGES)
    d = "/".join(pkg.split("."))
    two_files = r.random() < 0.6
    from google.api import field_info_pb2
    deps = list(apigen.STD_DEPS) + ["google/protobuf/wrappers.proto", "google/rpc/status.proto", "google/api/field_info.proto"]
    second = File(f"{d}/resources.proto", pkg, deps=list(apigen.STD_DEPS))
    main = File(f"{d}/service.proto", pkg, deps=deps + ([second.proto.name] if two_files else []))
    item_file = second if two_files else main
    item = item_file.message("Book").field("name", 1, "string").field("pages", 2, "int32").field("tags", 3, "string", repeated=True)
    shelf = main.message("Shelf").field("name", 1, "string").field("theme", 2, "string")
    view = main.enum("View", ["VIEW_UNSPECIFIED", "BASIC", "FULL"])
    opts = main.message("ListOptions").field("deep", 1, "bool").field("hint", 2, "string")
    svc_name = r.choice(["Library", "Catalog", "StorageAdmin"])
    # most services declare (google.api.api_version): the x-goog-api-version header is then one of the call's metadata entries and
    # must accompany every follow-up fetch like the rest
    api_version = r.choice(["v1_20240408", "2025-01-01", "v2beta", None])
    svc = main.service(svc_name, host="library.example.com", scopes="https://www.googleapis.com/auth/cloud-platform", api_version=api_version)
    size_variants = [("page_size", "int32"), ("page_size", "int64"), ("page_size", "uint32"), ("page_size", "sint32"), ("page_size", "fixed64"),
                     ("max_results", "int32"), ("max_results", "msg:" + WRAP + "UInt32Value"), ("max_results", "msg:" + WRAP + "Int32Value"),
                     ("page_size", "msg:" + WRAP + "Int32Value"), ("both", "int32")]
    item_variants = [
        ("message", lambda: fld("books", "msg:" + item.fqn, True)),
        ("message", lambda: fld("shelves", "msg:" + shelf.fqn, True)),
        ("other-package-message", lambda: fld("statuses", "msg:.google.rpc.Status", True)),
        ("scalar-string", lambda: fld("names", "string", True)),
        ("scalar-int", lambda: fld("numbers", "int64", True)),
        ("enum", lambda: fld("views", "enum:" + view, True)),
        ("map-string-string", lambda: fld("labels", "string", map_=("string", "string"))),
        # (a map whose value message lives in another file than the response is the known import defect: see witness_map_import)
        ("map-string-message", lambda: fld("by_name", "msg", map_=("string", "msg:" + shelf.fqn))),
    ]
    rpcs = []
    words = r.sample(RPC_WORDS, r.randint(4, 6))
    for i, w in enumerate(words):
        name = r.choice(VERBS) + w
        sname, stype = r.choice(size_variants)
        ikind, imk = r.choice(item_variants)
        paged_intent = r.random() < 0.85
        req = [required(fld("parent", "string")) if r.random() < 0.85 else fld("parent", "string"),
               fld("filter", "string"), required(fld("order", "int32")) if r.random() < 0.3 else fld("order", "int32"),
               fld("tags", "string", True), fld("options", "msg:" + opts.fqn), fld("view", "enum:" + view)]
        if sname == "both":
            req += [fld("max_results", "int32"), fld("page_size", "int32")]
        else:
            req.append(fld(sname, stype))
        if paged_intent or r.random() < 0.5:
            req.append(fld("page_token", "string"))
        head, tail = req[:1], req[1:]
        r.shuffle(tail)
        req = head + tail
        resp = [imk()]
        if r.random() < 0.6:
            resp.append(fld("unreachable", "string", True))
        if r.random() < 0.3:
            resp.insert(0, fld("etag", "string"))
        resp.append(fld("total_size", "int32"))
        r.shuffle(resp)
        if paged_intent or r.random() < 0.5:
            resp.insert(r.randint(0, len(resp)), fld("next_page_token", "string"))
        # presence of the paging fields: the first method of a library is the Compute shape (all proto3 optional), the second has
        # its tokens in real oneofs, the others are drawn
        pres = ["optional-all", "oneof"][i] if i < 2 else r.choice(["plain", "plain", "optional-tokens", "optional-all", "oneof"])
        if pres != "plain":
            tok_p = "oneof:position" if pres == "oneof" else "optional"
            nxt_p = "oneof:next" if pres == "oneof" else "optional"
            size_p = "optional" if pres == "optional-all" else None
            req = [with_presence(f, tok_p if f["name"] == "page_token" else size_p if f["name"] in ("page_size", "max_results") else None) for f in req]
            resp = [with_presence(f, nxt_p if f["name"] == "next_page_token" else None) for f in resp]
            if pres == "oneof":
                req.append(fld("cursor", "string", presence="oneof:position"))
                resp.append(fld("next_cursor", "string", presence="oneof:next"))
        # some paged methods are named in publishing.method_settings with auto_populated_fields (AIP-4235): the request id is part
        # of "all other request fields" and must be the same on every page of one listing
        auto = []
        if i == 0 or r.random() < 0.3:
            req.append(fld("request_id", "string"))
            auto = ["request_id"]
            if r.random() < 0.5:
                req.append(fld("opt_request_id", "string", presence="optional"))
                auto.append("opt_request_id")
        if r.random() < 0.6:
            renumber(r, resp)
        if r.random() < 0.3:
            renumber(r, req)
        rq, rs = main.message(name + "Request"), main.message(name + "Response")
        add_fields(rq, req, main)
        add_fields(rs, resp, main)
        for fpb in rq.proto.field:
            if fpb.name in auto:
                fpb.options.Extensions[field_info_pb2.field_info].format = field_info_pb2.FieldInfo.UUID4
        coll = snake(w).replace("_", "")
        svc.rpc(name, rq.fqn, rs.fqn, http=("get", f"/v1/{{parent=projects/*}}/{coll}"))
        rpcs.append({"name": name, "snake": snake(name), "req": req, "resp": resp, "req_fqn": rq.fqn, "resp_fqn": rs.fqn,
                     "path": f"/{pkg}.{svc_name}/{name}", "item_kind": ikind, "size": (sname, stype), "coll": coll, "presence": pres, "auto": auto})
    files = ([second] if two_files else []) + [main]
    request = apigen.request(files, parameter="transport=" + transports)
    info = {"package": pkg, "pypkg": pypkg, "service": svc_name, "module": snake(svc_name), "rpcs": rpcs, "transports": transports,
            "two_files": two_files, "api_version": api_version,
            "method_settings": [{"selector": f"{pkg}.{svc_name}.{m['name']}", "auto_populated_fields": m["auto"]} for m in rpcs if m["auto"]]}
    return request, info


# ---- T1 extractors (ast only; fail-closed) ----
def _strip(node):
    for n in ast.walk(node):
        if isinstance(n, (ast.FunctionDef, ast.AsyncFunctionDef, ast.ClassDef)):
            b = n.body
            if b and isinstance(b[0], ast.Expr) and isinstance(b[0].value, ast.Constant) and isinstance(b[0].value.value, str):
                n.body = b[1:] or [ast.Pass()]
        if isinstance(n, (ast.FunctionDef, ast.AsyncFunctionDef)):
            n.returns = None
            for a in n.args.args + n.args.kwonlyargs + n.args.posonlyargs:
                a.annotation = None
            if n.args.vararg:
                n.args.vararg.annotation = None
            if n.args.kwarg:
                n.args.kwarg.annotation = None
    return node


def extract_pagers(src):
    """[(class name, canonical lines, callee of the request copy)] for every class of pagers.py; anything else at class level raises."""
    tree = ast.parse(src)
    out = []
    for n in tree.body:
        if isinstance(n, (ast.Import, ast.ImportFrom, ast.Try)):
            continue
        if isinstance(n, ast.Expr) and isinstance(n.value, ast.Constant):
            continue
        if not isinstance(n, ast.ClassDef):
            raise ValueError(f"unexpected top-level statement in pagers.py: {type(n).__name__}")
        if n.bases or n.keywords or n.decorator_list:
            raise ValueError(f"pager class {n.name} has bases/decorators")
        callee = None
        for fn in n.body:
            if isinstance(fn, ast.FunctionDef) and fn.name == "__init__":
                for st in fn.body:
                    if (isinstance(st, ast.Assign) and len(st.targets) == 1 and ast.unparse(st.targets[0]) == "self._request"
                            and isinstance(st.value, ast.Call) and len(st.value.args) == 1 and not st.value.keywords
                            and isinstance(st.value.args[0], ast.Name)):
                        callee = ast.unparse(st.value.func)
                        st.value.func = ast.Name(id="REQUEST_TYPE", ctx=ast.Load())
        lines = [l for l in ast.unparse(_strip(n)).split("\n") if l.strip()]
        out.append((n.name, lines, callee))
    return out


def extract_wraps(src, class_name, method_names):
    """{method: None | (pager class, [(kw, value source)])} for the given methods of the client class."""
    tree = ast.parse(src)
    cls = next((n for n in tree.body if isinstance(n, ast.ClassDef) and n.name == class_name), None)
    if cls is None:
        raise ValueError(f"class {class_name} not found")
    out = {}
    for m in method_names:
        fn = next((f for f in cls.body if isinstance(f, (ast.FunctionDef, ast.AsyncFunctionDef)) and f.name == m), None)
        if fn is None:
            raise ValueError(f"method {class_name}.{m} not found")
        found = []
        for node in ast.walk(fn):
            if isinstance(node, ast.Call) and "pagers." in ast.unparse(node.func):
                found.append(node)
        if not found:
            out[m] = None
            continue
        if len(found) > 1:
            raise ValueError(f"{class_name}.{m}: more than one pager construction")
        call = found[0]
        # it must be exactly  response = pagers.X(...)  as the last assignment before the return
        asg = [s for s in fn.body if isinstance(s, ast.Assign) and s.value is call]
        if (len(asg) != 1 or ast.unparse(asg[0].targets[0]) != "response" or call.args
                or not (isinstance(call.func, ast.Attribute) and isinstance(call.func.value, ast.Name) and call.func.value.id == "pagers")):
            raise ValueError(f"{class_name}.{m}: unexpected shape of the pager construction: {ast.unparse(call)[:120]}")
        after = fn.body[fn.body.index(asg[0]) + 1:]
        if [ast.unparse(s) for s in after] != ["return response"]:
            raise ValueError(f"{class_name}.{m}: statements after the pager construction: {[ast.unparse(s)[:40] for s in after]}")
        out[m] = (call.func.attr, [(k.arg, ast.unparse(k.value)) for k in call.keywords])
    return out


def coq_rpc(m):
    return f"(mkRpc {coq.s(m['name'])} {coq_shape(m['req'], m['req_fqn'])} {coq_shape(m['resp'], m['resp_fqn'])})"


def coq_wrap(w):
    if w is None:
        return "None"
    return f"(Some ({coq.s(w[0])}, {coq.pairs(w[1])}))"


def t1_checks(ctx, i, info, files):
    """Emitted pagers.py and the paged branch of both clients = what the model emits for the same shapes."""
    checks = []
    base = None
    for name in files:
        m = re.search(r"^(.*)/services/" + info["module"] + r"/client\.py$", name)
        if m:
            base = m.group(1)
    if base is None:
        ctx.oblige(f"lib#{i}: T1 client.py of {info['module']} emitted", False, str(sorted(files)[:8]), "T1")
        return checks
    d = f"{base}/services/{info['module']}/"
    has_grpc = "grpc" in info["transports"]
    rpcs_term = coq.lst(coq_rpc(m) for m in info["rpcs"])
    try:
        classes = extract_pagers(files[d + "pagers.py"])
        checks.append((f"lib#{i} pagers.py classes {[c[0] for c in classes]}",
                       f"list_eqb lines_eqb (pagers_module {coq.b(has_grpc)} {rpcs_term}) {coq.lst(coq.slist(c[1]) for c in classes)}"))
        by_name = {m["name"]: m for m in info["rpcs"]}
        bad = []
        for cname, _, callee in classes:
            rpc = re.sub(r"(Async)?Pager$", "", cname)
            want = short(by_name[rpc]["req_fqn"]) if rpc in by_name else None
            if callee is None or callee.split(".")[-1] != want:
                bad.append(f"{cname}: callee={callee} want={want}")
        ctx.oblige(f"lib#{i}: T1 every pager class ({len(classes)}) copies the request with the method's own request type", not bad, "; ".join(bad), "T1")
    except Exception as e:  # noqa
        ctx.oblige(f"lib#{i}: T1 extraction of pager classes from {d}pagers.py", False, repr(e), "T1")
    for fname, cls, is_async in (("client.py", info["service"] + "Client", False), ("async_client.py", info["service"] + "AsyncClient", True)):
        if is_async and not has_grpc:
            continue
        try:
            wraps = extract_wraps(files[d + fname], cls, [m["snake"] for m in info["rpcs"]])
        except Exception as e:  # noqa
            ctx.oblige(f"lib#{i}: T1 extraction of the paged branch from {d}{fname}", False, repr(e), "T1")
            continue
        for m in info["rpcs"]:
            checks.append((f"lib#{i} {cls}.{m['snake']} wrapped as {wraps[m['snake']]}",
                           f"wrap_eqb (client_wrap {coq.b(is_async)} {coq_rpc(m)}) {coq_wrap(wraps[m['snake']])}"))
    return checks


# ---- histories and driving ----
TOKENS = ["t1", "next", "CAE=", "a/b c", "0", "tok-2", "p3?x=1&y", "é", "%41", "  "]
TIMEOUTS = [20.0, 40.0, 80.0]
DEFAULT_TIMEOUT = 60.0            # methodConfig default of every generated library (see retry_config)


def service_yaml(info):
    return {"type": "google.api.Service", "config_version": 3, "name": "library.example.com",
            "publishing": {"method_settings": info.get("method_settings") or []}}


def retry_config(info):
    """Service config given to the generator: every method of the service gets a default retry policy on UNAVAILABLE and a default
    timeout, so that DEFAULT and the caller's explicit retry=None / timeout=None are observably different."""
    return {"methodConfig": [{"name": [{"service": f"{info['package']}.{info['service']}"}], "timeout": f"{int(DEFAULT_TIMEOUT)}s",
                             "retryPolicy": {"maxAttempts": 4, "initialBackoff": "0.01s", "maxBackoff": "0.02s", "backoffMultiplier": 1.0,
                                             "retryableStatusCodes": ["UNAVAILABLE"]}}]}


def item_value(r, f, D, k):
    """One element for the item field f of a response, as (python value to store, ...) applied by the caller."""
    t = f["type"]
    if f["map"]:
        return None
    if t == "string":
        return r.choice(["a", "b", "", "x y", "item"]) + str(k)
    if t in INT_SCALARS:
        return r.choice([0, 1, -5, 2 ** 40]) + k
    return None


def fill_page(r, D, m, size, token, serial):
    """A response message (dynamic, from the input descriptors) with `size` items in the first repeated field."""
    msg = D.new(m["resp_fqn"].lstrip("."))
    item = next(f for f in m["resp"] if f["repeated"])
    seq = getattr(msg, item["name"])
    for k in range(size):
        uid = f"{serial}-{k}"
        if item["map"]:
            key = (serial * 10 + k) if item["map"][0] == "int32" else f"k{uid}"
            if item["map"][1].startswith("msg:"):
                seq[key].name = "v" + uid
            else:
                seq[key] = "v" + uid
        elif item["type"] == "string":
            seq.append(r.choice(["a", "", "x y", "it"]) + uid)
        elif item["type"] in INT_SCALARS:
            seq.append(r.choice([0, 1, -5, 2 ** 40]) + serial * 10 + k)
        elif item["type"].startswith("enum:"):
            seq.append(r.choice([0, 1, 2]))
        elif item["type"].endswith("google.rpc.Status"):
            e = seq.add()
            e.code, e.message = r.randint(0, 16), "m" + uid
        else:
            e = seq.add()
            e.name = "n" + uid
            if r.random() < 0.5 and "theme" in e.DESCRIPTOR.fields_by_name:
                e.theme = "th"
            if "pages" in e.DESCRIPTOR.fields_by_name and r.random() < 0.5:
                e.pages = r.randint(1, 900)
    for f in m["resp"]:
        if f["name"] == "total_size":
            msg.total_size = r.randint(0, 1000)
        elif f["name"] == "etag":
            msg.etag = f"e{serial}"
        elif f["name"] == "unreachable" and f is not item:
            msg.unreachable.extend([f"u{serial}"] * r.randint(0, 2))
    msg.next_page_token = token
    return msg


def canon_item(x):
    return json.dumps(x, sort_keys=True, ensure_ascii=True)


def items_of_dynamic(msg, item):
    """Canonical strings of the items of a scripted page, in server order (map entries sorted by key)."""
    v = getattr(msg, item["name"])
    if item["map"]:
        out = []
        for k in v:
            val = v[k]
            out.append(canon_item([k, dyn.Dyn.canon(val) if hasattr(val, "DESCRIPTOR") else val]))
        return sorted(out)
    return [canon_item(dyn.Dyn.canon(x) if hasattr(x, "DESCRIPTOR") else x) for x in v]


def decode_enc(D, enc, item, elem_fqn):
    """Canonical string of one item as the caller received it (messages re-decoded under the *input* descriptors)."""
    def val(e, fqn):
        if e["kind"] == "msg":
            return dyn.Dyn.canon(D.parse(fqn, e["b64"]))
        if e["kind"] == "scalar":
            return e["value"]
        if e["kind"] == "bytes":
            return "bytes:" + e["b64"]
        return {"undecodable": e}
    if item["map"]:
        if enc.get("kind") != "list" or len(enc["items"]) != 2:
            return canon_item({"not-a-pair": enc})
        vt = item["map"][1]
        return canon_item([val(enc["items"][0], None), val(enc["items"][1], vt[4:].lstrip(".") if vt.startswith("msg:") else None)])
    return canon_item(val(enc, elem_fqn))


def elem_fqn_of(item):
    t = item["type"]
    return t[4:].lstrip(".") if t.startswith("msg:") else None


def attrs_of_dynamic(msg, names):
    d = {}
    for n in names:
        v = getattr(msg, n)
        d[n] = list(v) if not isinstance(v, (str, int, bool)) else v
    return canon_item(d)


def attrs_of_snapshot(snap, names):
    d = {}
    for n in names:
        e = snap.get(n, {"kind": "missing"})
        if e.get("kind") == "scalar":
            d[n] = e["value"]
        elif e.get("kind") == "list":
            d[n] = [x.get("value") for x in e["items"]]
        else:
            d[n] = {"undecodable": e}
    return canon_item(d)


def gen_history(r):
    """(visited pages sizes+tokens, unreachable extra pages). The last visited page has the empty token."""
    n = r.choice([1, 1, 2, 2, 3, 3, 4, 5])
    pages = []
    for k in range(n):
        size = r.choice([0, 0, 1, 2, 3])
        tok = "" if k == n - 1 else r.choice(TOKENS)
        pages.append((size, tok))
    extra = [(r.randint(0, 3), r.choice(TOKENS + [""])) for _ in range(r.choice([0, 0, 1, 2]))]
    return pages, extra


def nearest_timeout(x):
    if x is None or x > 1e9:      # no deadline
        return None
    best = min(TIMEOUTS + [DEFAULT_TIMEOUT], key=lambda t: abs(t - x))
    return best if abs(best - x) < 9.0 else round(x, 1)


VOLATILE_MD = {"user-agent", "accept-encoding", "grpc-accept-encoding", "content-type", "te", "grpc-trace-bin", "grpc-tags-bin"}


def observed_grpc_call(D, m, g):
    """(token, canonical other fields, canonical options) of one call recorded by the loopback gRPC server."""
    if len(g["requests"]) != 1:
        return ("<%d request messages>" % len(g["requests"]), "", "")
    msg = D.parse(m["req_fqn"].lstrip("."), g["requests"][0])
    tok = msg.page_token
    msg.ClearField("page_token")
    md = sorted([k, v] for k, v in g["metadata"] if k.lower() not in VOLATILE_MD)
    return (tok, canon_item(dyn.Dyn.canon(msg)), canon_item({"metadata": md, "timeout": nearest_timeout(g.get("time_remaining"))}))


def observed_http_call(h, sent_md):
    q = [[k, v] for k, v in h["query"] if k != "pageToken"]
    toks = [v for k, v in h["query"] if k == "pageToken"]
    tok = toks[0] if len(toks) == 1 else ("" if not toks else "<several pageToken>")
    keys = {k.lower() for k, _ in sent_md} | {"x-goog-request-params"}
    md = sorted([k.lower(), v] for k, v in h["headers"] if k.lower() in keys)
    return (tok, canon_item({"verb": h["verb"], "path": h["path"], "query": sorted(q), "body": h["body"]}), canon_item({"metadata": md}))


def coq_call(c):
    return f"(mkCall {coq.s(c[0])} {coq.s(c[1])} {coq.s(c[2])})"


def coq_page(p):
    return f"(mkPage {coq.slist(p[0])} {coq.s(p[1])} {coq.s(p[2])})"


def build_drive_calls(r, D, info, m, kinds):
    """Calls (pagedrive specs + what the harness knows about them) for one paged method."""
    item = next(f for f in m["resp"] if f["repeated"])
    attr_names = ["next_page_token"] + [f["name"] for f in m["resp"] if f["name"] in ("total_size", "etag")]
    snap_names = attr_names + [item["name"]]
    # the caller's request
    rq = D.new(m["req_fqn"].lstrip("."))
    rq.parent = "projects/" + r.choice(["p1", "my-proj", "x_9"])
    has = rq.DESCRIPTOR.fields_by_name
    if "filter" in has and r.random() < 0.7:
        rq.filter = r.choice(["a=b", "x", "name:\"q\""])
    if "order" in has and r.random() < 0.5:
        rq.order = r.randint(1, 9)
    if "tags" in has and r.random() < 0.5:
        rq.tags.extend(["t", "u"][: r.randint(1, 2)])
    if "options" in has and r.random() < 0.4:
        rq.options.deep = True
        rq.options.hint = "h"
    if "view" in has and r.random() < 0.3:
        rq.view = 2
    for sf in ("page_size", "max_results"):
        fd = rq.DESCRIPTOR.fields_by_name.get(sf)
        if fd is not None and r.random() < 0.8:
            if fd.message_type is not None:
                getattr(rq, sf).value = r.randint(1, 50)
            else:
                setattr(rq, sf, r.randint(1, 50))
    if r.random() < 0.25:
        rq.page_token = r.choice(["start", "resume-7"])
    id_mode = "none"
    if m.get("auto"):
        id_mode = r.choice(["left-to-client", "caller-supplied"])
        if id_mode == "caller-supplied":
            for n in m["auto"]:
                setattr(rq, n, "caller-" + n + "-0451")
    pages, extra = gen_history(r)
    serials = list(range(1, len(pages) + len(extra) + 1))
    msgs = [fill_page(r, D, m, sz, tok, s) for (sz, tok), s in zip(pages + extra, serials)]
    tmode = r.choice(["value", "value", "unset", "none", "none"])      # a value / not passed (method default) / explicit None (no deadline)
    timeout = r.choice(TIMEOUTS) if tmode == "value" else (DEFAULT_TIMEOUT if tmode == "unset" else None)
    md = [["x-test-opt", r.choice(["v1", "abc"])]] if r.random() < 0.7 else []
    ck = {}
    if tmode != "unset":
        ck["timeout"] = timeout
    if r.random() < 0.3:
        ck["retry"] = "none"
    if md:
        ck["metadata"] = md
    hist = {"pages": [[items_of_dynamic(x, item), x.next_page_token, attrs_of_dynamic(x, attr_names[1:])] for x in msgs],
            "visited": len(pages)}
    out = []
    nvis = len(pages)
    total_items = sum(len(p[0]) for p in hist["pages"][:nvis])
    # leave the loop while holding page N >= 2 whenever the history has one; leave the item loop after j >= 1 items
    brk_page = r.randint(1, nvis - 1) if nvis >= 2 else 0
    brk_item = r.randint(1, total_items) if total_items and not item["map"] else None
    modes = [("items", None), ("pages", None), ("pages-break", brk_page)] + ([("items-break", brk_item)] if brk_item else [])
    for kind in kinds:
        for mode, brk in modes:
            spec = {"service_module": info["module"], "client": info["service"] + ("AsyncClient" if kind == "grpc_asyncio" else "Client"),
                    "transport": kind, "method": m["snake"],
                    "request": {"cls": f"{info.get('types_mod') or info['pypkg'] + '.types'}:{short(m['req_fqn'])}", "b64": dyn.Dyn.b64(rq)},
                    "call_kwargs": ck, "mode": mode, "item_field": item["name"], "is_map": bool(item["map"]), "attr_names": snap_names}
            if brk is not None:
                spec["break_after"] = brk
            if kind == "rest":
                spec["http_script"] = [{"status": 200, "body": json_format.MessageToJson(x)} for x in msgs]
            else:
                spec["grpc_script"] = {m["path"]: [{"messages": [dyn.Dyn.b64(x)]} for x in msgs]}
            out.append({"spec": spec, "hist": hist, "kind": kind, "mode": mode, "item": item, "attr_names": attr_names,
                        "sent_token": rq.page_token, "sent_filter": rq.filter if "filter" in has else "", "md": md, "timeout": timeout, "timeout_mode": tmode, "m": m, "id_mode": id_mode})
    return out


def eval_drive(ctx, D, info, lib_i, req_b64, call, res, checks, pending):
    """Oracle + Coq terms for one driven call."""
    m, item, hist, kind, mode = call["m"], call["item"], call["hist"], call["kind"], call["mode"]
    names = call["attr_names"]
    case = {"kind": "drive", "request_b64": req_b64, "info": {k: info.get(k) for k in ("package", "pypkg", "service", "module", "transports", "api_version", "method_settings", "ads", "types_mod")},
            "rpc": m["name"], "call": {k: v for k, v in call.items() if k not in ("observed", "_generated_ids")}}
    brk = call["spec"].get("break_after")
    label = f"lib#{lib_i} {m['name']} {kind} {mode}{'' if brk is None else '@' + str(brk)} pages={[(len(p[0]), p[1]) for p in hist['pages']]} visited={hist['visited']}"
    full = hist["pages"][: hist["visited"]]
    # the pages the consumer has pulled when it stops (all of them unless it breaks out early)
    if mode == "pages-break":
        visited = full[: brk + 1]
    elif mode == "items-break":
        acc, kpage = 0, 0
        for kpage, p in enumerate(full):
            acc += len(p[0])
            if acc >= brk:
                break
        visited = full[: kpage + 1]
    else:
        visited = full
    ctx.case({"lib": lib_i, "rpc": m["name"], "kind": kind, "mode": mode, "hist": hist, "sent_token": call["sent_token"]},
             nontrivial=len(visited) > 1 or any(p[0] for p in visited),
             feature=[f"drive-{kind}", f"mode-{mode}", f"pages={len(full)}", "ads-templates" if info.get("ads") else "default-templates", "service-with-api_version" if info.get("api_version") else "service-without-api_version", "break-holding-page>=2" if mode == "pages-break" and brk >= 1 else "no-late-break", f"item-{m['item_kind']}", f"size-{m['size'][0]}:{short(m['size'][1])}", f"paging-fields-{m.get('presence', 'plain')}",
                      "empty-intermediate-page" if any(not p[0] for p in visited[:-1]) else "no-empty-intermediate",
                      "unreachable-extra-pages" if len(hist["pages"]) > hist["visited"] else "no-extra-pages",
                      "initial-token" if call["sent_token"] else "no-initial-token", f"timeout-{call.get('timeout_mode', 'value')}", f"request-id-{call.get('id_mode', 'none')}",
                      "retry-none" if call["spec"]["call_kwargs"].get("retry") == "none" else "retry-unset"])
    if not res.get("ok"):
        pending.append((None, f"{label}: iterating the pager raised {res.get('error')}", case))
        return
    out = res["result"]
    want_type = m["name"] + ("AsyncPager" if kind == "grpc_asyncio" else "Pager")
    if out["type"] != want_type:
        pending.append((None, f"{label}: the method returned a {out['type']}, not a {want_type}", case))
    # ---- what the server saw ----
    if kind == "rest":
        calls = [observed_http_call(h, call["md"]) for h in res["http_calls"]]
        first = calls[0] if calls else ("", "", "")
        first_expected = (call["sent_token"], first[1], first[2])
        q = dict(json.loads(first[1])["query"]) if calls else {}
        if calls and call["sent_filter"] and q.get("filter") != call["sent_filter"]:
            pending.append((None, f"{label}: first REST call lost the filter field", case))
    else:
        calls = [observed_grpc_call(D, m, g) for g in res["grpc_calls"]]
        sent = D.parse(m["req_fqn"].lstrip("."), call["spec"]["request"]["b64"])
        sent.ClearField("page_token")
        if m.get("auto") and res["grpc_calls"] and len(res["grpc_calls"][0]["requests"]) == 1:
            # an id the caller left unset is populated by the client for the FIRST request: it must be a version-4 UUID, and is then
            # one of the request's fields like any other (the same on every follow-up page)
            first_msg = D.parse(m["req_fqn"].lstrip("."), res["grpc_calls"][0]["requests"][0])
            for n in m["auto"]:
                if not getattr(sent, n):
                    v = getattr(first_msg, n)
                    if not UUID4.match(v):
                        pending.append((None, f"{label}: auto-populated field {n} left unset by the caller was sent as {v!r} on the first page, not a version-4 UUID", case))
                    setattr(sent, n, v)
                    call.setdefault("_generated_ids", []).append(v)
        first_expected = (call["sent_token"], canon_item(dyn.Dyn.canon(sent)), None)
        if calls:
            opts = json.loads(calls[0][2])
            want_md = [list(x) for x in call["md"]]
            if any(x not in opts["metadata"] for x in want_md) or opts["timeout"] != call["timeout"]:      # unset: the configured default
                pending.append((None, f"{label}: first call options at the server {opts} do not carry metadata {want_md} / timeout {call['timeout']}", case))
            first_expected = (first_expected[0], first_expected[1], calls[0][2])
    elem = elem_fqn_of(item)
    # ---- direct oracle: the property's sentence on these observations ----
    problems = []
    if len(calls) != len(visited):
        problems.append(f"server saw {len(calls)} calls for {len(visited)} pages up to the first empty token")
    for k, c in enumerate(calls):
        exp_tok = first_expected[0] if k == 0 else (visited[k - 1][1] if k - 1 < len(visited) else None)
        if c[0] != exp_tok:
            problems.append(f"call {k} carried page_token {c[0]!r}, expected {exp_tok!r}")
        if k == 0 and c[1] != first_expected[1]:
            problems.append("first call does not carry the caller's request fields")
        if k > 0 and (c[1] != calls[0][1]):
            idnote = " (a request id, whether populated by the client or supplied by the caller, belongs to the listing: it must not change between pages)" if m.get("auto") else ""
            problems.append(f"call {k} changed other request fields{idnote}: {c[1]} vs {calls[0][1]}")
        if k > 0 and (c[2] != calls[0][2]):
            problems.append(f"call {k} changed call options: {c[2]} vs {calls[0][2]}")
    if info.get("api_version") and kind != "rest":
        for k, c in enumerate(calls):
            md = dict(map(tuple, json.loads(c[2])["metadata"])) if c[2] else {}
            if md.get("x-goog-api-version") != info["api_version"]:
                problems.append(f"call {k} does not carry x-goog-api-version: {info['api_version']} (the service declares google.api.api_version): {c[2]}")
    exp_items = [x for p in visited for x in p[0]]
    if mode == "items-break":
        exp_items = exp_items[:brk]
    if mode in ("items", "items-break"):
        got = [decode_enc(D, e, item, elem) for e in out["items"]]
        if item["map"]:
            # map iteration order within one page is not server order: compare page by page as sorted lists
            regrouped, pos = [], 0
            for p in visited:
                regrouped += sorted(got[pos:pos + len(p[0])])
                pos += len(p[0])
            got = regrouped + got[pos:]
        if got != exp_items:
            problems.append(f"yielded items {got} != items of the visited pages in server order {exp_items}")
        obs_pages = None
    else:
        obs_pages = []
        for k, pg in enumerate(out["pages"]):
            its = [decode_enc(D, e, item, elem) for e in pg["items"]]
            its = sorted(its) if item["map"] else its
            snap = pg["snapshot"]
            obs_pages.append((its, (snap.get("next_page_token") or {}).get("value"), attrs_of_snapshot(snap, names[1:])))
            if k < len(visited):
                if its != visited[k][0]:
                    problems.append(f"page {k} yielded {its}, server sent {visited[k][0]}")
                if obs_pages[-1][1] != visited[k][1] or obs_pages[-1][2] != visited[k][2]:
                    problems.append(f"while page {k} is current the pager exposes token/attrs {obs_pages[-1][1:]} not the page's {visited[k][1:]}")
        if len(obs_pages) != len(visited):
            problems.append(f"{len(obs_pages)} pages yielded, {len(visited)} expected")
    fin = out["final"]
    fin_items = fin.get(item["name"], {})
    fin_list = [decode_enc(D, e, item, elem) for e in fin_items.get("items", [])] if fin_items.get("kind") == "list" else ["<not a list>"]
    fin_list = sorted(fin_list) if item["map"] else fin_list
    final_page = (fin_list, (fin.get("next_page_token") or {}).get("value"), attrs_of_snapshot(fin, names[1:]))
    if visited and (final_page[1] != visited[-1][1] or final_page[2] != visited[-1][2] or final_page[0] != visited[-1][0]):
        problems.append(f"after {'leaving the loop early' if brk is not None else 'iteration'} the pager exposes {final_page}, the most recent page is {visited[-1]}")
    for p in problems[:3]:
        pending.append((None, f"{label}: {p}", case))
    def anonymous(c):        # ids generated by the client differ between two runs: compare runs with the ids blanked
        f = c[1]
        for v in call.get("_generated_ids", []):
            f = f.replace(v, "<generated-id>")
        return (c[0], f, c[2])
    call["observed"] = {"calls": [anonymous(c) for c in calls], "items": got if mode in ("items", "items-break") else None,
                        "pages_through_pager": obs_pages, "attributes_after": final_page}
    # ---- model = implementation, inside Coq ----
    is_async = coq.b(kind == "grpc_asyncio")
    firstc = coq_call((first_expected[0], first_expected[1], first_expected[2] if first_expected[2] is not None else ""))
    script = [coq_page(p) for p in hist["pages"]]
    obs_calls = coq.lst(coq_call(c) for c in calls)
    final_t = f"(Some {coq_page((final_page[0], final_page[1] if isinstance(final_page[1], str) else '<none>', final_page[2]))})"
    if mode == "items":
        checks.append((label, f"items_run_matches {is_async} {firstc} {script[0]} {coq.lst(script[1:])} {coq.slist(got)} {obs_calls} {final_t}"))
    elif mode == "items-break":
        checks.append((label, f"items_break_matches {is_async} {firstc} {script[0]} {coq.lst(script[1:])} {coq.nat(brk)} {coq.slist(got)} {obs_calls} {final_t}"))
    else:
        pg = coq.lst(coq_page((p[0], p[1] if isinstance(p[1], str) else "<none>", p[2])) for p in obs_pages)
        fn = "pages_run_matches" if mode == "pages" else f"pages_break_matches"
        arg = "" if mode == "pages" else f" {coq.nat(brk)}"
        checks.append((label, f"{fn} {is_async} {firstc} {script[0]} {coq.lst(script[1:])}{arg} {pg} {obs_calls} {final_t}"))


def retry_scenario(r, D, info, m, kinds):
    """The retry option of the call must govern the follow-up fetches exactly as it governed the first one.  Every library has a
    configured default retry on UNAVAILABLE (retry_config), so three values are observably different on a failing page 2:
    'explicit': the caller's Retry retries ABORTED (gRPC) / 409 (REST), which the default does not  -> page 2 is retried, 3 calls;
    'none':     the caller passes retry=None (switch retrying off)  -> the UNAVAILABLE of page 2 must SURFACE, 2 calls;
    'default':  nothing passed  -> the configured default retries UNAVAILABLE, 3 calls (control: the default is really active)."""
    item = next(f for f in m["resp"] if f["repeated"])
    rq = D.new(m["req_fqn"].lstrip("."))
    rq.parent = "projects/p1"
    p1, p2 = fill_page(r, D, m, 2, "t1", 1), fill_page(r, D, m, 1, "", 2)
    out = []
    for kind in kinds:
        for variant in ("explicit", "none", "default"):
            ck = {"timeout": 40.0}
            if variant == "explicit":
                ck["retry"] = {"codes": ["Conflict" if kind == "rest" else "Aborted"]}
            elif variant == "none":
                ck["retry"] = "none"
            spec = {"service_module": info["module"], "client": info["service"] + ("AsyncClient" if kind == "grpc_asyncio" else "Client"),
                    "transport": kind, "method": m["snake"], "request": {"cls": f"{info.get('types_mod') or info['pypkg'] + '.types'}:{short(m['req_fqn'])}", "b64": dyn.Dyn.b64(rq)},
                    "call_kwargs": ck, "mode": "items", "item_field": item["name"], "is_map": bool(item["map"]), "attr_names": ["next_page_token"]}
            if kind == "rest":
                status = 409 if variant == "explicit" else 503
                err = {"error": {"code": status, "message": "scripted", "status": "ABORTED" if status == 409 else "UNAVAILABLE"}}
                spec["http_script"] = [{"status": 200, "body": json_format.MessageToJson(p1)}, {"status": status, "body": json.dumps(err)},
                                       {"status": 200, "body": json_format.MessageToJson(p2)}]
            else:
                code = "ABORTED" if variant == "explicit" else "UNAVAILABLE"
                spec["grpc_script"] = {m["path"]: [{"messages": [dyn.Dyn.b64(p1)]}, {"code": code}, {"messages": [dyn.Dyn.b64(p2)]}]}
            out.append({"spec": spec, "retry": variant, "kind": kind, "m": m, "item": item,
                        "expected": items_of_dynamic(p1, item) + items_of_dynamic(p2, item)})
    return out


def eval_retry(ctx, D, info, i, b64, c, res, pending):
    m, item, variant, kind = c["m"], c["item"], c["retry"], c["kind"]
    case = {"kind": "drive-retry", "request_b64": b64, "rpc": m["name"], "pypkg": info["pypkg"], "spec": c["spec"], "variant": variant,
            "info": {k: info.get(k) for k in ("package", "pypkg", "service", "module", "transports", "api_version", "method_settings", "ads", "types_mod")}}
    ctx.case({"lib": i, "rpc": m["name"], "kind": kind, "retry": variant}, feature=[f"retry-{variant}-on-follow-up-{kind}"])
    ncalls = len(res["http_calls"] if kind == "rest" else res["grpc_calls"])
    label = f"lib#{i} {m['name']} {kind} retry={variant} (2 pages, page 2 fails once with {'ABORTED/409' if variant == 'explicit' else 'UNAVAILABLE'})"
    if variant == "none":
        err = res.get("error") or {}
        if res.get("ok") or "ServiceUnavailable" not in err.get("mro", []) or ncalls != 2:
            pending.append((None, f"{label}: the caller passed retry=None, so the failure of the follow-up fetch must surface after 2 calls; instead "
                                  f"{'iteration succeeded' if res.get('ok') else 'it raised ' + str(err.get('exception'))} and the server saw {ncalls} calls "
                                  f"(the follow-up fetch did not use the caller's retry option)", case))
        return
    if not res.get("ok"):
        pending.append((None, f"{label}: the retry option in force for the first call did not cover the follow-up page request: {res.get('error')}", case))
        return
    got = [decode_enc(D, e, item, elem_fqn_of(item)) for e in res["result"]["items"]]
    got = sorted(got[:2]) + got[2:] if item["map"] else got
    if got != c["expected"] or ncalls != 3:
        pending.append((None, f"{label}: items={got} calls={ncalls}, expected {c['expected']} after 3 calls", case))


def sequence_scenarios(r, D, info, m, kinds):
    """Multi-step sequences in which the caller OWNS a request message object and the results span >= 2 pages:
    'mutate': the caller changes its request object right after the pager was returned, then iterates;
    'again':  the caller drains the pager, then calls the method again with the same request object;
    'again-fresh': the caller drains the pager, then lists again in the same process with a freshly built, equal request.
    The property: follow-up requests = the ORIGINAL request with only page_token replaced; hence the pager must not
    share the caller's object, and the caller's object must not be modified by iteration."""
    item = next(f for f in m["resp"] if f["repeated"])
    attr_names = ["next_page_token"] + [f["name"] for f in m["resp"] if f["name"] in ("total_size", "etag")]
    rq = D.new(m["req_fqn"].lstrip("."))
    rq.parent = "projects/p1"
    has = rq.DESCRIPTOR.fields_by_name
    if "filter" in has:
        rq.filter = "a=b"
    if "order" in has:
        rq.order = 3
    if r.random() < 0.3:
        rq.page_token = "start"
    for n in m.get("auto") or []:
        setattr(rq, n, "caller-" + n + "-7")
    out = []
    for seq in ("mutate", "again", "again-fresh"):
        n1 = r.randint(2, 4)
        h1 = [fill_page(r, D, m, r.choice([1, 2, 0, 3]), "" if k == n1 - 1 else r.choice(TOKENS), k + 1) for k in range(n1)]
        h2 = [fill_page(r, D, m, r.choice([1, 2]), "" if k == 1 else "again-" + r.choice(TOKENS), 10 + k) for k in range(2)] if seq != "mutate" else []
        hist = lambda hs: [[items_of_dynamic(x, item), x.next_page_token, attrs_of_dynamic(x, attr_names[1:])] for x in hs]
        for kind in kinds:
            spec = {"service_module": info["module"], "client": info["service"] + ("AsyncClient" if kind == "grpc_asyncio" else "Client"),
                    "transport": kind, "method": m["snake"],
                    "request": {"cls": f"{info.get('types_mod') or info['pypkg'] + '.types'}:{short(m['req_fqn'])}", "b64": dyn.Dyn.b64(rq)},
                    "call_kwargs": {"timeout": 40.0}, "mode": "items", "item_field": item["name"], "is_map": bool(item["map"]),
                    "attr_names": attr_names + [item["name"]]}
            mutation = {}
            if seq == "mutate":
                mutation = {"parent": "projects/other-project"}
                if "filter" in has:
                    mutation["filter"] = "changed-by-caller"
                spec["mutate_after_create"] = mutation
            elif seq == "again":
                spec["list_again"] = True
            else:           # a second listing of the same rpc in the same process, with a FRESH request (and sometimes a fresh client)
                spec["list_again"] = "fresh"
                spec["fresh_client"] = r.random() < 0.5
            msgs = h1 + h2
            if kind == "rest":
                spec["http_script"] = [{"status": 200, "body": json_format.MessageToJson(x)} for x in msgs]
            else:
                spec["grpc_script"] = {m["path"]: [{"messages": [dyn.Dyn.b64(x)]} for x in msgs]}
            out.append({"spec": spec, "sequence": seq, "kind": kind, "m": m, "item": item, "attr_names": attr_names,
                        "hist1": hist(h1), "hist2": hist(h2), "mutation": mutation, "sent_token": rq.page_token})
    return out


def eval_sequence(ctx, D, info, lib_i, req_b64, call, res, checks, pending):
    m, item, kind, seq = call["m"], call["item"], call["kind"], call["sequence"]
    h1, h2 = call["hist1"], call["hist2"]
    case = {"kind": "drive-sequence", "request_b64": req_b64, "info": {k: info.get(k) for k in ("package", "pypkg", "service", "module", "transports", "api_version", "method_settings", "ads", "types_mod")},
            "rpc": m["name"], "call": call}
    label = f"lib#{lib_i} {m['name']} {kind} sequence={seq} pages={[(len(p[0]), p[1]) for p in h1]}" + (f" then again {[(len(p[0]), p[1]) for p in h2]}" if h2 else "")
    ctx.case({"lib": lib_i, "rpc": m["name"], "kind": kind, "sequence": seq, "hist1": h1, "hist2": h2, "sent_token": call["sent_token"]},
             feature=[f"sequence-{seq}-{kind}", f"item-{m['item_kind']}"])
    if not res.get("ok"):
        pending.append((None, f"{label}: the sequence raised {res.get('error')}", case))
        return
    out = res["result"]
    fqn = m["req_fqn"].lstrip(".")
    original = D.parse(fqn, call["spec"]["request"]["b64"])
    calls = [observed_http_call(h, []) for h in res["http_calls"]] if kind == "rest" else [observed_grpc_call(D, m, g) for g in res["grpc_calls"]]
    elem = elem_fqn_of(item)
    problems = []
    # (c) the caller's request object is not modified by the library (only by the caller itself)
    want = D.parse(fqn, call["spec"]["request"]["b64"])
    for k, v in call["mutation"].items():
        setattr(want, k, v)
    for key in ("caller_request_after", "caller_request_after_again"):
        if key in out:
            got = D.parse(fqn, out[key])
            if dyn.Dyn.canon(got) != dyn.Dyn.canon(want):
                problems.append(f"the caller's request object was modified by the library ({key}): {dyn.Dyn.canon(got)} instead of {dyn.Dyn.canon(want)}")
    # (a) follow-up requests = the ORIGINAL request with only page_token replaced
    if len(calls) != len(h1) + len(h2):
        problems.append(f"server saw {len(calls)} calls for {len(h1)} + {len(h2)} pages")
    if kind != "rest":
        orig = D.parse(fqn, call["spec"]["request"]["b64"])
        orig.ClearField("page_token")
        orig_fields = canon_item(dyn.Dyn.canon(orig))
    else:
        orig_fields = calls[0][1] if calls else ""
    for k, c in enumerate(calls):
        in_second = k >= len(h1)
        j = k - len(h1) if in_second else k
        hist = h2 if in_second else h1
        exp_tok = original.page_token if j == 0 else hist[j - 1][1]
        if c[0] != exp_tok:
            problems.append(f"call {k} ({'second listing, ' if in_second else ''}page {j}) carried page_token {c[0]!r}, expected {exp_tok!r}")
        if c[1] != orig_fields:
            problems.append(f"call {k} does not carry the fields of the original request: {c[1]} vs {orig_fields}")
    def decode(encs, hist):
        got = [decode_enc(D, e, item, elem) for e in encs]
        if item["map"]:
            reg, pos = [], 0
            for p in hist:
                reg += sorted(got[pos:pos + len(p[0])])
                pos += len(p[0])
            got = reg + got[pos:]
        return got
    items1 = decode(out.get("items", []), h1)
    if items1 != [x for p in h1 for x in p[0]]:
        problems.append(f"yielded items {items1} != items of the pages in server order")
    items2 = None
    if h2:
        items2 = decode((out.get("again") or {}).get("items", []), h2)
        if items2 != [x for p in h2 for x in p[0]]:
            how = "a fresh, equal request" if seq == "again-fresh" else "the same request object"
            problems.append(f"the second listing of the same rpc in this process (with {how}) yielded {items2}, the server's pages hold {[x for p in h2 for x in p[0]]}")
    for p in problems[:3]:
        pending.append((None, f"{label}: {p}", case))
    # ---- model = implementation: each listing is Model.iterate from the ORIGINAL call ----
    is_async = coq.b(kind == "grpc_asyncio")
    opts = calls[0][2] if calls else ""
    firstc = coq_call((original.page_token, orig_fields, opts))
    def fin(snap):
        fi = snap.get(item["name"], {})
        fl = [decode_enc(D, e, item, elem) for e in fi.get("items", [])] if fi.get("kind") == "list" else ["<not a list>"]
        fl = sorted(fl) if item["map"] else fl
        tok = (snap.get("next_page_token") or {}).get("value")
        return f"(Some {coq_page((fl, tok if isinstance(tok, str) else '<none>', attrs_of_snapshot(snap, call['attr_names'][1:])))})"
    s1 = [coq_page(p) for p in h1]
    checks.append((label + " [first listing]", f"items_run_matches {is_async} {firstc} {s1[0]} {coq.lst(s1[1:])} {coq.slist(items1)} "
                   f"{coq.lst(coq_call(c) for c in calls[:len(h1)])} {fin(out['final'])}"))
    if h2 and out.get("again"):
        s2 = [coq_page(p) for p in h2]
        checks.append((label + " [second listing]", f"items_run_matches {is_async} {firstc} {s2[0]} {coq.lst(s2[1:])} {coq.slist(items2)} "
                       f"{coq.lst(coq_call(c) for c in calls[len(h1):])} {fin(out['again']['final'])}"))


def run_libraries(ctx, n, seed_tag="C07-lib", histories=2):
    jobs = []
    for i in range(n):
        r = env.rng(seed_tag, i)
        transports = r.choice(["grpc", "grpc+rest", "grpc+rest", "rest"])
        try:
            req, info = library_api(r, transports)
        except apigen.Invalid as e:
            ctx.features["lib-invalid-candidate"] += 1
            ctx.notes["lib_invalid"] = str(e)[:300]
            continue
        req = gen.with_params(req, [req.parameter], gen.case_dir(f"c07cfg{re.sub(chr(87), '', seed_tag)}{i}"), retry=retry_config(info),
                              service_yaml=service_yaml(info))
        jobs.append((i, req, info))
    # the ADS templates have their own pagers.py.j2: the same kind of library, generated with python-gapic-templates=ads-templates
    # (old naming, sync gRPC client only), is driven through the same histories; T1 is pinned to the default skeleton and skipped there
    for k in range(2 if n >= 4 else 1):
        i = 1000 + k
        r = env.rng(seed_tag + "-ads", k)
        try:
            req, info = library_api(r, "grpc")
        except apigen.Invalid:
            continue
        info["ads"], info["pypkg"] = True, info["package"]
        info["types_mod"] = info["package"] + ".types.service"       # the ads types package does not re-export the messages
        req = gen.with_params(req, ["transport=grpc", "python-gapic-templates=ads-templates", "old-naming"],
                              gen.case_dir(f"c07cfgads{re.sub(chr(87), '', seed_tag)}{k}"), retry=retry_config(info), service_yaml=service_yaml(info))
        jobs.append((i, req, info))
    results = gen.pmap(lambda j: gen.run_generator(j[1]), jobs)
    cls = gen.pmap(lambda j: gen.impl("paging", [{"request_b64": apigen.req_b64(j[1])}])[0], jobs)
    checks, pending, drives = [], [], []
    for (i, req, info), (res, err), cl in zip(jobs, results, cls):
        if res is None:
            ctx.oblige(f"lib#{i}: generation succeeds", False, err[-600:], "T1")
            continue
        files = gen.files_of(res)
        if not info.get("ads"):
            checks += t1_checks(ctx, i, info, files)
        root = gen.materialize(res, gen.case_dir(f"c07lib{i}"))
        D = dyn.Dyn(req)
        kinds = [k for k, need in (("grpc", "grpc"), ("grpc_asyncio", "grpc"), ("rest", "rest")) if need in info["transports"].split("+")]
        if info.get("ads"):
            kinds = ["grpc"]
        calls = []
        r = env.rng(seed_tag + "-drive", i)
        for m in info["rpcs"]:
            o = (cl.get("methods") or {}).get(f"{info['service']}.{m['name']}")
            m["impl_paged"] = o["paged"] if o else None
            ctx.features["lib-method-paged" if m["impl_paged"] else "lib-method-not-paged"] += 1
            if not m["impl_paged"]:
                continue
            for _ in range(histories):
                calls += build_drive_calls(r, D, info, m, kinds)
            if r.random() < 0.5:
                calls += retry_scenario(r, D, info, m, kinds)
            calls += sequence_scenarios(r, D, info, m, kinds)
        drives.append((i, req, info, root, D, calls))
    outs = gen.pmap(lambda d: gen.impl("pagedrive", {"root": d[3], "package": d[2]["pypkg"], "calls": [c["spec"] for c in d[5]]}) if d[5] else [], drives)
    for (i, req, info, root, D, calls), out in zip(drives, outs):
        b64 = apigen.req_b64(req)
        by_hist = {}
        for c, res in zip(calls, out):
            if c.get("retry"):
                eval_retry(ctx, D, info, i, b64, c, res, pending)
                continue
            if c.get("sequence"):
                eval_sequence(ctx, D, info, i, b64, c, res, checks, pending)
                continue
            eval_drive(ctx, D, info, i, b64, c, res, checks, pending)
            by_hist.setdefault((c["m"]["name"], json.dumps(c["hist"], sort_keys=True), c["mode"], c["spec"].get("break_after")), []).append(c)
        # sync and asyncio pagers agree (same history, same mode)
        for key, group in by_hist.items():
            obs = {c["kind"]: c.get("observed") for c in group if c["kind"] != "rest" and c.get("observed")}
            if len(obs) == 2 and obs["grpc"] != obs["grpc_asyncio"]:
                c = group[0]
                pending.append((None, f"lib#{i} {key[0]}: sync and asyncio pagers disagree on the same history: {obs}",
                                {"kind": "drive", "request_b64": b64, "rpc": key[0], "info": {k: info.get(k) for k in ("package", "pypkg", "service", "module", "transports", "api_version", "method_settings", "ads", "types_mod")},
                                 "call": {k: v for k, v in c.items() if k != "observed"}}))
        gen.rm(root)
    failing, errors, nfiles = coq.eval_checks("c07lib" + re.sub(r"\W", "", seed_tag), IMPORTS, "", checks)
    ctx.oblige(f"T1+T2 libraries: emitted pager classes / paged branch = model output, and pager runs = Model.iterate "
               f"({len(checks)} comparisons over {len(jobs)} generated libraries, {nfiles} cases files)",
               not failing and not errors and len(checks) > 0, "; ".join((failing + errors)[:6]), "T2")
    ctx.notes.setdefault("library_disagreements", []).extend(failing[:10])
    return pending


def witness_map_import(ctx):
    """Known candidate defect: a paged method whose item field is a map with a message value declared in another file than
    the response: pagers.py annotates with that module but does not import it. Minimal library, run in every check."""
    pkg = "google.example.library.v1"
    second = File("google/example/library/v1/resources.proto", pkg, deps=list(apigen.STD_DEPS))
    book = second.message("Book").field("name", 1, "string")
    main = File("google/example/library/v1/service.proto", pkg, deps=list(apigen.STD_DEPS) + [second.proto.name])
    req_shape = [fld("parent", "string"), fld("page_size", "int32"), fld("page_token", "string")]
    resp_shape = [fld("by_name", "msg", map_=("string", "msg:" + book.fqn)), fld("next_page_token", "string")]
    rq, rs = main.message("ListBooksRequest"), main.message("ListBooksResponse")
    add_fields(rq, req_shape, main)
    add_fields(rs, resp_shape, main)
    main.service("Library", host="library.example.com", api_version="v1_20240408").rpc("ListBooks", rq.fqn, rs.fqn, http=("get", "/v1/{parent=projects/*}/books"))
    req = apigen.request([second, main], parameter="transport=grpc")
    req = gen.with_params(req, ["transport=grpc"], gen.case_dir("c07mapimportcfg"), retry=retry_config({"package": pkg, "service": "Library"}))
    res, err = gen.run_generator(req)
    if res is None:
        ctx.oblige("witness map-import: generation succeeds", False, err[-400:], "T1")
        return []
    root = gen.materialize(res, gen.case_dir("c07mapimport"))
    D = dyn.Dyn(req)
    m = {"name": "ListBooks", "snake": "list_books", "req": req_shape, "resp": resp_shape, "req_fqn": rq.fqn, "resp_fqn": rs.fqn,
         "path": f"/{pkg}.Library/ListBooks", "item_kind": "map-message-other-file", "size": ("page_size", "int32"), "coll": "books"}
    info = {"package": pkg, "pypkg": "google.example.library_v1", "service": "Library", "module": "library", "transports": "grpc", "rpcs": [m],
            "api_version": "v1_20240408"}
    calls = build_drive_calls(env.rng("C07-mapimport", 0), D, info, m, ["grpc"])[:1]
    out = gen.impl("pagedrive", {"root": root, "package": info["pypkg"], "calls": [c["spec"] for c in calls]})
    gen.rm(root)
    ctx.case({"witness": "map-import"}, feature=["witness-map-value-other-file"])
    c, o = calls[0], out[0]
    case = {"kind": "drive", "request_b64": apigen.req_b64(req), "info": {k: info.get(k) for k in ("package", "pypkg", "service", "module", "transports", "api_version", "method_settings", "ads", "types_mod")},
            "rpc": "ListBooks", "call": c}
    if not o.get("ok"):
        err = o.get("error", {})
        sig = SIG_MAPIMPORT if err.get("exception") == "NameError" and "is not defined" in err.get("message", "") else None
        return [(sig, f"paged method with item field map<string, Book> (Book declared in another file): the emitted library cannot be imported: {err}", case)]
    checks, pending = [], []
    eval_drive(ctx, D, info, "map-import", case["request_b64"], c, o, checks, pending)
    return pending


def witness_ads_map_import(ctx):
    """The ads copy of pagers.py.j2 lacks the value-type import of the default template (candidate finding C07-ads-map-value-import):
    a paged item field map<string, Book> with Book declared in another file -> NameError when the emitted pagers module is imported.
    Runs only once that id is listed in findings/known_findings.json (known: reported as KNOWN-FINDING; fixed: regression witness)."""
    import subprocess
    try:
        listed = any(f.get("id") == "C07-ads-map-value-import" for f in json.load(open(os.path.join(env.VERIF, "findings", "known_findings.json"))))
    except Exception:  # noqa
        listed = False
    if not listed:
        ctx.notes["ads_map_import_witness"] = "not run: C07-ads-map-value-import is not listed in findings/known_findings.json yet"
        return []
    pkg = "google.example.library.v1"
    second = File("google/example/library/v1/resources.proto", pkg, deps=list(apigen.STD_DEPS))
    book = second.message("Book").field("name", 1, "string")
    main = File("google/example/library/v1/service.proto", pkg, deps=list(apigen.STD_DEPS) + [second.proto.name])
    rq, rs = main.message("ListBooksRequest"), main.message("ListBooksResponse")
    add_fields(rq, [fld("parent", "string"), fld("page_size", "int32"), fld("page_token", "string")], main)
    add_fields(rs, [fld("by_name", "msg", map_=("string", "msg:" + book.fqn)), fld("next_page_token", "string")], main)
    main.service("Library", host="library.example.com").rpc("ListBooks", rq.fqn, rs.fqn, http=("get", "/v1/{parent=projects/*}/books"))
    req = apigen.request([second, main], parameter="transport=grpc,python-gapic-templates=ads-templates,old-naming")
    res, err = gen.run_generator(req)
    ctx.case({"witness": "ads-map-import"}, feature=["witness-ads-map-value-other-file"])
    if res is None:
        ctx.oblige("witness ads map-import: generation succeeds", False, err[-400:], "T1")
        return []
    root = gen.materialize(res, gen.case_dir("c07adsmapimport"))
    pg = next(f.name for f in res.file if f.name.endswith("/services/library/pagers.py"))
    mod = pg[:-3].replace("/", ".")
    p = subprocess.run([env.PY, "-c", f"import {mod}"], env={**env.child_env(), "PYTHONPATH": root + ":" + env.REPO}, capture_output=True, text=True)
    gen.rm(root)
    if p.returncode == 0:
        return []
    last = p.stderr.strip().split("\n")[-1]
    sig = SIG_ADS_MAPIMPORT if last.startswith("NameError") and "is not defined" in last else None
    return [(sig, f"ads templates, paged method with item field map<string, Book> (Book declared in another file): the emitted pagers module cannot be imported: {last}",
             {"kind": "witness-ads-map-import", "request_b64": apigen.req_b64(req)})]


def run(ctx):
    pending = []
    pending += witness_map_import(ctx)
    pending += witness_ads_map_import(ctx)
    cases = load_corpus() + [dict(w) for w in WITNESSES] + classification_cases(env.rng("C07-shapes", 0), ctx.n(120, 5000))
    pending += run_libraries(ctx, ctx.n(6, 120), histories=ctx.n(2, 4))
    pending += run_classification(ctx, cases)
    # the three witnesses of the _refuted lemmas behave on the implementation as the lemmas say
    for w in cases:
        if "expect_impl" in w and "impl" in w:
            ok = (w["impl"]["paged"] is not None) == w["expect_impl"] and spec_paged(w["req"], w["resp"]) == w["expect_spec"]
            ctx.oblige(f"former gap {w['tags'][0]} stays closed (implementation and sentence both say paginated={w['expect_spec']})", ok,
                       json.dumps(w["impl"]), "T2")
    report(ctx, pending)


def search(ctx, broken):
    """A correspondence or theorem broke without an oracle failure: look harder near the rule and with more histories."""
    pending = []
    pending += run_classification(ctx, classification_cases(env.rng("C07-search", 1), 1500), label="search-classification")
    pending += run_libraries(ctx, 16, seed_tag="C07-search-lib", histories=4)
    report(ctx, [p for p in pending if p[0] is None])


def replay(ctx, rep):
    c = rep.get("case", {})
    if c.get("kind") == "classify":
        pending = run_classification(ctx, [{"req": c["req"], "resp": c["resp"], "tags": ["replay"]}], label="replay")
        pending = [(p[0] or rep.get("signature"), p[1], p[2]) for p in pending]
        report(ctx, pending)
        for p in pending:
            print("replay:", p[1])
        if not pending:
            print("replay: the implementation now agrees with the property's rule on this shape")
    elif c.get("kind") in ("drive", "drive-retry", "drive-sequence"):
        req = apigen.req_from_b64(c["request_b64"])
        if c.get("info"):        # the option file named in the recorded parameter is gone: write the service config again
            keep = [x for x in req.parameter.split(",") if x and not x.startswith("retry-config=") and not x.startswith("service-yaml=")]
            req = gen.with_params(req, keep, gen.case_dir("c07replaycfg"), retry=retry_config(c["info"]), service_yaml=service_yaml(c["info"]))
        res, err = gen.run_generator(req)
        if res is None:
            ctx.oblige("replay: generation succeeds", False, err[-600:])
            return
        root = gen.materialize(res, gen.case_dir("c07replay"))
        D = dyn.Dyn(req)
        spec = c["spec"] if c["kind"] == "drive-retry" else c["call"]["spec"]
        pypkg = c.get("pypkg") or c["info"]["pypkg"]
        out = gen.impl("pagedrive", {"root": root, "package": pypkg, "calls": [spec]})[0]
        print("replay: what the caller saw:", json.dumps(out.get("result") or out.get("error"))[:1500])
        print("replay: calls at the server:", json.dumps(out.get("grpc_calls") or out.get("http_calls"))[:1500])
        if c["kind"] == "drive-retry":
            ncalls = len(out.get("http_calls") or out.get("grpc_calls") or [])
            v = c.get("variant", "explicit")
            bad = (v == "none" and (out.get("ok") or ncalls != 2)) or (v != "none" and (not out.get("ok") or ncalls != 3))
            print(f"replay: retry variant {v}: ok={out.get('ok')} error={(out.get('error') or {}).get('exception')} server calls={ncalls}")
            if bad:
                ctx.violation(rep.get("what", "the retry option of the call did not govern the follow-up fetch"), c, rep.get("signature"))
            else:
                print("replay: the oracle no longer fails on this case")
            return
        print("replay: scripted history:", json.dumps(c["call"].get("hist") or [c["call"].get("hist1"), c["call"].get("hist2")])[:1500])
        checks, pending = [], []
        if c["kind"] == "drive-sequence":
            print("replay: caller's request after the sequence:", out.get("result", {}).get("caller_request_after"), out.get("result", {}).get("caller_request_after_again"))
            eval_sequence(ctx, D, c["info"], 0, c["request_b64"], dict(c["call"]), out, checks, pending)
        else:
            eval_drive(ctx, D, c["info"], 0, c["request_b64"], dict(c["call"]), out, checks, pending)
        failing, errors, _ = coq.eval_checks("c07replay", IMPORTS, "", checks)
        ctx.oblige("replay: pager run = Model.iterate", not failing and not errors, "; ".join(failing + errors)[:800])
        pending = [(p[0] or rep.get("signature"), p[1], p[2]) for p in pending]
        report(ctx, pending)
        for p in pending:
            print("replay:", p[1])
        if not pending:
            print("replay: the oracle no longer fails on this case")
    else:
        run(ctx)
