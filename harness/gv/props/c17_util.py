"""C17 helpers: host APIs, service-YAML configurations, Coq terms for them, the ast readers of the emitted clients and
transports (T1, fail-closed), and the reference facts of the direct oracle (taken from the installed pb2 descriptors,
never from /repo)."""
import ast, base64, importlib, json, re, urllib.parse
from google.protobuf import json_format
from .. import coq, apigen
from ..apigen import File
from . import c17_t0

# ------------------------------------------------------------------ reference facts (installed pb2 only)
THREE = {
    "google.longrunning.Operations": "google.longrunning.operations_pb2",
    "google.iam.v1.IAMPolicy": "google.iam.v1.iam_policy_pb2",
    "google.cloud.location.Locations": "google.cloud.location.locations_pb2",
}


def snake(s):
    return re.sub(r"(?<=[a-z0-9])([A-Z])", r"_\1", s).lower()


def reference():
    """{api: {Method: {'in': cls, 'out': cls|None, 'route': field, 'in_name','out_name'}}} from the installed descriptors."""
    from google.protobuf import symbol_database
    db = symbol_database.Default()
    out = {}
    for api, modname in THREE.items():
        mod = importlib.import_module(modname)
        svc = mod.DESCRIPTOR.services_by_name[api.rsplit(".", 1)[1]]
        assert svc.full_name == api
        d = {}
        for m in svc.methods:
            fields = [f.name for f in m.input_type.fields]
            route = "resource" if "resource" in fields else "name"
            d[m.name] = {"in": db.GetSymbol(m.input_type.full_name), "in_name": m.input_type.full_name,
                         "out": None if m.output_type.full_name == "google.protobuf.Empty" else db.GetSymbol(m.output_type.full_name),
                         "out_name": m.output_type.full_name, "route": route}
        out[api] = d
    return out


ALL_METHODS = [(api, m) for api, modname in THREE.items()
               for m in [x.name for x in importlib.import_module(modname).DESCRIPTOR.services_by_name[api.rsplit(".", 1)[1]].methods]]
MIXIN_SNAKE = sorted(snake(m) for _, m in ALL_METHODS)
IAM_METHODS = [m for a, m in ALL_METHODS if a == "google.iam.v1.IAMPolicy"]

# ------------------------------------------------------------------ host APIs
PACKAGES = [("google.example.widgets.v1", "widgets.example.com"), ("google.cloud.gizmo.v1beta1", "gizmo.googleapis.com"),
            ("acme.depot.v2", "depot.acme.test")]
HOSTS = ["min", "lro", "two", "own_set", "own_all_second", "own_get_lro", "own_set_second"]


def host_api(kind, pkgidx=0):
    """Returns (files, info) — info: services [(name, [rpc names])] in declaration order."""
    pkg, host = PACKAGES[pkgidx % len(PACKAGES)]
    d = "/".join(pkg.split("."))
    deps = list(apigen.STD_DEPS)
    if kind.startswith("own"):
        deps += ["google/iam/v1/iam_policy.proto", "google/iam/v1/policy.proto"]
    if "lro" in kind:
        deps += ["google/longrunning/operations.proto"]
    f = File(f"{d}/widgets.proto", pkg, deps=deps)
    w = f.message("Widget"); w.field("name", 1, "string").field("size", 2, "int32")
    w.resource(f"{host}/Widget", ["widgets/{widget}"])
    gr = f.message("GetWidgetRequest"); gr.field("name", 1, "string", required=True, ref=f"{host}/Widget")
    s = f.service("Widgets", host=host)
    s.rpc("GetWidget", gr.fqn, w.fqn, http=("get", "/v1/{name=widgets/*}"), sigs=["name"])
    services = [("Widgets", ["GetWidget"])]
    if "lro" in kind:
        mr = f.message("MakeWidgetRequest"); mr.field("parent", 1, "string").field("widget", 2, w.fqn)
        mm = f.message("MakeWidgetMetadata"); mm.field("progress", 1, "int32")
        s.rpc("MakeWidget", mr.fqn, ".google.longrunning.Operation", http=("post", "/v1/{parent=projects/*}/widgets:make"), body="*",
              lro=("Widget", "MakeWidgetMetadata"))
        services[0][1].append("MakeWidget")
    second = None
    if kind in ("two", "own_all_second", "own_set_second"):
        g = f.message("Gadget"); g.field("name", 1, "string")
        gg = f.message("GetGadgetRequest"); gg.field("name", 1, "string")
        second = f.service("Gadgets", host=host)
        second.rpc("GetGadget", gg.fqn, g.fqn, http=("get", "/v1/{name=gadgets/*}"), sigs=["name"])
        services.append(("Gadgets", ["GetGadget"]))
    own = {"own_set": ["SetIamPolicy"], "own_all_second": list(IAM_METHODS), "own_get_lro": ["GetIamPolicy"],
           "own_set_second": ["SetIamPolicy"]}.get(kind, [])
    tgt, tidx = (second, 1) if kind in ("own_all_second", "own_set_second") else (s, 0)
    for m in own:
        out = ".google.iam.v1.TestIamPermissionsResponse" if m == "TestIamPermissions" else ".google.iam.v1.Policy"
        tgt.rpc(m, f".google.iam.v1.{m}Request", out, http=("post", "/v1/{resource=widgets/*}:" + m[0].lower() + m[1:]), body="*")
        services[tidx][1].append(m)
    return [f], {"package": pkg, "host": host, "services": services, "kind": kind, "own_iam": own}


# ------------------------------------------------------------------ service YAML
DEFAULT_RULES = {
    "google.cloud.location.Locations.ListLocations": {"get": "/v1/{name=projects/*}/locations"},
    "google.cloud.location.Locations.GetLocation": {"get": "/v1/{name=projects/*/locations/*}"},
    "google.iam.v1.IAMPolicy.SetIamPolicy": {"post": "/v1/{resource=projects/*/widgets/*}:setIamPolicy", "body": "*",
                                              "additional_bindings": [{"post": "/v1/{resource=projects/*/gadgets/*}:setIamPolicy", "body": "*"}]},
    "google.iam.v1.IAMPolicy.GetIamPolicy": {"get": "/v1/{resource=projects/*/widgets/*}:getIamPolicy",
                                              "additional_bindings": [{"post": "/v1/{resource=projects/*/gadgets/**}:getIamPolicy", "body": "*"}]},
    "google.iam.v1.IAMPolicy.TestIamPermissions": {"post": "/v1/{resource=projects/*/widgets/*}:testIamPermissions", "body": "*"},
    "google.longrunning.Operations.ListOperations": {"get": "/v1/{name=projects/*}/operations"},
    "google.longrunning.Operations.GetOperation": {"get": "/v1/{name=projects/*/operations/*}"},
    "google.longrunning.Operations.DeleteOperation": {"delete": "/v1/{name=projects/*/operations/*}"},
    "google.longrunning.Operations.CancelOperation": {"post": "/v1/{name=projects/*/operations/*}:cancel", "body": "*"},
    "google.longrunning.Operations.WaitOperation": {"post": "/v2/{name=projects/*/operations/*}:wait", "body": "*"},
}
ALT_RULES = {  # other verbs / templates / bodies, same selectors
    "google.cloud.location.Locations.ListLocations": {"get": "/v2beta/{name=organizations/*/units/*}/locations"},
    "google.cloud.location.Locations.GetLocation": {"get": "/v2beta/{name=**}"},
    "google.iam.v1.IAMPolicy.SetIamPolicy": {"put": "/v3/{resource=things/*}/policy", "body": "policy"},
    "google.iam.v1.IAMPolicy.GetIamPolicy": {"post": "/v3/{resource=things/*}:policy", "body": "*"},
    "google.iam.v1.IAMPolicy.TestIamPermissions": {"patch": "/v3/{resource=**}:test", "body": "*"},
    "google.longrunning.Operations.ListOperations": {"get": "/v3/{name=operations}"},
    "google.longrunning.Operations.GetOperation": {"get": "/v3/{name=operations/**}"},
    "google.longrunning.Operations.DeleteOperation": {"delete": "/v3/{name=operations/**}"},
    "google.longrunning.Operations.CancelOperation": {"post": "/v3/{name=operations/**}:cancel"},
    "google.longrunning.Operations.WaitOperation": {"post": "/v3/{name=operations/*}:wait", "body": "*",
                                                    "additional_bindings": [{"get": "/v3/{name=ops/*}:peek"}]},
}
SAME_URI_RULES = dict(DEFAULT_RULES)   # additional bindings that RE-USE the primary uri with another verb / body, or repeat it
SAME_URI_RULES.update({
    "google.iam.v1.IAMPolicy.GetIamPolicy": {"get": "/v1/{resource=projects/*/widgets/*}:getIamPolicy",
                                              "additional_bindings": [{"post": "/v1/{resource=projects/*/widgets/*}:getIamPolicy", "body": "*"}]},
    "google.iam.v1.IAMPolicy.SetIamPolicy": {"post": "/v1/{resource=projects/*/widgets/*}:setIamPolicy", "body": "*",
                                              "additional_bindings": [{"put": "/v1/{resource=projects/*/widgets/*}:setIamPolicy", "body": "policy"}]},
    "google.longrunning.Operations.GetOperation": {"get": "/v1/{name=projects/*/operations/*}",
                                                   "additional_bindings": [{"get": "/v1/{name=projects/*/operations/*}"},
                                                                           {"get": "/v1/{name=folders/*/operations/*}"}]},
    "google.longrunning.Operations.CancelOperation": {"post": "/v1/{name=projects/*/operations/*}:cancel", "body": "*",
                                                      "additional_bindings": [{"post": "/v1/{name=projects/*/operations/*}:cancel"}]},
    "google.cloud.location.Locations.ListLocations": {"get": "/v1/{name=projects/*}/locations",
                                                      "additional_bindings": [{"post": "/v1/{name=projects/*}/locations", "body": "*"}]},
})
VERBS = ("get", "put", "post", "delete", "patch")


def mk_yaml(apis, rules, title="widgets.example.com", selective=None, package=None, omit=False):
    """rules: list of dicts with 'selector' + HttpRule fields, in order.
    selective: ['Service.Rpc', ...] — selective GAPIC generation with that allow-list, the omitted rpcs kept as internal."""
    y = {"type": "google.api.Service", "config_version": 3, "name": title, "apis": [{"name": a} for a in apis]}
    if rules:
        y["http"] = {"rules": [dict(r) for r in rules]}
    if selective is not None:
        y["publishing"] = {"library_settings": [{"version": package, "python_settings": {"common": {"selective_gapic_generation": {
            "methods": [f"{package}.{m}" for m in selective], "generate_omitted_as_internal": not omit}}}}]}
    return y


def effective_services(services, selective, omit):
    """The services the library is generated for: in OMIT mode the rpcs outside the allow-list do not exist at all."""
    if selective is None or not omit:
        return services
    return [(s, [m for m in ms if f"{s}.{m}" in selective]) for s, ms in services]


def internal_rpcs(services, selective):
    """{service: [rpcs kept as internal methods]} for an allow-list of 'Service.Rpc' entries (None: no selective generation)."""
    if selective is None:
        return {s: [] for s, _ in services}
    return {s: [m for m in ms if f"{s}.{m}" not in selective] for s, ms in services}


def rule(selector, spec):
    r = {"selector": selector}
    r.update(json.loads(json.dumps(spec)))
    return r


def random_config(r, weird=False):
    """A random (apis, rules) pair. weird: near-miss selectors, custom/empty patterns, duplicates, reserved-word variables."""
    apis = [a for a in THREE if r.random() < 0.6]
    if r.random() < 0.15:
        apis.append(r.choice(["google.longrunning.Operation", "google.iam.v1.IamPolicy", "google.cloud.location.Location",
                              "google.example.widgets.v1.Widgets", "Operations"]))
    r.shuffle(apis)
    rules = []
    for api, m in ALL_METHODS:
        sel = f"{api}.{m}"
        if r.random() < 0.6:
            rules.append(rule(sel, r.choice([DEFAULT_RULES, ALT_RULES, SAME_URI_RULES])[sel]))
        if weird and r.random() < 0.12:     # a second rule for the same selector (the later one is the effective one)
            rules.append(rule(sel, r.choice([DEFAULT_RULES, ALT_RULES, SAME_URI_RULES])[sel]))
        if weird and r.random() < 0.12:
            near = r.choice([sel + "x", "x" + sel, sel.lower(), m, f"{api}.*", f"google.example.{m}", sel.replace(".", "/"),
                             f"{api.rsplit('.', 1)[0]}.{m}", sel + "."])
            rules.append(rule(near, DEFAULT_RULES[sel]))
        if weird and r.random() < 0.08:
            rules.append(rule(sel, r.choice([{"custom": {"kind": "HEAD", "path": "/v1/{name=x/*}"}}, {"get": ""},
                                             {"post": "/v9/{name=x/*}", "body": "class"},
                                             {"get": "/v9/{name.format=x/*}/{filter}", "additional_bindings": [{"custom": {"kind": "X", "path": "/y"}},
                                                                                                               {"delete": "/v9/{name=**}"}]},
                                             {"get": "/v9/{class=x/*}/{a={b}}/y{}z{/}"}])))
    r.shuffle(rules) if weird and r.random() < 0.5 else None
    return apis, rules


# ------------------------------------------------------------------ Coq terms
def binding_term(b):
    verb = next((v for v in VERBS + ("custom",) if v in b), "")
    uri = b.get(verb, "") if verb and verb != "custom" else ""
    if verb == "custom":
        uri = b["custom"].get("path", "")
    return f"(mkB {coq.s(verb)} {coq.s(uri)} {coq.s(b.get('body', ''))})"


def rule_term(r):
    return f"(mkRule {coq.s(r['selector'])} {binding_term(r)} {coq.lst(binding_term(x) for x in r.get('additional_bindings', []))})"


def cfg_term(apis, rules, services, add_iam):
    return (f"(mkCfg {coq.slist(apis)} {coq.lst(rule_term(r) for r in rules)} "
            f"{coq.lst(coq.slist(s) for s in services)} {coq.b(add_iam)})")


def hopts_term(http):
    return coq.lst(f"({coq.s(k)}, {coq.lst(f'(mkH {coq.s(m)} {coq.s(u)} {coq.opt(b)})' for m, u, b in v)})" for k, v in http)


def resolve_type(expr):
    """'operations_pb2.Operation' (as emitted) -> message full name, 'None' -> None (same resolver as T0)."""
    if expr in ("None", None):
        return None
    return c17_t0.resolve(expr)


# ------------------------------------------------------------------ T1: ast readers of the emitted library (fail-closed)
def _classes(src):
    return [n for n in ast.parse(src).body if isinstance(n, ast.ClassDef)]


def _funcs(cls):
    return [n for n in cls.body if isinstance(n, (ast.FunctionDef, ast.AsyncFunctionDef))]


def read_client(src, class_suffix, own_snake):
    """[(method, lookup|None, route, type a dict request is coerced to)] for the mixin-named methods of the client class
    (declaration order); methods that are the API's own rpcs are skipped."""
    cls = [c for c in _classes(src) if c.name.endswith(class_suffix) and not c.name.endswith("Meta")]
    if len(cls) != 1:
        raise ValueError(f"expected one *{class_suffix} class, found {[c.name for c in cls]}")
    out = []
    for fn in _funcs(cls[0]):
        if fn.name not in MIXIN_SNAKE or fn.name in own_snake:
            continue
        lookup, wraps, routes = [], [], []
        for n in ast.walk(fn):
            if isinstance(n, ast.Subscript) and ast.unparse(n.value).endswith("_wrapped_methods"):
                key = ast.unparse(n.slice)
                m = re.fullmatch(r"self\.(?:_client\._transport|_transport)\.(\w+)", key)
                if not m:
                    raise ValueError(f"{fn.name}: unexpected _wrapped_methods key {key}")
                lookup.append(m.group(1))
            if isinstance(n, ast.Call) and ast.unparse(n.func).endswith("wrap_method") and n.args:
                m = re.fullmatch(r"self\.(?:_client\._transport|_transport)\.(\w+)", ast.unparse(n.args[0]))
                if not m:
                    raise ValueError(f"{fn.name}: unexpected wrap_method target")
                wraps.append(m.group(1))
            if isinstance(n, ast.Call) and ast.unparse(n.func).endswith("routing_header.to_grpc_metadata") and n.args:
                t = n.args[0]
                if not (isinstance(t, ast.Tuple) and len(t.elts) == 1 and isinstance(t.elts[0], ast.Tuple) and len(t.elts[0].elts) == 2):
                    raise ValueError(f"{fn.name}: unexpected routing header argument {ast.unparse(t)}")
                k, v = t.elts[0].elts
                if not (isinstance(k, ast.Constant) and ast.unparse(v) == f"request.{k.value}"):
                    raise ValueError(f"{fn.name}: routing header {ast.unparse(t)} does not read the field it names")
                routes.append(k.value)
        if len(lookup) + len(wraps) != 1 or len(routes) != 1:
            raise ValueError(f"{fn.name}: lookups {lookup} wraps {wraps} routes {routes}")
        if wraps and wraps[0] != fn.name:
            raise ValueError(f"{fn.name}: wraps transport.{wraps[0]}")
        co = []
        for n in ast.walk(fn):
            if isinstance(n, ast.If) and ast.unparse(n.test) == "isinstance(request, dict)":
                if len(n.body) != 1 or not isinstance(n.body[0], ast.Assign) or ast.unparse(n.body[0].targets[0]) != "request":
                    raise ValueError(f"{fn.name}: unexpected dict branch {ast.unparse(n)[:80]}")
                call = n.body[0].value
                if not (isinstance(call, ast.Call) and not call.args and len(call.keywords) == 1 and call.keywords[0].arg is None
                        and ast.unparse(call.keywords[0].value) == "request"):
                    raise ValueError(f"{fn.name}: the dict branch is not <Type>(**request): {ast.unparse(call)[:80]}")
                co.append(resolve_type(ast.unparse(call.func)))
        if len(co) != 1:
            raise ValueError(f"{fn.name}: {len(co)} isinstance(request, dict) branches")
        out.append((fn.name, lookup[0] if lookup else None, routes[0], co[0]))
    names = [x[0] for x in out]
    if len(set(names)) != len(names):
        raise ValueError(f"duplicate method definitions {names}")
    return out


def read_table(src, class_suffix):
    """Names of the keys of self._wrapped_methods in _prep_wrapped_messages of the transport class (order kept);
    None when the class does not define it."""
    for c in _classes(src):
        if not c.name.endswith(class_suffix):
            continue
        for fn in _funcs(c):
            if fn.name != "_prep_wrapped_messages":
                continue
            asg = [s for s in fn.body if isinstance(s, ast.Assign) and ast.unparse(s.targets[0]) == "self._wrapped_methods"]
            if len(asg) != 1 or not isinstance(asg[0].value, ast.Dict):
                raise ValueError("unexpected shape of _prep_wrapped_messages")
            keys = []
            for k, v in zip(asg[0].value.keys, asg[0].value.values):
                m = re.fullmatch(r"self\.(\w+)", ast.unparse(k))
                if not m or not (isinstance(v, ast.Call) and v.args and ast.unparse(v.args[0]) == ast.unparse(k)):
                    raise ValueError(f"unexpected table entry {ast.unparse(k)}")
                keys.append(m.group(1))
            return keys
    return None


def read_stubs(src, class_suffix, own_snake):
    """[(prop, path, request full name, response full name|None)] for mixin-named stub properties (file order)."""
    cls = [c for c in _classes(src) if c.name.endswith(class_suffix)]
    if len(cls) != 1:
        raise ValueError(f"expected one *{class_suffix} class")
    out = []
    for fn in _funcs(cls[0]):
        if fn.name not in MIXIN_SNAKE or fn.name in own_snake:
            continue
        calls = [n for n in ast.walk(fn) if isinstance(n, ast.Call) and ast.unparse(n.func).endswith("_logged_channel.unary_unary")]
        if len(calls) != 1 or len(calls[0].args) != 1 or not isinstance(calls[0].args[0], ast.Constant):
            raise ValueError(f"{fn.name}: expected one unary_unary(path literal, ...) call")
        kw = {k.arg: ast.unparse(k.value) for k in calls[0].keywords}
        if set(kw) != {"request_serializer", "response_deserializer"}:
            raise ValueError(f"{fn.name}: stub keywords {sorted(kw)}")
        if not kw["request_serializer"].endswith(".SerializeToString"):
            raise ValueError(f"{fn.name}: request_serializer {kw['request_serializer']}")
        rq = resolve_type(kw["request_serializer"][:-len(".SerializeToString")])
        rs = kw["response_deserializer"]
        if rs != "None":
            if not rs.endswith(".FromString"):
                raise ValueError(f"{fn.name}: response_deserializer {rs}")
            rs = resolve_type(rs[:-len(".FromString")])
        else:
            rs = None
        keys = {ast.unparse(n.slice) for n in ast.walk(fn) if isinstance(n, ast.Subscript) and ast.unparse(n.value) == "self._stubs"}
        if keys != {repr(fn.name)} and keys != {'"%s"' % fn.name}:
            if {k.strip("'\"") for k in keys} != {fn.name}:
                raise ValueError(f"{fn.name}: caches the stub under {sorted(keys)}")
        out.append((fn.name, calls[0].args[0].value, rq, rs))
    return out


def read_http_options(src, own_names):
    """[(Name, [(method, uri, body|None)], has _get_request_body_json)] from the _Base<Name> classes of rest_base.py for
    mixin names (file order). The body helper must guard on the transcoded request (fail-closed on any other shape)."""
    mixin = {m for _, m in ALL_METHODS} - set(own_names)
    out = []
    for top in _classes(src):
        for c in [n for n in top.body if isinstance(n, ast.ClassDef) and n.name.startswith("_Base") and n.name[5:] in mixin]:
            fn = next((f for f in _funcs(c) if f.name == "_get_http_options"), None)
            if fn is None:
                raise ValueError(f"{c.name} has no _get_http_options")
            asg = [s for s in fn.body if isinstance(s, (ast.AnnAssign, ast.Assign))]
            if len(asg) != 1 or not isinstance(asg[0].value, ast.List):
                raise ValueError(f"{c.name}._get_http_options: unexpected shape")
            opts = []
            for d in asg[0].value.elts:
                dd = ast.literal_eval(d)
                if not set(dd) <= {"method", "uri", "body"} or "method" not in dd or "uri" not in dd:
                    raise ValueError(f"{c.name}: option keys {sorted(dd)}")
                opts.append((dd["method"], dd["uri"], dd.get("body")))
            bj = next((f for f in _funcs(c) if f.name == "_get_request_body_json"), None)
            if bj is not None:
                a = [s for s in bj.body if isinstance(s, ast.Assign)]
                want = "json.dumps(transcoded_request['body']) if 'body' in transcoded_request else None"
                if len(a) != 1 or ast.unparse(a[0].value) != want:
                    raise ValueError(f"{c.name}._get_request_body_json computes {ast.unparse(a[0].value) if a else '?'}")
            out.append((c.name[5:], opts, bj is not None))
    return out


# ------------------------------------------------------------------ oracle helpers
def expected_exposed(apis, rules, services):
    """The property's sentence: {Method: (api, effective rule)} — listed api ∩ methods with an HTTP rule (service
    configuration rules are 'last one wins'); the IAM mixins yield (as a group) when the API itself defines an RPC
    with the name of an IAM mixin RPC that would otherwise be exposed."""
    ref = {api: importlib.import_module(mod).DESCRIPTOR.services_by_name[api.rsplit(".", 1)[1]] for api, mod in THREE.items()}
    exp = {}
    for api, svc in ref.items():
        if api not in apis:
            continue
        for m in svc.methods:
            rl = [r for r in rules if r["selector"] == f"{api}.{m.name}"]
            if rl:
                exp[m.name] = (api, rl[-1])
    own = {n for _, ms in services for n in ms}
    iam_sel = [m for m, (api, _) in exp.items() if api == "google.iam.v1.IAMPolicy"]
    strict_extra = []
    if any(m in own for m in iam_sel):
        strict_extra = [m for m in iam_sel if m not in own]   # exposed under a per-method reading of 'same-named'
        for m in iam_sel:
            del exp[m]
    return exp, strict_extra


def bindings_of(rl):
    """[(verb, uri, body|None)] usable bindings of a rule, independent reading of google.api.HttpRule."""
    out = []
    for b in [rl] + list(rl.get("additional_bindings", [])):
        for v in VERBS:
            if b.get(v):
                out.append((v, b[v], b.get("body") or None))
    return out


_VAR = re.compile(r"\{([^{}=/]+)(?:=([^{}]+))?\}")


def instantiate(template, idx=0):
    """A value for the single variable of a uri template: '*' -> one segment, '**' -> two segments."""
    m = _VAR.search(template)
    pat = m.group(2) or "*"
    n = [0]

    def seg(x):
        n[0] += 1
        return f"s{idx}{n[0]}" if x.group(0) == "*" else f"m{idx}{n[0]}/t{n[0]}"
    return m.group(1), re.sub(r"\*\*|\*", seg, pat)


def match_binding(bindings, field, value):
    """First binding whose variable pattern accepts the value: (verb, expanded path, body)."""
    for verb, uri, body in bindings:
        m = _VAR.search(uri)
        if not m or m.group(1) != field:
            continue
        pat = m.group(2) or "*"
        rx = "".join("[^/]+" if t == "*" else ".+" if t == "**" else re.escape(t) for t in re.split(r"(\*\*|\*)", pat))
        if re.fullmatch(rx, value):
            return verb, uri[:m.start()] + value + uri[m.end():], body
    return None
