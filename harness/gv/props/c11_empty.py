"""C11, "empty modules are not emitted": T2 of Model/Empty.v against gapic.utils.empty, formatter.fix_whitespace and the real
Generator._get_file (run on a stand-in self whose template renders to a given text under a given file name), plus the
direct oracle: a file is in the response iff its text has a line that is neither blank nor a comment, or it is a package
marker (__init__.py / py.typed)."""
from gv import coq, env, gen

IMPORTS = "From GV Require Import Base.Str Model.FixWs Model.Empty."

BLANKS = ["", " ", "    ", "\t", " \t ", "\x0c", "\r", "\x0b", "\x1c", "\x1f", "  \r"]
COMMENTS = ["#", "# -*- coding: utf-8 -*-", "    # indented", "\t#tab", "#!shebang", " \x0c# after a form feed", "## x #", "#\\", "\x1d #gs",
            # characters at which str.splitlines (but not split("\n"), nor Python's tokenizer inside a comment) breaks a line
            "# page one\x0cpage two", "# a\rb", "    # a\x0bb", "# a\x1cb", "# a\x1db \x1e c", "#\x0c", "# x\r"]
CODE = ["x = 1", "    pass", "import os", "\"\"\"doc", "\"\"\"", "x = 1  # trailing", "\\", "_", "@dec", "class A:", "def f():", "é = 1",
        "'# not a comment'", ";", "    return x", ". #", "\x00", "\x7f", "a\tb", "-#"]
NAMES = ["google/cloud/lib_v1/services/library/pagers.py", "google/cloud/lib_v1/__init__.py", "google/cloud/lib_v1/py.typed", "__init__.py",
         "py.typed", "a/my__init__.py", "a/__init__.pyi", "a/__init__.py.bak", "a/py.typed.txt", "docs/conf.py", "a/_init__.py", "a/xpy.typed",
         "tests/__init__.py", "a/b/types/_enum.py", "README.rst", "a/__INIT__.py"]


def gen_case(r):
    kind = r.random()
    nlines = r.choice([0, 1, 1, 2, 3, 5, 8])
    lines = []
    for _ in range(nlines):
        k = r.random()
        if kind < 0.45:            # comment / blank only
            lines.append(r.choice(BLANKS + COMMENTS))
        elif k < 0.35:
            lines.append(r.choice(BLANKS))
        elif k < 0.65:
            lines.append(r.choice(COMMENTS))
        else:
            lines.append(r.choice(BLANKS[:6]) + r.choice(CODE))
    raw = "\n".join(lines)
    if r.random() < 0.6:
        raw += r.choice(["\n", "\n\n", "\n\n\n\n", " \n", "\n  ", "\n#", "\r\n"])
    if r.random() < 0.2:
        raw = r.choice(["\n", "\n\n\n", "  \n"]) + raw
    return {"fn": r.choice(NAMES), "raw": raw}


FIXED = [{"fn": "a/pagers.py", "raw": ""}, {"fn": "a/pagers.py", "raw": "\n"}, {"fn": "a/pagers.py", "raw": "# -*- coding: utf-8 -*-\n# Copyright\n#\n\n\n"},
         {"fn": "a/__init__.py", "raw": ""}, {"fn": "a/py.typed", "raw": "# Marker file for PEP 561.\n"}, {"fn": "a/pagers.py", "raw": "   #c\n x"},
         {"fn": "a/pagers.py", "raw": "\"\"\"\n# inside a docstring\n\"\"\"\n"}, {"fn": "a/pagers.py", "raw": "#\n\n\n\n\n#\n\n\n\nclass A: pass\n"},
         {"fn": "a/pagers.py", "raw": "\x0c\n# c\n"}, {"fn": "a/notes.py", "raw": "# Bar: page one\x0cpage two\n"}, {"fn": "a/notes.py", "raw": "# a\rb\n\n"}, {"fn": "a/pagers.py", "raw": "# c\r\nx\r\n"}, {"fn": "a/my__init__.py", "raw": "# only a comment\n"}]


def py_has_statement(text):
    """The property's sentence, written without str.split/lstrip/startswith: scan once; a character that is not a blank,
    not a newline and not inside a comment is code."""
    in_comment = False
    for ch in text:
        if ch == "\n":
            in_comment = False
        elif in_comment:
            continue
        elif ch in " \t\r\x0b\x0c\x1c\x1d\x1e\x1f":
            continue
        elif ch == "#":
            in_comment = True
        else:
            return True
    return False


def run_empty(ctx):
    cases = FIXED + [gen_case(env.rng("C11-empty", i)) for i in range(ctx.n(160, 2500))]
    out = gen.impl("c11fn", {"empty": cases})["empty"]
    checks, bad = [], 0
    for i, (c, o) in enumerate(zip(cases, out)):
        ascii_only = all(ord(ch) < 128 for ch in c["raw"])
        has = py_has_statement(c["raw"])
        marker = c["fn"].endswith("__init__.py") or c["fn"].endswith("py.typed")
        ctx.case({"empty": c}, nontrivial=bool(c["raw"].strip()), feature=["empty:" + ("marker" if marker else "module"),
                                                                           "empty:" + ("code" if has else "no-code")])
        if "error" in o:
            ctx.violation(f"Generator._get_file failed on a rendered text: {o['error']}", {"empty_case": c})
            bad += 1
            continue
        # direct oracle (C11: empty modules are not emitted; package markers and every text with a statement are).  Names that
        # merely END like a marker (my__init__.py, xpy.typed) and statement-less non-Python files get no verdict here: the
        # property does not speak about them (the T2 comparison below still pins what the code does with them).
        base = c["fn"].rsplit("/", 1)[-1]
        import re as _re
        lone_cr = _re.search(r"\r(?!\n)", c["raw"]) is not None and not has
        if lone_cr:
            # CPython's tokenizer ends a line (and a comment) at a lone carriage return, utils.empty does not: whether such a
            # text "has a statement" is not settled by the property, so only the T2 comparison speaks about it
            want = None
        elif base in ("__init__.py", "py.typed") or has:
            want = True
        elif c["fn"].endswith(".py") and not marker:
            want = False
        else:
            want = None
        if want is not None and o["emitted"] != want:
            ctx.violation(f"file {c['fn']!r} with {'a statement' if has else 'no statement'} (text {c['raw'][:60]!r}): "
                          f"emitted={o['emitted']}, the property says {want}", {"empty_case": c})
            bad += 1
        if not o["content_is_fixed"]:
            ctx.violation(f"file {c['fn']!r}: the emitted content is not fix_whitespace(render)", {"empty_case": c})
            bad += 1
        if not ascii_only:
            continue    # the model is over ASCII text (DESIGN 4.1); the oracle above still ran
        lab = f"empty #{i} {c['fn']}"
        raw = coq.s(c["raw"])
        checks.append((lab + ": empty raw", f"Bool.eqb (empty {raw}) {coq.b(o['empty_raw'])}"))
        checks.append((lab + ": empty fixed", f"Bool.eqb (empty (fix_whitespace {raw})) {coq.b(o['empty_fixed'])}"))
        checks.append((lab + ": emitted", f"Bool.eqb (emitted {coq.s(c['fn'])} (fix_whitespace {raw})) {coq.b(o['emitted'])}"))
    failing, errors, nf = coq.eval_checks("c11empty", IMPORTS, "", checks, chunk=150)
    ctx.oblige(f"T2 Model/Empty.v = utils.empty / fix_whitespace / Generator._get_file on {len(cases)} rendered texts x file names "
               f"({len(checks)} comparisons, {nf} cases files)", not failing and not errors and len(checks) > 0, "; ".join((failing + errors)[:6]))
    ctx.notes["empty_cases"] = len(cases)
    return bad
