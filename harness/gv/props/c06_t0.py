"""C06 — T0 extractors: constants of /repo the routing model depends on, read with ast (fail-closed)."""
import ast, os
from .. import env, coq


def _parse(rel):
    p = os.path.join(env.REPO, rel)
    return ast.parse(open(p, encoding="utf-8").read(), filename=p)


def _cls(tree, name):
    for n in tree.body:
        if isinstance(n, ast.ClassDef) and n.name == name:
            return n
    raise ValueError(f"class {name} not found in gapic/schema/wrappers.py")


def _fn(cls, name):
    for n in cls.body:
        if isinstance(n, ast.FunctionDef) and n.name == name:
            return n
    raise ValueError(f"{cls.name}.{name} not found")


def _str_consts(fn):
    """String constants of a function body in source order (docstring and f-string pieces included once)."""
    out = []
    body = fn.body
    if body and isinstance(body[0], ast.Expr) and isinstance(body[0].value, ast.Constant) and isinstance(body[0].value.value, str):
        body = body[1:]
    for st in body:
        for n in ast.walk(st):
            if isinstance(n, ast.Constant) and isinstance(n.value, str):
                out.append(n.value)
    return out


def reserved_names():
    for n in _parse("gapic/utils/reserved_names.py").body:
        if isinstance(n, ast.Assign) and any(isinstance(t, ast.Name) and t.id == "RESERVED_NAMES" for t in n.targets):
            c = n.value
            if isinstance(c, ast.Call) and getattr(c.func, "id", "") == "frozenset" and len(c.args) == 1 \
                    and isinstance(c.args[0], (ast.List, ast.Set, ast.Tuple)):
                vals = []
                for e in c.args[0].elts:
                    if not (isinstance(e, ast.Constant) and isinstance(e.value, str)):
                        raise ValueError("non-string element in RESERVED_NAMES")
                    vals.append(e.value)
                return sorted(set(vals))
    raise ValueError("RESERVED_NAMES = frozenset([...]) not found in gapic/utils/reserved_names.py")


def extract():
    t = _parse("gapic/schema/wrappers.py")
    rp, meth, fh = _cls(t, "RoutingParameter"), _cls(t, "Method"), _cls(t, "FieldHeader")
    d = {}
    # field_headers: the scan regex and the order of the verbs
    f = _fn(meth, "field_headers")
    pat, verbs = None, None
    for n in ast.walk(f):
        if isinstance(n, ast.Assign) and getattr(n.targets[0], "id", "") == "pattern":
            c = n.value
            if isinstance(c, ast.Call) and ast.unparse(c.func) == "re.compile" and len(c.args) == 1 and isinstance(c.args[0], ast.Constant):
                pat = c.args[0].value
        if isinstance(n, ast.Assign) and getattr(n.targets[0], "id", "") == "potential_verbs" and isinstance(n.value, ast.List):
            verbs = [ast.unparse(e) for e in n.value.elts]
    if pat is None or verbs is None:
        raise ValueError("Method.field_headers: pattern / potential_verbs not found")
    d["FIELD_HEADERS_RE"] = pat
    d["POTENTIAL_VERBS"] = verbs
    ret = [n for n in ast.walk(f) if isinstance(n, ast.Return)]
    d["FIELD_HEADERS_RETURN"] = [ast.unparse(r.value) for r in ret]
    # FieldHeader.disambiguated
    dis = _fn(fh, "disambiguated")
    r = [n for n in dis.body if isinstance(n, ast.Return)]
    if len(r) != 1:
        raise ValueError("FieldHeader.disambiguated: expected one return")
    d["DISAMBIGUATED"] = ast.unparse(r[0].value)
    # RoutingParameter: the string constants each function is built from, and the functions' normalised source
    for name in ("_split_into_segments", "_convert_segment_to_regex", "_merge_segments", "_how_many_named_segments",
                 "_convert_to_regex", "_to_regex", "key"):
        fn = _fn(rp, name)
        d["CONSTS_" + name.lstrip("_")] = _str_consts(fn)
    # what each branch of _convert_segment_to_regex returns (the literal branch must go through re.escape)
    d["RETURNS_convert_segment_to_regex"] = [ast.unparse(n.value) for n in ast.walk(_fn(rp, "_convert_segment_to_regex")) if isinstance(n, ast.Return)]
    # the emitted literal: regex_literal prints the whole pattern with %r
    d["REGEX_LITERAL"] = [ast.unparse(n.value) for n in ast.walk(_fn(rp, "regex_literal")) if isinstance(n, ast.Return)]
    d["SAMPLE_REQUEST"] = [ast.unparse(n) for n in _fn(rp, "sample_request").body if not isinstance(n, ast.Expr)]
    # uri_sample.sample_from_path_template: the statements under  if "{" in path_template
    us = _parse("gapic/utils/uri_sample.py")
    fn = next((n for n in us.body if isinstance(n, ast.FunctionDef) and n.name == "sample_from_path_template"), None)
    if fn is None:
        raise ValueError("uri_sample.sample_from_path_template not found")
    iff = next((n for n in fn.body if isinstance(n, ast.If)), None)
    if iff is None:
        raise ValueError("sample_from_path_template: 'if' not found")
    d["SAMPLE_FROM_PATH_TEMPLATE"] = [ast.unparse(iff.test)] + [ast.unparse(n) for n in iff.body]
    d["RESERVED_NAMES"] = reserved_names()
    return d


def write_gen():
    d = extract()
    lines = ["(* Gen/RoutingGen.v -- regenerated from /repo by harness/gv/props/c06_t0.py on every run (T0). *)",
             "From GV Require Import Base.Str.", ""]
    lines.append(f"Definition RESERVED_NAMES : list string := {coq.slist(d['RESERVED_NAMES'])}.")
    lines.append(f"Definition FIELD_HEADERS_RE : string := {coq.s(d['FIELD_HEADERS_RE'])}.")
    lines.append(f"Definition POTENTIAL_VERBS : list string := {coq.slist(d['POTENTIAL_VERBS'])}.")
    lines.append(f"Definition FIELD_HEADERS_RETURN : list string := {coq.slist(d['FIELD_HEADERS_RETURN'])}.")
    lines.append(f"Definition DISAMBIGUATED : string := {coq.s(d['DISAMBIGUATED'])}.")
    for k in ("RETURNS_convert_segment_to_regex", "REGEX_LITERAL", "SAMPLE_REQUEST", "SAMPLE_FROM_PATH_TEMPLATE"):
        lines.append(f"Definition {k} : list string := {coq.slist(d[k])}.")
    for k in sorted(k for k in d if k.startswith("CONSTS")):
        lines.append(f"Definition {k} : list string := {coq.slist(d[k])}.")
    coq.write_gen("RoutingGen", "\n".join(lines) + "\n")
    return d
