"""C04 support: random REST-annotated APIs, the schema read back from the INPUT descriptors, abstract request
valuations (leaves) and their Coq terms.  Nothing here imports gapic or the emitted code."""
import base64, json, re
from google.api import annotations_pb2, field_behavior_pb2
from google.protobuf import json_format
from google.protobuf.descriptor import FieldDescriptor as FD
from .. import apigen, coq
from ..apigen import File, SCALARS

PKG = "google.example.tc.v1"
PYPKG = "google.example.tc_v1"
SVC = "TcService"
VERBS = ["get", "put", "post", "delete", "patch"]
LEAF_WKT = {"google.protobuf.FieldMask", "google.protobuf.Timestamp", "google.protobuf.Duration"}
SAFE_SEGS = ["i1", "s-2", "x.y", "a b", "é1", "v~1", "k_s", "A+B", "c;d=e", "q@r", "z,w", "7"]
NON_RESERVED = ["klass", "origin"]
DIGIT_NAMES = ["data_crc32c", "plaintext_crc32c", "api_v2beta", "utf8string_value", "x_2b", "oauth2flow_id", "sha256sum", "md5_hash_b64x"]


# ------------------------------------------------------------------ API generator
def build_api(r, reserved_words, use_reserved=True, hostile=False):
    """One API: shared Kind/Inner/Sub/Reply types, a service with 4-7 unary methods carrying google.api.http rules
    of every shape, one rule-less method, sometimes a custom-only and a client-streaming one."""
    f = File("google/example/tc/v1/tc.proto", PKG, deps=list(apigen.STD_DEPS) + [
        "google/protobuf/field_mask.proto", "google/protobuf/timestamp.proto", "google/protobuf/empty.proto"])
    kw, kw2 = (r.sample(reserved_words, 2) if use_reserved else NON_RESERVED)
    kind = f.enum("Kind", ["KIND_UNSPECIFIED", "KIND_A", "KIND_B"])
    inner = f.message("Inner")
    inner.field("code", 1, "string").field("level", 2, "int64").field("kind", 3, ("enum", kind))
    sub = f.message("Sub")
    sub.field("name", 1, "string").field(kw, 2, "string").field("title", 3, "string").field("count", 4, "int32")
    sub.field("kind", 5, ("enum", kind)).field("tags", 6, "string", repeated=True).field("inner", 7, inner.fqn)
    sub.map_field("labels", 8, "string", "string")
    sub.field("ratio", 9, "double").field("done", 10, "bool").field("items", 11, inner.fqn, repeated=True)
    sub.field("kinds", 12, ("enum", kind), repeated=True)
    rep = f.message("Reply")
    rep.field("ok", 1, "bool").field("kind", 2, ("enum", kind)).field("note", 3, "string").field("sub", 4, sub.fqn)
    rep.field("big", 5, "int64")
    svc = f.service(SVC, host="tc.example.com")

    def request_message(name, allow_required=True):
        # allow_required=False: a request message WITHOUT any REQUIRED field (List / Search / custom-verb shapes): the
        # emitted class then has no defaults table and no _get_unset_required_fields
        def rq(p):
            return allow_required and r.random() < p

        m = f.message(name + "Request")
        info = {"strings": [], "msgs": []}
        m.field("name", 1, "string", required=rq(0.6)); info["strings"].append("name")
        m.field("parent", 2, "string", required=rq(0.4)); info["strings"].append("parent")
        m.field(kw, 3, "string", required=rq(0.5)); info["strings"].append(kw)
        m.field("sub", 4, sub.fqn, required=rq(0.4)); info["msgs"].append("sub")
        if r.random() < 0.6:
            m.field("book", 5, sub.fqn, required=rq(0.3)); info["msgs"].append("book")
        if r.random() < 0.5:
            m.field(kw2, 6, sub.fqn, required=rq(0.3)); info["msgs"].append(kw2)
        n = 10
        for t in r.sample(list(SCALARS), r.randint(3, 7)):
            mode = r.random()
            m.field("f_" + t, n, t, required=rq(0.6), optional=mode < 0.25, repeated=0.25 <= mode < 0.4)
            n += 1
        if r.random() < 0.7:
            m.field("kind", 30, ("enum", kind), required=rq(0.5))
        if r.random() < 0.4:
            m.field("kinds", 31, ("enum", kind), repeated=True)
        if r.random() < 0.6:
            m.field("tags", 32, "string", repeated=True, required=rq(0.4))
        if r.random() < 0.5:
            m.map_field("labels", 33, "string", "string")
        if r.random() < 0.3:
            m.map_field("counts", 34, r.choice(["int32", "bool", "int64", "string"]), r.choice(["int32", "bool", "double", "bytes"]))
        if r.random() < 0.3:
            m.field("items", 35, inner.fqn, repeated=True)
        if r.random() < 0.35:
            m.field("update_mask", 36, ".google.protobuf.FieldMask")
        if r.random() < 0.2:
            m.field("stamp", 37, ".google.protobuf.Timestamp", required=rq(0.3))
        if r.random() < 0.4:
            m.field("page_size", 38, "int32", required=rq(0.7))
        # names with a letter after a digit in a later word: str.capitalize() and str.title() differ on them
        # (crc32c -> Crc32c / Crc32C), so the lowerCamel key of the defaults table can drift from the JSON name
        for k, nm in enumerate(r.sample(DIGIT_NAMES, r.randint(1, 2))):
            m.field(nm, 40 + k, r.choice(["int32", "uint32", "string", "int64", "bool"]), required=rq(0.85))
        return m, info

    def uri(info, version="v1"):
        s, ms = info["strings"], info["msgs"]
        top = r.choice(s)
        forms = [
            lambda: "/%s/{%s=items/*}" % (version, top),
            lambda: "/%s/{%s=shelves/*/books/*}" % (version, top),
            lambda: "/%s/{%s=shelves/*}/books" % (version, top),
            lambda: "/%s/{%s=items/*}:%s" % (version, top, r.choice(["archive", "move", "check"])),
            lambda: "/%s/{%s}" % (version, top),
            lambda: "/%s/items/{%s}/detail" % (version, top),
            lambda: "/%s/{%s=files/**}" % (version, top),
            lambda: "/%s/{%s=**}:fetch" % (version, top),
            lambda: "/%s/{%s.name=items/*}" % (version, r.choice(ms)),
            lambda: "/%s/{%s.%s=things/*}" % (version, r.choice(ms), kw),
            lambda: "/%s/{%s.inner.code=*}/{%s=items/*}" % (version, r.choice(ms), top),
            lambda: "/%s/{%s=shelves/*}/items/{%s}" % (version, s[0], s[1]),
            lambda: "/%s/{%s=*}/{%s=**}" % (version, s[0], s[1]),
            lambda: "/%s/things:list" % version,
            lambda: "/v1.1/{%s=items/*}/{%s.name=books/*}" % (top, r.choice(ms)),
        ]
        return r.choice(forms)()

    def body(info):
        x = r.random()
        return None if x < 0.4 else "*" if x < 0.65 else r.choice(info["msgs"])

    nmeth = r.randint(4, 7)
    names = ["Alpha", "Beta", "Gamma", "Delta", "Epsilon", "Zeta", "Eta"][:nmeth]
    stream_pos = r.randrange(nmeth)    # at least one server-streaming candidate per API
    bare = r.randrange(nmeth)          # at least one bound method per API whose request declares no REQUIRED field
    for pos, nm in enumerate(names):
        m, info = request_message(nm, allow_required=(pos != bare and r.random() < 0.85))
        k = r.random()
        more = []
        for j in range(0 if k < 0.5 else 1 if k < 0.8 else 2):
            more.append((r.choice(VERBS), uri(info, "v%d" % (j + 2)), body(info)))
        out = rep.fqn if r.random() < 0.85 else ".google.protobuf.Empty"
        # some of the bound methods are server-streaming (returns (stream Reply)): same request side, JSON array reply
        streaming = out == rep.fqn and (pos == stream_pos or r.random() < 0.15)
        svc.rpc(nm, m.fqn, out, ss=streaming, http=(r.choice(VERBS), uri(info)), body=body(info), more_http=more)
        if r.random() < 0.3:
            # an unsupported additional binding (custom verb / no pattern at all) before, between or after the standard ones
            insert_unsupported(svc.proto.method[-1], r.randint(0, len(more)), r.random() < 0.6)
    # request / reply types from a dependency (plain protobuf classes) on either side, any two of the three mixed shapes
    EXPR = ".google.type.Expr"
    f.dep("google/type/expr.proto")
    shapes = {"Eval": (EXPR, EXPR), "Lookup": (EXPR, rep.fqn), "Describe": (None, EXPR)}
    for nm in r.sample(sorted(shapes), 2):
        inp, outp = shapes[nm]
        var = "title"
        if inp is None:
            m, info = request_message(nm)
            inp, var = m.fqn, "name"
        verb = r.choice(VERBS)
        svc.rpc(nm, inp, outp, http=(verb, "/v1/{%s=items/*}:%s" % (var, nm.lower())), body=r.choice([None, "*"]))
    m, _ = request_message("Bare")
    svc.rpc("Bare", m.fqn, rep.fqn)                                   # no google.api.http at all
    if r.random() < 0.5:
        m, _ = request_message("Custom")
        svc.rpc("Custom", m.fqn, rep.fqn)
        cp = svc.proto.method[-1].options.Extensions[annotations_pb2.http].custom
        cp.kind, cp.path = "HEAD", "/v1/custom"
    if r.random() < 0.35:
        m, info = request_message("Upload")
        svc.rpc("Upload", m.fqn, rep.fqn, cs=True, http=("post", uri(info)), body="*")
    return apigen.request([f])


def in_package(fqn):
    """The type is declared in the API package (emitted as a proto-plus class) rather than in a dependency (plain protobuf)."""
    return fqn.startswith("." + PKG + ".")


def py_class(req, fqn):
    """'module:Class' of the Python class the emitted library uses for a message type."""
    if in_package(fqn):
        return f"{PYPKG}:{fqn.split('.')[-1]}"
    for fp in req.proto_file:
        pre = "." + fp.package + "." if fp.package else "."
        if fqn.startswith(pre) and fqn[len(pre):] in [m.name for m in fp.message_type]:
            return fp.name[:-len(".proto")].replace("/", ".") + "_pb2:" + fqn[len(pre):]
    raise KeyError(fqn)


def insert_unsupported(method_pb, index, custom=True):
    """Put a binding try_parse_http_rule rejects (custom verb, or no pattern) at [index] of the additional bindings."""
    from google.api import http_pb2
    ext = method_pb.options.Extensions[annotations_pb2.http]
    keep = [http_pb2.HttpRule() for _ in ext.additional_bindings]
    for k, a in zip(keep, ext.additional_bindings):
        k.CopyFrom(a)
    x = http_pb2.HttpRule()
    if custom:
        x.custom.kind, x.custom.path = "HEAD", "/v1/unsupported"
    keep.insert(index, x)
    del ext.additional_bindings[:]
    for k in keep:
        ext.additional_bindings.add().CopyFrom(k)


# ------------------------------------------------------------------ schema read back from the input descriptors
def snake(s):
    return re.sub(r"(?<=[a-z0-9])([A-Z])", r"_\1", s).lower()


def schema_of(req):
    """[{service, name, py, input, output, fields, rule, more, client_streaming, server_streaming}] for the generated files."""
    msgs = {}

    def walk(prefix, m):
        fqn = prefix + "." + m.name
        msgs[fqn] = m
        for n in m.nested_type:
            walk(fqn, n)

    for fp in req.proto_file:
        for m in fp.message_type:
            walk("." + fp.package if fp.package else "", m)
    out = []
    for fp in req.proto_file:
        if fp.name not in req.file_to_generate:
            continue
        for s in fp.service:
            for m in s.method:
                ext = m.options.Extensions[annotations_pb2.http]

                def rule(h):
                    pat = h.WhichOneof("pattern")
                    if pat is None:
                        return {"pat": "none", "body": h.body}
                    if pat == "custom":
                        return {"pat": "custom", "body": h.body}
                    return {"pat": "verb", "verb": pat, "uri": getattr(h, pat), "body": h.body}

                fields = [{"name": f.name, "type": int(f.type), "repeated": f.label == FD.LABEL_REPEATED,
                           "required": field_behavior_pb2.REQUIRED in f.options.Extensions[field_behavior_pb2.field_behavior],
                           "type_name": f.type_name, "optional": f.proto3_optional}
                          for f in msgs[m.input_type].field]
                out.append({"service": s.name, "name": m.name, "py": snake(m.name), "input": m.input_type, "output": m.output_type,
                            "fields": fields, "rule": rule(ext), "more": [rule(a) for a in ext.additional_bindings],
                            "client_streaming": m.client_streaming, "server_streaming": m.server_streaming})
    return out


def in_model(ms):
    """The shapes Model/Http.v is stated for (see ASSUMES)."""
    rules = [ms["rule"]] + ms["more"]
    # unsupported bindings (custom verb, no pattern) are merely skipped wherever they stand; a non-verb PRIMARY rule with
    # further bindings is modelled only for request messages without REQUIRED fields (query_params is then never evaluated)
    if any(x["pat"] != "verb" and x["body"] for x in rules) or any(x["pat"] == "verb" and not x["uri"] for x in rules):
        return False
    if ms["rule"]["pat"] != "verb":
        return not ms["more"] or not any(f["required"] for f in ms["fields"])
    return True


# ------------------------------------------------------------------ Coq terms
def rule_term(x):
    pat = {"none": "PNone", "custom": "PCustom"}.get(x["pat"]) or f"(PVerb {coq.s(x['verb'])} {coq.s(x['uri'])})"
    return f"(mkRule {pat} {coq.s(x['body'])})"


def method_term(ms):
    fs = coq.lst(f"mkField {coq.s(f['name'])} {f['type']}%N {coq.b(f['repeated'])} {coq.b(f['required'])}" for f in ms["fields"])
    return f"(mkMethod {fs} {rule_term(ms['rule'])} {coq.lst(rule_term(x) for x in ms['more'])} {coq.b(ms['client_streaming'])})"


def leaf_term(l):
    comps = coq.lst(("F " if k == "F" else "K ") + coq.s(v) for k, v in l["path"])
    val = f"(VS {coq.s(l['text'])})" if l["enum"] is None else f"(VE {coq.s(l['enum'][0])} {coq.s(l['enum'][1])})"
    return f"(mkLeaf {comps} {val} {coq.b(l['rep'])})"


def req_term(leaves):
    return coq.lst(leaf_term(l) for l in leaves)


def pairs_term(pairs):
    return coq.lst(f"({coq.s(k)}, {coq.s(v)})" for k, v in pairs)


# ------------------------------------------------------------------ abstract valuation of a concrete message
def _ftext(v):
    return repr(float(v))


def scalar_text(fd, v):
    """Canonical text of the JSON rendering of one scalar (contract of json_format, validated by T2)."""
    t = fd.type
    if t == FD.TYPE_STRING:
        return v
    if t == FD.TYPE_BYTES:
        return base64.b64encode(v).decode()
    if t == FD.TYPE_BOOL:
        return "true" if v else "false"
    if t in (FD.TYPE_DOUBLE, FD.TYPE_FLOAT):
        return _ftext(v)
    return str(int(v))


def leaves_of(msg, prefix=(), rep=False):
    """Set scalar positions of a message in field-number order: [{path:[(F|K, text)], text, enum:(name,num)|None, rep}]."""
    out = []
    for fd, val in msg.ListFields():
        here = list(prefix) + [("F", fd.name)]

        def one(f, v, path, rp):
            if f.type == FD.TYPE_MESSAGE:
                if f.message_type.full_name in LEAF_WKT:
                    out.append({"path": path, "text": json_format.MessageToDict(v), "enum": None, "rep": rp})
                else:
                    out.extend(leaves_of(v, path, rp))
            elif f.type == FD.TYPE_ENUM:
                ev = f.enum_type.values_by_number.get(v)
                out.append({"path": path, "text": "", "enum": (ev.name if ev is not None else str(v), str(v)), "rep": rp})
            else:
                out.append({"path": path, "text": scalar_text(f, v), "enum": None, "rep": rp})

        if fd.type == FD.TYPE_MESSAGE and fd.message_type.GetOptions().map_entry:
            kf, vf = fd.message_type.fields_by_name["key"], fd.message_type.fields_by_name["value"]
            for k in sorted(val, key=lambda x: (str(type(x)), x)):
                one(vf, val[k], here + [("K", scalar_text(kf, k))], rep)
        elif fd.label == FD.LABEL_REPEATED:
            for v in val:
                one(fd, v, here, rep or (fd.type == FD.TYPE_MESSAGE and fd.message_type.full_name not in LEAF_WKT))
        else:
            one(fd, val, here, rep)
    return out


def json_text(v):
    if isinstance(v, bool):
        return "true" if v else "false"
    if isinstance(v, float):
        return repr(v)
    return str(v)


def flatten_json(obj, sep="\x1f", prefix=()):
    """A JSON object as (key path, text) pairs; lists repeat the path; empty objects vanish."""
    out = []
    if isinstance(obj, dict):
        for k, v in obj.items():
            out.extend(flatten_json(v, sep, prefix + (k,)))
    elif isinstance(obj, list):
        for v in obj:
            out.extend(flatten_json(v, sep, prefix))
    else:
        out.append((sep.join(prefix), json_text(obj)))
    return out


def normalize(msg):
    """Drop what google.api.http cannot carry: presence of empty sub-messages (recursively)."""
    for fd, val in list(msg.ListFields()):
        if fd.type != FD.TYPE_MESSAGE or fd.message_type.full_name in LEAF_WKT:
            continue
        if fd.message_type.GetOptions().map_entry:
            continue
        if fd.label == FD.LABEL_REPEATED:
            for v in val:
                normalize(v)
        else:
            normalize(val)
            if not val.ListFields():
                msg.ClearField(fd.name)
    return msg
