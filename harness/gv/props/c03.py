"""C03 — gRPC calls reach the right RPC with the caller's request and return the reply."""
import ast, base64, json, os, re
from google.protobuf import descriptor_pb2 as dp
from google.protobuf.descriptor import FieldDescriptor as FD
from .. import env, coq, gen, apigen, dyn
from . import callutil as U, flatapi as A, flatgen
from .c05 import pick_sigs, pp_falsy

F = dp.FieldDescriptorProto
OPERATION = ".google.longrunning.Operation"

RULE = ("APIs from harness/gv/props/flatapi.py: main package (proto-plus), optionally a dependency package (plain protobuf classes; "
        "_pb2 modules synthesised from the FileDescriptorProto) or a sub-package; services with unary, server-, client- and "
        "bidi-streaming RPCs, void RPCs, requests/responses from the package or the dependency, RPC names that need the "
        "transport-safe or keyword suffix, http bindings with a path variable on RPCs of every arity (implicit routing header; "
        "client-streaming and bidi included), responses merely named Empty (own package, nested, sub-package, dependency; not void), "
        "a paged and a long-running RPC, with and without add-iam-methods and mixins. "
        "For each RPC and each of the sync and asyncio clients: the request given as message, as dict and omitted (unary) or a "
        "stream of 0..3 messages (client-streaming), random request and reply valuations, 0..3 replies for server-streaming; "
        "requests whose set fields all hold false values but are present (proto3 optional scalars and oneof members at their default, "
        "empty sub-messages) as message instance and as dict; APIs whose service config lists auto-populated UUID4 request fields (proto3 optional and plain), driven with the field unset, "
        "set to a value and set to the empty string explicitly; APIs with several services where a non-last one declares rpcs named like the IAM mixin methods (own or google.iam.v1 "
        "types) under a service config listing that mixin, driven over gRPC (sync, asyncio) and REST; "
        "per service one unary and one server-streaming call with 6 MiB replies through a transport built with a channel factory. "
        "One case = (API, RPC, client, spelling, request bytes, reply bytes); distinct = distinct canonical JSON of these; "
        "non-trivial = a call was issued. The asyncio legacy-IAM witness (DESIGN section 9 no. 3) runs first.")
TRUSTED = [
    "Model/Stubs.v: hand-written model of transport_safe_name, to_snake_case, grpc_stub_type, the stub-creation properties of "
    "grpc.py.j2 / grpc_asyncio.py.j2, _prep_wrapped_messages, the table lookups of the client templates (incl. mixins and the "
    "legacy IAM methods), the rpc call and _client_output; the coercion block is Model/Flatten.v",
    "contract: a Python class body keeps the last definition of a name; dict lookup by the stub object; grpc multi-callables send "
    "one message for unary requests and deliver the replies in order (observed on the loopback server on every run)",
    "harness/gv/props/callutil.py ast readers (client methods, transport properties, _wrapped_methods), flatapi.py translation, "
    "impl/schemafacts.py, impl/calldrive.py + drivelib loopback gRPC server (generic stream-stream handler), dyn.Dyn decoder, "
    "synthesised _pb2 modules for dependency packages",
]
ASSUMES = [
    "snake_names_distinct: the transport property names (snake-cased transport-safe RPC names, legacy IAM names, mixin names) "
    "of a service are pairwise distinct (DESIGN section 9 no. 11; refuted without it)",
    "package, service and RPC names contain no '/' (protobuf identifiers)",
    "coerce_equiv: flattened keys distinct; cross-package mappings hold no maps (true of every _fields_mapping result)",
    "methods made internal by selective generation and extended-operation (compute) services are not modelled",
]
IMPORTS = "From GV Require Import Model.Flatten Model.Stubs."
WKT_SKIP = ("google.protobuf.Value", "google.protobuf.Struct", "google.protobuf.ListValue", "google.protobuf.Any")


def regen(ctx):
    flatgen.write_flatten_gen()
    flatgen.write_stubs_gen()


# ---------------------------------------------------------------------------------------------- APIs
TRICKY = ["Import", "CreateChannel", "GrpcChannel", "OperationsClient", "Class", "Return", "Global", "GetIAMPolicy2", "Get2FACode",
          "List3DModels", "getBook", "Get_Book", "HTTPHealth", "Pass", "From", "Lambda"]


def make_api(r, shape, *, add_iam=False, mixins=False, collide=False):
    api = A.FlatApi(r, dep=r.choice(A.DEP_PKGS) if shape == "dep" else None, sub="shared" if shape == "sub" else None,
                    reserved=r.random() < 0.5)
    api.main.dep("google/longrunning/operations.proto")
    main_req = [api.zoo(api.main, "Alpha"), api.zoo(api.main, "Beta")]
    main_resp = api.zoo(api.main, "Reply")
    other_req = other_resp = None
    if shape in ("dep", "sub"):
        f = api.dep if shape == "dep" else api.sub
        other_req, other_resp = api.zoo(f, "Shared"), api.zoo(f, "SharedReply")
    svc = api.main.service(r.choice(["Library", "Catalog", "WidgetAdmin", "DataHub2"]), host=api.host)
    idx0 = U.Index(api.request())
    names = r.sample(["GetThing", "MakeThing", "FindThing", "PutThing", "ScanThing", "TellThing", "MarkThing", "DropThing"], 5) \
        + ["Import", "CreateChannel"] + r.sample([t for t in TRICKY if t not in ("Import", "CreateChannel", "Return", "Class")], 2)
    if collide:
        names = ["GetBook", "GetBOOK", "FindThing"]
    kinds = [(False, False), (False, True), (True, False), (True, True)]
    for i, nm in enumerate(names):
        cs, ss = kinds[i % 4] if i < 4 else r.choice(kinds)
        use_other_req = other_req is not None and r.random() < 0.5
        use_other_resp = other_resp is not None and r.random() < 0.5
        rq = other_req if use_other_req else r.choice(main_req)
        void = (not cs and not ss and r.random() < 0.3)
        rs = U.EMPTY if void else (other_resp.fqn if use_other_resp else main_resp.fqn)
        sigs = pick_sigs(r, idx0, rq.fqn, use_other_req, None, avoid_defects=True) if (not cs and r.random() < 0.4) else []
        # an http binding whose URI names a request field as path variable (implicit routing header), as Firestore.Listen/Write
        # have: always on the first four RPCs (one of each arity, client-streaming and bidi included), at random on the others
        http = ("post", "/v1/{name=rooms/*}:" + nm.lower()) if (i < 4 or r.random() < 0.4) else None
        svc.rpc(nm, rq.fqn, rs, cs=cs, ss=ss, sigs=sigs, http=http, body="*" if http else None)
    if not collide:
        # requests from a dependency package with the response in the API's package: google.protobuf.Empty, and (dep shape)
        # a plain protobuf message of the dependency
        svc.rpc("PingThing", U.EMPTY, main_resp.fqn)
        svc.rpc("Return", U.EMPTY, main_resp.fqn, ss=True)
        if shape == "dep":
            svc.rpc("PullThing", other_req.fqn, main_resp.fqn, sigs=["name"])
            svc.rpc("Class", other_req.fqn, main_resp.fqn, cs=True)
        # responses whose message is merely NAMED Empty (with fields) are not void: only google.protobuf.Empty is.
        # In the API's package, nested in another message, and in the sub-package / dependency package when there is one.
        own_empty = api.main.message("Empty")
        own_empty.field("revision", 1, "int64").field("note", 2, "string")
        nested_empty = main_resp.nested("Empty")
        nested_empty.field("revision", 1, "int64").field("tags", 2, "string", repeated=True)
        svc.rpc("StampThing", r.choice(main_req).fqn, own_empty.fqn)
        svc.rpc("WatchStamp", r.choice(main_req).fqn, own_empty.fqn, ss=True)
        svc.rpc("PushStamp", r.choice(main_req).fqn, own_empty.fqn, cs=True)
        svc.rpc("NestThing", r.choice(main_req).fqn, nested_empty.fqn)
        if shape in ("dep", "sub"):
            far_empty = (api.dep if shape == "dep" else api.sub).message("Empty")
            far_empty.field("revision", 1, "int64").field("flag", 2, "bool")
            svc.rpc("FarStamp", r.choice(main_req).fqn, far_empty.fqn)
            svc.rpc("FarWatch", U.EMPTY, far_empty.fqn, ss=True)
        # a paged and a long-running RPC (their wrappers are C07's / C08's business; here: which entry they call, what they pass)
        lreq = api.main.message("ListWidgetsRequest")
        lreq.field("parent", 1, "string").field("page_size", 2, "int32").field("page_token", 3, "string")
        # flattened fields named like the modules the method bodies use (pagers, operation, operation_async, retries,
        # core_exceptions): the imports must take an alias, or the keyword parameter shadows the module
        lreq.field("pagers", 4, "string").field("operation", 5, "string").field("retries", 6, "int32")
        lresp = api.main.message("ListWidgetsResponse")
        lresp.field("widgets", 1, main_resp.fqn, repeated=True).field("next_page_token", 2, "string")
        svc.rpc("ListWidgets", lreq.fqn, lresp.fqn, sigs=["parent,pagers", "operation,retries"])
        if shape in ("dep", "sub"):
            # the same with the request in the other package (plain protobuf dependency / proto-plus sub-package): the pager
            # has to copy such a request too (plain protobuf: /repo commit 9678930)
            freq = (api.dep if shape == "dep" else api.sub).message("ListFarWidgetsRequest")
            freq.field("parent", 1, "string").field("page_size", 2, "int32").field("page_token", 3, "string")
            fresp = api.main.message("ListFarWidgetsResponse")
            fresp.field("widgets", 1, main_resp.fqn, repeated=True).field("next_page_token", 2, "string")
            svc.rpc("ListFarWidgets", freq.fqn, fresp.fqn, sigs=["parent"])
        oreq = api.main.message("BuildWidgetRequest")
        oreq.field("parent", 1, "string").field("operation", 2, "string").field("operation_async", 3, "string")
        oreq.field("retries", 4, "int32").field("core_exceptions", 5, "string", repeated=True).field("pagers", 6, "string")
        ometa = api.main.message("BuildWidgetMetadata")
        ometa.field("progress", 1, "int32")
        svc.rpc("BuildWidget", oreq.fqn, OPERATION, lro=(main_resp.proto.name, ometa.proto.name),
                sigs=["parent,operation", "operation_async,retries", "core_exceptions,pagers"])
    params = ["transport=grpc"] + (["add-iam-methods"] if add_iam else [])
    req = api.request(",".join(params))
    yaml = None
    if mixins:
        yaml = {"type": "google.api.Service", "config_version": 3, "name": api.host,
                "apis": [{"name": "google.longrunning.Operations"}, {"name": "google.cloud.location.Locations"}],
                "http": {"rules": [{"selector": "google.longrunning.Operations.GetOperation", "get": "/v1/{name=operations/*}"},
                                   {"selector": "google.longrunning.Operations.ListOperations", "get": "/v1/{name=operations}"},
                                   {"selector": "google.cloud.location.Locations.GetLocation", "get": "/v1/{name=projects/*/locations/*}"}]}}
    return req, yaml


IAM_NAMES = ("SetIamPolicy", "GetIamPolicy", "TestIamPermissions")


VOID_STREAM = "stubs.streaming_empty_response_treated_as_void"


def registered(signature):
    """the finding is in findings/known_findings.json (known or fixed): its inputs join the run; until then they are only in
    scratch/findings (replayable) and the unchanged tree stays green"""
    from ..main import load_findings
    return any(f.get("property") == "C03" and f.get("signature") == signature for f in load_findings())


def make_void_stream_api(r):
    """server-streaming and bidi RPCs whose response is google.protobuf.Empty (plus a client-streaming one, which is unary on the
    response side and rightly void)"""
    api = A.FlatApi(r, reserved=False)
    rq = api.zoo(api.main, "Alpha")
    reply = api.zoo(api.main, "Reply")
    svc = api.main.service("Library", host=api.host)
    svc.rpc("WatchVoid", rq.fqn, U.EMPTY, ss=True)
    svc.rpc("TalkVoid", rq.fqn, U.EMPTY, cs=True, ss=True)
    svc.rpc("PushVoid", rq.fqn, U.EMPTY, cs=True)
    svc.rpc("DropThing", rq.fqn, U.EMPTY)
    svc.rpc("WatchThing", rq.fqn, reply.fqn, ss=True)
    return api.request("transport=grpc"), None


UUID4_RE = re.compile(r"[0-9a-f]{8}-[0-9a-f]{4}-4[0-9a-f]{3}-[89ab][0-9a-f]{3}-[0-9a-f]{12}")


def make_uuid_api(r):
    """unary RPCs whose service config (publishing.method_settings) lists auto-populated request fields (AIP-4235): a proto3
    optional string (explicit presence: only an UNSET field may be filled in) and a plain string (the empty value may be filled in),
    both with google.api.field_info.format = UUID4. C18 judges the population rule; here: the payload is the caller's request."""
    api = A.FlatApi(r, reserved=False)
    api.main.dep("google/api/field_info.proto")
    reply = api.zoo(api.main, "Reply")
    reqs = []
    for nm in ("Create", "Make"):
        m = api.main.message(nm + "ThingRequest")
        m.field("name", 1, "string").field("request_id", 2, "string", optional=True, uuid4=True).field("plain_id", 3, "string", uuid4=True)
        m.field("count", 4, "int32").field("tags", 5, "string", repeated=True).field("note", 6, "string", optional=True)
        reqs.append(m)
    svc = api.main.service(r.choice(["Library", "Catalog"]), host=api.host)
    svc.rpc("CreateThing", reqs[0].fqn, reply.fqn, sigs=["name"])
    svc.rpc("MakeThing", reqs[1].fqn, U.EMPTY)
    svc.rpc("PlainThing", reqs[0].fqn, reply.fqn)
    svc.rpc("WatchThing", reqs[0].fqn, reply.fqn, ss=True)
    pkg, sn = api.pkg, svc.proto.name
    yaml = {"type": "google.api.Service", "config_version": 3, "name": api.host,
            "publishing": {"method_settings": [
                {"selector": f"{pkg}.{sn}.CreateThing", "auto_populated_fields": ["request_id"]},
                {"selector": f"{pkg}.{sn}.MakeThing", "auto_populated_fields": ["plain_id", "request_id"]}]}}
    return api.request("transport=grpc"), yaml


def make_iam_api(r, own_types, first=True):
    """several services; one that is not the last (first=True) declares rpcs NAMED like the IAM mixin methods, with request and
    response types of its own or google.iam.v1's; the service config lists the google.iam.v1.IAMPolicy mixin with http rules.
    The API's own rpcs must win: /<pkg>.<Service>/<Method>, not /google.iam.v1.IAMPolicy/<Method>."""
    pkg = r.choice(["acme.vault.v1", "google.example.keys.v2"])
    d = pkg.replace(".", "/")
    main = apigen.File(d + "/vault.proto", pkg, deps=list(apigen.STD_DEPS) + ["google/iam/v1/iam_policy.proto", "google/iam/v1/policy.proto",
                                                                             "google/protobuf/empty.proto"])
    vault = main.message("VaultItem")
    vault.field("name", 1, "string").field("size", 2, "int64").field("tags", 3, "string", repeated=True)
    gv = main.message("GetVaultRequest")
    gv.field("name", 1, "string")
    if own_types:
        preq = main.message("VaultPolicyRequest")
        preq.field("resource", 1, "string").field("note", 2, "string").field("version", 3, "int32")
        pol = main.message("VaultPolicy")
        pol.field("etag", 1, "string").field("version", 2, "int32").field("members", 3, "string", repeated=True)
        types = {n: (preq.fqn, pol.fqn) for n in IAM_NAMES}
    else:
        types = {"SetIamPolicy": (".google.iam.v1.SetIamPolicyRequest", ".google.iam.v1.Policy"),
                 "GetIamPolicy": (".google.iam.v1.GetIamPolicyRequest", ".google.iam.v1.Policy"),
                 "TestIamPermissions": (".google.iam.v1.TestIamPermissionsRequest", ".google.iam.v1.TestIamPermissionsResponse")}
    names = ["Vault", "Auditor", "Keeper"][: r.choice([2, 3])]
    owner = names[0] if first else names[-2]
    declared = list(IAM_NAMES) if r.random() < 0.6 else r.sample(list(IAM_NAMES), 2)
    host = "vault.example.com"
    for sn in names:
        svc = main.service(sn, host=host)
        svc.rpc("Get" + sn + "Item", gv.fqn, vault.fqn, http=("get", "/v1/{name=" + sn.lower() + "s/*}"))
        svc.rpc("Watch" + sn, gv.fqn, vault.fqn, ss=True)
        if sn == owner:
            for n in declared:
                svc.rpc(n, types[n][0], types[n][1], http=("post", "/v1/own/{resource=vaults/*}:" + n[0].lower() + n[1:]), body="*")
    yaml = {"type": "google.api.Service", "config_version": 3, "name": host, "apis": [{"name": "google.iam.v1.IAMPolicy"}],
            "http": {"rules": [{"selector": "google.iam.v1.IAMPolicy." + n, "post": "/v1/mixin/{resource=**}:" + n[0].lower() + n[1:], "body": "*"}
                               for n in IAM_NAMES]}}
    return apigen.request([main], parameter="transport=grpc+rest"), yaml


def mixin_names(yaml, idx=None):
    """api.mixin_api_methods keys read off the service config: Locations, then IAMPolicy, then Operations; within each the http
    rules in order. The IAMPolicy mixin is dropped as a whole when ANY service of the API declares an rpc named like one of its
    methods (the API's own rpc wins)."""
    if not yaml:
        return []
    enabled = [a["name"] for a in yaml.get("apis", [])]
    if idx is not None and any(m.name in IAM_NAMES for _, sv in idx.services() for m in sv.method):
        enabled = [e for e in enabled if e != "google.iam.v1.IAMPolicy"]
    out = []
    for svc_name in ("google.cloud.location.Locations", "google.iam.v1.IAMPolicy", "google.longrunning.Operations"):
        if svc_name in enabled:
            for rule in yaml.get("http", {}).get("rules", []):
                sel = rule["selector"]
                if sel.rsplit(".", 1)[0] == svc_name and sel.rsplit(".", 1)[1] not in out:
                    out.append(sel.rsplit(".", 1)[1])
    return out


# ---------------------------------------------------------------------------------------------- descriptors -> model terms
def is_paged(idx, m):
    rq, rs = idx.msgs.get(m.input_type), idx.msgs.get(m.output_type)
    if not rq or not rs:
        return False
    f = {x.name: x for x in rq[0].field}
    g = {x.name: x for x in rs[0].field}
    return ("page_token" in f and f["page_token"].type == F.TYPE_STRING and "next_page_token" in g and g["next_page_token"].type == F.TYPE_STRING
            and "page_size" in f and f["page_size"].type == F.TYPE_INT32 and "max_results" not in f
            and any(x.label == F.LABEL_REPEATED for x in rs[0].field))


def meth_term(idx, m):
    in_pp = idx.proto_plus_pkg(idx.package_of(m.input_type))
    out_pp = idx.proto_plus_pkg(idx.package_of(m.output_type))
    void = m.output_type == U.EMPTY
    lro = m.output_type == OPERATION
    return (f"(mkMeth {coq.s(m.name)} {coq.b(m.client_streaming)} {coq.b(m.server_streaming)} {coq.b(in_pp)} {coq.b(out_pp)} "
            f"{coq.b(void)} {coq.b(lro)} {coq.b(is_paged(idx, m))})")


def svc_term(idx, fp, s, mixins, add_iam):
    return (f"(mkSvc {coq.s(fp.package)} {coq.s(s.name)} {coq.lst(meth_term(idx, m) for m in s.method)} "
            f"{coq.slist(mixins)} {coq.b(add_iam)})")


# ---------------------------------------------------------------------------------------------- T1 readers of the transports
def read_transport(src, filename):
    """[(property name, key literal, factory attribute, path, ser attr, ser class, deser attr, deser class)] in definition order,
    and the keys of _prep_wrapped_messages (None when the class does not define it)."""
    compile(src, filename, "exec")
    tree = ast.parse(src)
    cls = next(n for n in tree.body if isinstance(n, ast.ClassDef) and n.name.endswith("Transport"))
    props, wrapped = [], None
    for fn in cls.body:
        if not isinstance(fn, ast.FunctionDef):
            continue
        if fn.name == "_prep_wrapped_messages":
            wrapped = read_wrapped(fn)
            continue
        if not any(isinstance(d, ast.Name) and d.id == "property" for d in fn.decorator_list):
            continue
        creates = [n for n in ast.walk(fn) if isinstance(n, ast.Assign) and isinstance(n.targets[0], ast.Subscript)
                   and ast.unparse(n.targets[0].value) == "self._stubs"]
        if not creates:
            continue
        if len(creates) != 1:
            raise U.Shape(f"{fn.name}: {len(creates)} stub creations")
        a = creates[0]
        key = a.targets[0].slice
        call = a.value
        if not (isinstance(key, ast.Constant) and isinstance(call, ast.Call) and isinstance(call.func, ast.Attribute)
                and ast.unparse(call.func.value) == "self._logged_channel" and len(call.args) == 1 and isinstance(call.args[0], ast.Constant)):
            raise U.Shape(f"{fn.name}: stub creation has an unknown shape: {ast.unparse(a)[:200]}")
        kws = {k.arg: k.value for k in call.keywords}
        if set(kws) != {"request_serializer", "response_deserializer"} or not all(isinstance(v, ast.Attribute) for v in kws.values()):
            raise U.Shape(f"{fn.name}: serializer keywords: {sorted(kws)}")
        guard = next((n for n in fn.body if isinstance(n, ast.If)), None)
        ret = fn.body[-1]
        if guard is None or ast.unparse(guard.test) != f"{key.value!r} not in self._stubs" or not isinstance(ret, ast.Return) \
                or ast.unparse(ret.value) != f"self._stubs[{key.value!r}]":
            raise U.Shape(f"{fn.name}: cache test / return do not use the key {key.value!r}")
        props.append({"prop": fn.name, "key": key.value, "kind": call.func.attr, "path": call.args[0].value,
                      "ser": kws["request_serializer"].attr, "ser_cls": ast.unparse(kws["request_serializer"].value),
                      "deser": kws["response_deserializer"].attr, "deser_cls": ast.unparse(kws["response_deserializer"].value)})
    return props, wrapped


def read_wrapped(fn):
    asg = next((s for s in fn.body if isinstance(s, ast.Assign) and ast.unparse(s.targets[0]) == "self._wrapped_methods"), None)
    if asg is None or not isinstance(asg.value, ast.Dict):
        raise U.Shape("_prep_wrapped_messages does not assign a dict literal")
    keys = []
    for k, v in zip(asg.value.keys, asg.value.values):
        if not (isinstance(k, ast.Attribute) and ast.unparse(k.value) == "self" and isinstance(v, ast.Call) and v.args
                and ast.unparse(v.args[0]) == ast.unparse(k)):
            raise U.Shape("table entry is not self.k: wrap(self.k, ...): " + ast.unparse(k))
        keys.append(k.attr)
    return keys


def stub_term(p):
    kind = {"unary_unary": "UU", "unary_stream": "US", "stream_unary": "SU", "stream_stream": "SS"}.get(p["kind"])
    if kind is None or p["prop"] != p["key"]:
        return None
    return f"(mkStub {coq.s(p['key'])} {kind} {coq.s(p['path'])} {coq.s(p['ser'])} {coq.s(p['deser'])})"


def clean(msg):
    """exception text without object addresses (replay files and case hashes must be stable)"""
    return re.sub(r" at 0x[0-9a-f]+", "", msg)


def falsy_present(d, fqn, depth=0):
    """a message whose set fields all hold FALSE values but are present: proto3 optional scalars at their default, the first
    member of every oneof at its default, empty sub-messages (bool(msg) is False for the proto-plus wrapper, the bytes are not empty)"""
    m = d.new(fqn)
    seen_oneofs = set()
    for f in m.DESCRIPTOR.fields:
        if f.label == FD.LABEL_REPEATED:
            continue
        if f.type == FD.TYPE_MESSAGE:
            if f.message_type.full_name.startswith("google.protobuf.") or depth >= 1:
                continue
            if f.containing_oneof is None:
                getattr(m, f.name).CopyFrom(falsy_present(d, f.message_type.full_name, depth + 1))
                getattr(m, f.name).SetInParent()
            continue
        if f.containing_oneof is not None:
            if f.containing_oneof.name in seen_oneofs:
                continue
            seen_oneofs.add(f.containing_oneof.name)
            setattr(m, f.name, f.default_value)
    return m


def hb(b64text):
    """short stable name of a payload: the model only compares payloads for equality"""
    return env.canon_hash(b64text) if b64text else ""


# ---------------------------------------------------------------------------------------------- one API
def scrub(msg):
    """drop google.protobuf.Value & co. (their dict spelling means something else to proto-plus) — recursively"""
    for f, v in list(msg.ListFields()):
        if f.type != FD.TYPE_MESSAGE:
            continue
        mt = f.message_type
        if mt.GetOptions().map_entry:
            vf = mt.fields_by_name["value"]
            if vf.type == FD.TYPE_MESSAGE:
                if vf.message_type.full_name in WKT_SKIP:
                    msg.ClearField(f.name)
                else:
                    for x in v.values():
                        scrub(x)
        elif mt.full_name in WKT_SKIP:
            msg.ClearField(f.name)
        elif f.label == FD.LABEL_REPEATED:
            for x in v:
                scrub(x)
        else:
            scrub(v)
    return msg


def outcome_detail(o):
    """what came back for a call, for the report of an outcome the model has no term for"""
    return json.dumps({"ok": o.get("ok"), "stage": o.get("stage"), "error": o.get("error"),
                       "server_calls": [(c["path"], len(c["requests"])) for c in o.get("calls") or []],
                       "result": (o.get("result") or {}).get("kind") if isinstance(o.get("result"), dict) else o.get("result")})[:400]


class ApiRun:
    def __init__(self, ctx, tag, req, rindex, yaml, facts, gen_result):
        self.ctx, self.tag, self.req, self.rindex, self.yaml = ctx, tag, req, rindex, yaml
        self.idx = U.Index(req)
        self.dyn = dyn.Dyn(req)
        self.case = {"request_b64": apigen.req_b64(req), "rindex": rindex, "tag": tag, "service_yaml": yaml}
        self.h = env.canon_hash([self.case["request_b64"], yaml])
        self.facts, self.gen_result = facts, gen_result
        self.stag = re.sub(r"\W", "_", tag)
        self.defs, self.checks = [], []
        self.add_iam = "add-iam-methods" in req.parameter.split(",")
        self.mixins = mixin_names(yaml, self.idx)
        self.svcs = list(self.idx.services())

    def sname(self, i):
        return f"svc_{self.stag}_{i}"

    def model_defs(self):
        for i, (fp, s) in enumerate(self.svcs):
            self.defs.append(f"Definition {self.sname(i)} : svc := {svc_term(self.idx, fp, s, self.mixins, self.add_iam)}.")

    def meth(self, i, j):
        return f"(nth_m {self.sname(i)} {j})"

    def live(self, i, j):
        """the method whose body runs when the client method named like method j is called (last definition wins)"""
        return f"(live_meth {self.sname(i)} {coq.s(self.client_method_name(i, j))})"

    # -- schema-level T2 against gapic's wrappers
    def check_facts(self):
        f = self.facts
        if not f.get("ok"):
            self.ctx.oblige(f"T2 {self.tag}: API.build succeeds", False, f.get("message", ""), "T2")
            return
        self.checks.append((f"{self.tag}: mixin_api_methods keys {f['mixin_api_methods']}",
                            f"list_eqb String.eqb (s_mixins {self.sname(0)}) {coq.slist(f['mixin_api_methods'])}"))
        self.checks.append((f"{self.tag}: add-iam-methods", coq.b(bool(f["add_iam_methods"]) == self.add_iam)))
        for i, (fp, s) in enumerate(self.svcs):
            fs = f["services"][s.name]
            for j, m in enumerate(s.method):
                mf = fs["methods"][j]
                me = self.meth(i, j)
                lab = f"{self.tag}.{m.name}"
                self.checks.append((f"{lab}: transport_safe_name|snake_case = {mf['safe_snake']}",
                                    f"match {me} with Some m => String.eqb (key_of m) {coq.s(mf['safe_snake'])} | None => false end"))
                self.checks.append((f"{lab}: client_method_name|snake_case = {mf['client_snake']}",
                                    f"match {me} with Some m => String.eqb (client_name m) {coq.s(mf['client_snake'])} | None => false end"))
                self.checks.append((f"{lab}: grpc_stub_type = {mf['grpc_stub_type']}",
                                    f"match {me} with Some m => String.eqb (kind_attr (kind_of_flags (me_cs m) (me_ss m))) {coq.s(mf['grpc_stub_type'])} | None => false end"))
                ok = "ONone" if mf["void"] else "OOperation" if mf["lro"] else "OPager" if mf["paged"] else "OPlain"
                shape_ok = (mf["client_output"] == "None") == mf["void"] and (mf["client_output"].endswith("Pager") == (mf["paged"] and not mf["void"] and not mf["lro"]))
                self.checks.append((f"{lab}: _client_output kind = {ok} ({mf['client_output']})",
                                    f"{coq.b(shape_ok)} && match {me} with Some m => out_kind_eqb (client_output m) {ok} | None => false end"))
                self.checks.append((f"{lab}: serializer choice (input _pb2 = {mf['input_pb2']}, output _pb2 = {mf['output_pb2']})",
                                    f"match {me} with Some m => Bool.eqb (me_in_pp m) {coq.b(not mf['input_pb2'])} && Bool.eqb (me_out_pp m) {coq.b(not mf['output_pb2'])} | None => false end"))
                self.checks.append((f"{lab}: stub path package {mf['method_package']}",
                                    f"String.eqb (s_package {self.sname(i)}) {coq.s(mf['method_package'])}"))

    # -- emitted library: T1 + calls
    def run_emitted(self):
        ctx = self.ctx
        res, err = self.gen_result
        if res is None:
            ctx.violation(f"generation failed: {gen.error_kind(err)}", dict(self.case, stderr=err[-800:]))
            return
        files = gen.files_of(res)
        root = U.materialise(self.req, res, "c03_" + self.tag)
        vm = None
        for n in files:
            mm = re.match(r"(.*)/services/(\w+)/client\.py$", n)
            if mm:
                vm = mm.group(1).replace("/", ".")
        clients = {}
        for i, (fp, s) in enumerate(self.svcs):
            mod = U.snake(s.name)
            sv = self.sname(i)
            base = f"/services/{mod}/"
            # ---- transports
            for fname, own_table in (("transports/grpc.py", False), ("transports/grpc_asyncio.py", True), ("transports/base.py", True)):
                path = next((n for n in files if n.endswith(base + fname)), None)
                if path is None:
                    ctx.oblige(f"T1 {self.tag}: {fname} of {s.name} is emitted", False, "", "T1")
                    continue
                try:
                    props, wrapped = read_transport(files[path], path)
                except (U.Shape, SyntaxError, StopIteration) as e:
                    ctx.oblige(f"T1 {self.tag}: {fname} of {s.name} read with ast", False, repr(e)[:400], "T1")
                    continue
                if fname != "transports/base.py":
                    terms = [stub_term(p) for p in props]
                    if any(t is None for t in terms):
                        ctx.oblige(f"T1 {self.tag}: {fname}: property name = stub key, known factory", False, json.dumps(props)[:400], "T1")
                    else:
                        self.checks.append((f"T1 {self.tag}: {fname} of {s.name}: stub-creation properties = model ({len(props)} stubs)",
                                            f"list_eqb stub_eqb (transport_props {sv}) {coq.lst(terms)}"))
                    clients.setdefault(i, {})[fname] = props
                if own_table:
                    if wrapped is None:
                        ctx.oblige(f"T1 {self.tag}: {fname} defines _prep_wrapped_messages", False, "", "T1")
                    else:
                        self.checks.append((f"T1 {self.tag}: {fname} of {s.name}: _wrapped_methods keys = model ({len(wrapped)})",
                                            f"list_eqb String.eqb (wrapped_keys {sv}) {coq.slist(wrapped)}"))
            # ---- clients
            for variant, fname in (("Sync", "client.py"), ("Async", "async_client.py")):
                path = next((n for n in files if n.endswith(base + fname)), None)
                try:
                    ex = U.extract_client(files[path], path)
                except SyntaxError as e:
                    ctx.violation(f"emitted {fname} of {s.name} does not compile: {e.msg} (line {e.lineno})", dict(self.case, file=path), None)
                    continue
                cname = next((c for c in ex if c.endswith("AsyncClient") == (variant == "Async")), None)
                ms = ex.get(cname) or {}
                bad = {k: v["shape_error"] for k, v in ms.items() if "shape_error" in v}
                if bad or cname is None:
                    ctx.oblige(f"T1 {self.tag}: {fname} of {s.name}: every rpc-calling method has the known shape", False, json.dumps(bad)[:600], "T1")
                    continue
                cms = coq.lst(f"(mkCM {coq.s(n)} {'Table' if ir['lookup']['form'] == 'table' else 'Direct'} {coq.s(ir['lookup']['key'])})"
                              for n, ir in ms.items())
                redefs = [n for n, ir in ms.items() if ir.get("redefinition")]
                self.checks.append((f"T1 {self.tag}: {fname} of {s.name}: rpc-calling methods and the table entries they use = model ({len(ms)})",
                                    f"list_eqb cm_eqb (dedup_cms (client_methods {variant} {sv})) {cms}"))
                want_holder = {"Sync": ("self._transport._wrapped_methods", "self._transport"),
                               "Async": ("self._client._transport._wrapped_methods", "self._client._transport")}[variant]
                for j, m in enumerate(s.method):
                    ir = ms.get(self.client_method_name(i, j))
                    if ir is None:
                        continue
                    lk = ir["lookup"]
                    c = ir["call"]
                    ok_syntax = (lk["table"], lk["holder"]) == want_holder and c["kwargs"] == [["retry", "retry"], ["timeout", "timeout"], ["metadata", "metadata"]] \
                        and len(c["args"]) == 1
                    wr = ir["wrappers"]
                    okind = "OOperation" if any("from_gapic" in w for w in wr) else "OPager" if any("Pager" in w for w in wr) else \
                        ("OPlain" if c["assigned"] else "ONone")
                    self.checks.append((f"T1 {self.tag}.{m.name} {variant}: rpc call (argument, await, assignment, return) and wrapper = model",
                                        f"{coq.b(ok_syntax)} && match {self.live(i, j)} with Some m => call_eqb (call_of {variant} m) "
                                        f"(mkCall {coq.s(c['args'][0] if c['args'] else '')} {coq.b(c['awaited'])} {coq.b(c['assigned'])} {coq.b(ir['returns_stmt'] == 'response')}) "
                                        f"&& out_kind_eqb (client_output m) {okind} | None => false end"))
                    # the class the client coerces to is the class whose serializer the stub uses
                    gp = next((p for p in reversed(clients.get(i, {}).get("transports/grpc.py", [])) if p["key"] == lk["key"]), None)
                    if gp and ir.get("request_class"):
                        self.checks.append((f"T1 {self.tag}.{m.name} {variant}: coerced class = class of the stub's request serializer",
                                            coq.b(gp["ser_cls"] == ir["request_class"])))
        if vm is None:
            return
        self.drive(root, vm)

    def client_method_name(self, i, j):
        fs = self.facts["services"][self.svcs[i][1].name]["methods"][j]
        return fs["client_snake"]

    # -- calls
    def cls_path(self, vm, fqn):
        fp = self.idx.msgs[fqn][1]
        rel = fqn[len(fp.package) + 2:]
        if self.idx.proto_plus_pkg(fp.package):
            sub = fp.package[len(self.idx.api_package):].strip(".")
            return vm + (("." + sub) if sub else "") + ".types:" + rel
        return U.module_of(fp.name) + ":" + rel

    def drive(self, root, vm):
        ctx = self.ctx
        r = env.rng("C03-vals", self.rindex)
        calls, meta = [], {}
        for i, (fp, s) in enumerate(self.svcs):
            for j, m in enumerate(s.method):
                if m.output_type == OPERATION or is_paged(self.idx, m) or sum(1 for x in s.method if U.snake(x.name) == U.snake(m.name)) > 1:
                    consume_ok = False      # operations / pagers wrap the reply; a shadowed method's reply type is another RPC's
                else:
                    consume_ok = True
                rq, rs = m.input_type[1:], m.output_type[1:]
                cname = self.client_method_name(i, j)
                rest = self.rest_rule(m)
                if rest is not None:
                    var, pattern, uri = rest
                    rm = scrub(self.dyn.random(r, rq, fill=0.6))
                    setattr(rm, var, pattern.replace("*", "v1"))
                    cid = f"{i}/{j}/Rest/message"
                    calls.append({"id": cid, "service_module": U.snake(s.name), "client": s.name + "Client", "transport": "rest", "method": cname,
                                  "request": {"mode": "message", "cls": self.cls_path(vm, "." + rq), "b64": U.b64(rm)}})
                    meta[cid] = (i, j, "Rest", "rest", rm, uri.replace("{" + var + "=" + pattern + "}", pattern.replace("*", "v1")), var)
                for variant, client, tr in (("Sync", s.name + "Client", "grpc"), ("Async", s.name + "AsyncClient", "grpc_asyncio")):
                    base = {"service_module": U.snake(s.name), "client": client, "transport": tr, "method": cname,
                            "consume": "ignore" if not consume_ok else "stream" if m.server_streaming else "value"}
                    nrep = r.randint(0, 3) if m.server_streaming else 1
                    replies = [scrub(self.dyn.random(r, rs, fill=0.6)) for _ in range(nrep)]
                    if m.client_streaming:
                        spellings = ["stream"]
                    else:
                        spellings = ["message", "dict", "none", "empty_dict"]
                    reqmsg = scrub(self.dyn.random(r, rq, fill=0.6))
                    stream = [scrub(self.dyn.random(r, rq, fill=0.5)) for _ in range(r.randint(0, 3))]
                    for sp in spellings:
                        cid = f"{i}/{j}/{variant}/{sp}"
                        c = dict(base, id=cid, replies=[U.b64(x) for x in replies])
                        cls = self.cls_path(vm, "." + rq)
                        if sp in ("message", "dict"):
                            c["request"] = {"mode": sp, "cls": cls, "b64": U.b64(reqmsg)}
                            sent = [reqmsg]
                        elif sp == "empty_dict":
                            c["request"] = {"mode": "empty_dict"}
                            sent = [self.dyn.new(rq)]
                        elif sp == "none":
                            sent = [self.dyn.new(rq)]
                        else:
                            c["request"] = {"mode": "stream", "cls": cls, "stream": [U.b64(x) for x in stream]}
                            sent = stream
                        calls.append(c)
                        meta[cid] = (i, j, variant, sp, sent, replies, consume_ok)
                    fz = falsy_present(self.dyn, rq) if not m.client_streaming else None
                    if fz is not None and fz.ByteSize():
                        for sp in ("message", "dict"):
                            cid = f"{i}/{j}/{variant}/{sp}+falsy"
                            calls.append(dict(base, id=cid, replies=[U.b64(x) for x in replies],
                                              request={"mode": sp, "cls": self.cls_path(vm, "." + rq), "b64": U.b64(fz)}))
                            meta[cid] = (i, j, variant, sp, [fz], replies, consume_ok, "request with only falsy-but-present fields")
                    # a request together with ONE flattened keyword that is not None but the zero value of its type ('', 0, False,
                    # [], {}, enum 0, an empty message): ValueError, nothing on the wire (C05 judges the equivalence; here: dispatch)
                    flat = self.facts["services"][s.name]["methods"][j].get("flattened") or []
                    if flat and not m.client_streaming:
                        zero = {"cls": self.cls_path(vm, "." + rq), "b64": ""}
                        for fl in flat[:6]:
                            for sp in ("message", "dict"):
                                cid = f"{i}/{j}/{variant}/{sp}+zero:{fl['name']}"
                                calls.append(dict(base, id=cid, replies=[U.b64(x) for x in replies],
                                                  request={"mode": sp, "cls": zero["cls"], "b64": U.b64(reqmsg)},
                                                  kwargs=[{"param": fl["name"], "path": fl["key"]}], source=zero))
                                meta[cid] = (i, j, variant, "mixed_zero", sp, fl["name"], reqmsg)
                    auto = self.auto_fields(fp, s, m)
                    for state in (("unset", "value", "empty") if auto and not m.client_streaming else ()):
                        rm2 = type(reqmsg)()
                        rm2.CopyFrom(reqmsg)
                        for fn, _ in auto:
                            rm2.ClearField(fn)
                            if state == "value":
                                setattr(rm2, fn, "caller-chosen-" + fn)
                            elif state == "empty":
                                setattr(rm2, fn, "")          # explicit presence: set, and empty
                        for sp in ("message", "dict"):
                            cid = f"{i}/{j}/{variant}/{sp}+{state}"
                            calls.append(dict(base, id=cid, replies=[U.b64(x) for x in replies],
                                              request={"mode": sp, "cls": self.cls_path(vm, "." + rq), "b64": U.b64(rm2)}))
                            meta[cid] = (i, j, variant, sp, [rm2], replies, consume_ok, "auto-populated field " + state)
            # replies beyond gRPC's 4 MiB default, through a transport that builds its channel with a caller-supplied channel
            # FACTORY (channel=<callable>): the factory must be handed the unlimited message-size options
            BIG = 6 * 1024 * 1024
            for want_ss in (False, True):
                pick = next((jj for jj, mm in enumerate(s.method) if not mm.client_streaming and mm.server_streaming == want_ss
                             and mm.output_type not in (U.EMPTY, OPERATION) and not is_paged(self.idx, mm)
                             and sum(1 for x in s.method if U.snake(x.name) == U.snake(mm.name)) == 1
                             and any(f.name == "name" and f.type == F.TYPE_STRING and f.label != F.LABEL_REPEATED
                                     for f in self.idx.msgs[mm.output_type][0].field)), None)
                if pick is None:
                    continue
                mm = s.method[pick]
                for variant, client, tr in (("Sync", s.name + "Client", "grpc"), ("Async", s.name + "AsyncClient", "grpc_asyncio")):
                    cid = f"{i}/big/{variant}/{pick}"
                    calls.append({"id": cid, "service_module": U.snake(s.name), "client": client, "transport": tr,
                                  "method": self.client_method_name(i, pick), "channel": "factory", "deadline": 30.0, "timeout": 40,
                                  "consume": "stream" if want_ss else "value", "big_count": 2 if want_ss else 1,
                                  "big_reply": {"cls": self.cls_path(vm, mm.output_type), "field": "name", "size": BIG}})
                    meta[cid] = (i, pick, variant, "big_reply", BIG, 2 if want_ss else 1)
            # legacy IAM / mixin methods: which entry they reach
            extra = []
            if self.add_iam:
                extra += [("set_iam_policy", "/google.iam.v1.IAMPolicy/SetIamPolicy", "google.iam.v1.iam_policy_pb2:SetIamPolicyRequest", "google.iam.v1.SetIamPolicyRequest"),
                          ("get_iam_policy", "/google.iam.v1.IAMPolicy/GetIamPolicy", "google.iam.v1.iam_policy_pb2:GetIamPolicyRequest", "google.iam.v1.GetIamPolicyRequest"),
                          ("test_iam_permissions", "/google.iam.v1.IAMPolicy/TestIamPermissions", "google.iam.v1.iam_policy_pb2:TestIamPermissionsRequest", "google.iam.v1.TestIamPermissionsRequest")]
            for n in self.mixins:
                extra.append((U.snake(n), None, None, None))
            for (mname, path, cls, fq) in extra:
                if cls is None:
                    continue
                for variant, client, tr in (("Sync", s.name + "Client", "grpc"), ("Async", s.name + "AsyncClient", "grpc_asyncio")):
                    cid = f"{i}/x/{variant}/{mname}"
                    from google.iam.v1 import iam_policy_pb2
                    rm = getattr(iam_policy_pb2, fq.rsplit(".", 1)[1])(resource="projects/p/things/t")
                    calls.append({"id": cid, "service_module": U.snake(s.name), "client": client, "transport": tr, "method": mname,
                                  "request": {"mode": "message", "cls": cls, "b64": U.b64(rm)}, "replies": [""]})
                    meta[cid] = (i, mname, variant, "legacy_iam", [rm], None, False, path, fq)
        try:
            out = U.drive(root, vm, calls)
        except Exception as e:  # noqa
            ctx.oblige(f"HARNESS ERROR (driver of {self.tag}, retried once; says nothing about /repo)", False, repr(e)[-800:], "build")
            return
        finally:
            gen.rm(root)
        self.judge(out, meta)

    def judge(self, out, meta):
        ctx = self.ctx
        by = {o["id"]: o for o in out}
        for cid, mt in meta.items():
            o = by.get(cid)
            if o is None:
                ctx.oblige(f"T2 {self.tag}: result for {cid}", False, "missing", "T2")
                continue
            if mt[3] == "legacy_iam":
                self.judge_iam(cid, o, mt)
                continue
            if mt[3] == "big_reply":
                self.judge_big(cid, o, mt)
                continue
            if mt[3] == "rest":
                self.judge_rest(cid, o, mt)
                continue
            if mt[3] == "mixed_zero":
                self.judge_mixed_zero(cid, o, mt)
                continue
            i, j, variant, sp, sent, replies, consume_ok = mt[:7]
            state = mt[7] if len(mt) > 7 else None
            fp, s = self.svcs[i]
            m = s.method[j]
            auto = self.auto_fields(fp, s, m) if not m.client_streaming else []
            sv, me = self.sname(i), self.live(i, j)
            want_path = f"/{fp.package}.{s.name}/{m.name}"
            case = dict(self.case, service=s.name, method=m.name, variant=variant, spelling=sp,
                        requests_b64=[U.b64(x) for x in sent], replies_b64=[U.b64(x) for x in replies])
            kind = ("client" if m.client_streaming else "") + ("server" if m.server_streaming else "")
            ctx.case({"api": self.h, "method": m.name, "variant": variant, "spelling": sp, "req": case["requests_b64"], "rep": case["replies_b64"]},
                     nontrivial=True,
                     feature=[variant, "spelling=" + sp, "arity=" + ({"": "unary", "client": "client-streaming", "server": "server-streaming",
                                                                       "clientserver": "bidi"}[kind]),
                              "void" if m.output_type == U.EMPTY else "non-void",
                              *([state] if state else []), *(["rpc-with-auto-populated-fields"] if auto else []),
                              "request-" + ("own-package" if self.idx.package_of(m.input_type) == fp.package else
                                            "proto-plus-subpackage" if self.idx.proto_plus_pkg(self.idx.package_of(m.input_type)) else "pb2-dependency"),
                              "response-" + ("pb2" if not self.idx.proto_plus_pkg(self.idx.package_of(m.output_type)) else "proto-plus")]
                     + (["dependency-request+api-response"] if (not self.idx.proto_plus_pkg(self.idx.package_of(m.input_type))
                                                                   and self.idx.package_of(m.output_type) == fp.package) else [])
                     + (["response-named-Empty-but-not-google.protobuf.Empty"] if (m.output_type.endswith(".Empty") and m.output_type != U.EMPTY) else [])
                     + (["http-path-variable+" + ("client-streaming" if m.client_streaming and not m.server_streaming else "bidi" if m.client_streaming
                                                   else "server-streaming" if m.server_streaming else "unary")] if self.has_path_var(m) else [])
                     + (["rpc-named-like-iam-mixin-method"] if m.name in IAM_NAMES else [])
                     + (["keyword-or-unsafe-rpc-name"] if self.facts["services"][s.name]["methods"][j]["safe_snake"].endswith("_") else [])
                     + (["safe-name-suffix"] if self.facts["services"][s.name]["methods"][j]["safe_snake"].endswith("_") else []))
            if not o["ok"] and o.get("stage") == "import":
                ctx.violation(f"emitted package does not import: {o['error']['exception']}: {o['error']['message'][:200]}", case, None)
                return
            known = None
            if m.server_streaming and m.output_type == U.EMPTY:
                known = VOID_STREAM          # the stream is not handed to the caller (and the asyncio call is never issued)
            fire_and_forget = variant == "Async" and m.client_streaming and not m.server_streaming and m.output_type == U.EMPTY
            if fire_and_forget:
                # known finding stubs.async_stream_unary_returns_call, void flavour: the call object that would have to be awaited
                # a second time is dropped, the caller cannot wait for the requests to be delivered
                known = "stubs.async_stream_unary_returns_call"
            if sum(1 for x in s.method if U.snake(x.name) == U.snake(m.name)) > 1:
                known = "stubs.rpc_names_equal_after_snake_case"      # DESIGN section 9 no. 11
            # ---- observed, in model terms
            npath = o["calls"][0]["path"] if len(o["calls"]) == 1 else None
            nreq = len(o["calls"][0]["requests"]) if len(o["calls"]) == 1 else -1
            res_term = self.result_term(o, m.output_type)
            cm = f"(mkCM {coq.s(self.client_method_name(i, j))} Table {coq.s(self.facts['services'][s.name]['methods'][j]['safe_snake'])})"
            reps = coq.slist([hb(U.b64(x)) for x in replies])
            n_given = len(sent) if m.client_streaming else 1
            if fire_and_forget:
                ctx.features["async void client-streaming: delivery cannot be awaited (oracle only)"] += 1
            elif o["ok"] and npath is not None and res_term is not None:
                expr = (f"match dispatch {variant} {sv} {cm}, {me} with Some st, Some m => String.eqb (st_path st) {coq.s(npath)} && "
                        f"Nat.eqb (requests_on_wire m {n_given}) {nreq} && result_eqb (client_result m {reps}) {res_term} | _, _ => false end")
                if not consume_ok:
                    expr = (f"match dispatch {variant} {sv} {cm}, {me} with Some st, Some m => String.eqb (st_path st) {coq.s(npath)} && "
                            f"Nat.eqb (requests_on_wire m {n_given}) {nreq} | _, _ => false end")
                if known == "stubs.rpc_names_equal_after_snake_case":
                    # another RPC's body runs: only where the call goes is compared
                    expr = f"match dispatch {variant} {sv} {cm} with Some st => String.eqb (st_path st) {coq.s(npath)} | None => false end"
                self.checks.append((f"T2 {self.tag}.{m.name} {variant} {sp}: path, request count and result = model", expr))
            elif known is None:
                ctx.oblige(f"T2 {self.tag}.{m.name} {variant} {sp}: outcome is one the model knows", False, outcome_detail(o), "T2")
            # coercion: model's exec on the opaque request
            if not m.client_streaming and o["ok"] and npath is not None:
                got = self.dyn.parse("." + m.input_type[1:], o["calls"][0]["requests"][0]) if nreq == 1 else None
                if got is not None and auto:
                    got, _ = self.strip_auto(got, sent[0], auto)      # the population itself is C18's; the model here has none
                if got is not None:
                    in_pp = self.idx.proto_plus_pkg(self.idx.package_of(m.input_type))

                    def opaque(x):
                        # the whole request as one opaque value; a proto-plus request whose set fields all hold false values is
                        # marked as such (Model/Flatten.v: leaf_falsy), since bool(request) decides a branch of the cross-package block
                        b = hb(U.b64(x))
                        if b and in_pp and pp_falsy(self.idx, x):
                            return f"(mkReq [({coq.s(chr(42))}, LS {coq.s('')})] [])"
                        return f"(mkReq {coq.lst([f'({coq.s(chr(42))}, LM {coq.s(b)})'] if b else [])} [])"
                    ra = {"message": f"(RMsg {opaque(sent[0])})", "dict": f"(RDict {opaque(sent[0])})", "none": "RNone",
                          "empty_dict": f"(RDict {opaque(sent[0])})"}[sp]
                    blk = self.block_term(i, j, variant)
                    if blk:
                        self.checks.append((f"T2 {self.tag}.{m.name} {variant} {sp}: coercion block sends the caller's request (model = observed)",
                                            f"match {blk} with Some b => outcome_eqb_on [{coq.s(chr(42))}] [] (exec b {ra} []) (OSend {opaque(got)}) | None => false end"))
            # ---- the property's own sentences
            if not o["ok"]:
                ctx.violation(f"{s.name}.{m.name} ({variant}, request as {sp}) raised {o['error']['exception']}: {clean(o['error']['message'])[:200]}", case, known)
                continue
            if len(o["calls"]) != 1:
                ctx.violation(f"{s.name}.{m.name} ({variant}, {sp}): {len(o['calls'])} calls on the channel instead of exactly one", case, known)
                continue
            if npath != want_path:
                ctx.violation(f"{s.name}.{m.name} ({variant}, {sp}): call went to {npath}, expected {want_path}", case, known)
                continue
            # arity, observed behaviourally: how many request messages arrived, how many replies were delivered
            if nreq != len(sent):
                ctx.violation(f"{s.name}.{m.name} ({variant}, {sp}): the server received {nreq} request messages, the caller gave {len(sent)}", case, known)
                continue
            got = [self.dyn.parse(m.input_type, b) for b in o["calls"][0]["requests"]]
            if auto and len(got) == 1:
                g1, problem = self.strip_auto(got[0], sent[0], auto)
                if problem:
                    ctx.violation(f"{s.name}.{m.name} ({variant}, {sp}{', ' + state if state else ''}): {problem}", case, known)
                    continue
                got = [g1]
            if got != sent and sp == "message" and self.idx.package_of(m.input_type) != fp.package \
                    and self.idx.proto_plus_pkg(self.idx.package_of(m.input_type)) and pp_falsy(self.idx, sent[0]) and got == [self.dyn.new(m.input_type[1:])]:
                known = known or "stubs.cross_pkg_proto_plus_falsy_request"
            if got != sent:
                ctx.violation(f"{s.name}.{m.name} ({variant}, {sp}{', ' + state if state else ''}): payload does not decode to the caller's request",
                              dict(case, got_b64=[U.b64(x) for x in got]), known)
                continue
            # the call must not mutate its argument (auto-populated UUID4 fields are filled in on the caller's message: C18's business)
            if sp in ("message", "dict") and o.get("arg_before") is not None and o.get("arg_before") != o.get("arg_after"):
                same = False
                if auto and o["arg_before"].startswith("m:") and (o.get("arg_after") or "").startswith("m:"):
                    b4, af = self.dyn.parse(m.input_type, o["arg_before"][2:]), self.dyn.parse(m.input_type, o["arg_after"][2:])
                    af, problem = self.strip_auto(af, b4, auto)
                    same = problem is None and af == b4
                if not same:
                    ctx.violation(f"{s.name}.{m.name} ({variant}, {sp}): the call changed the caller's request object (it must not mutate its argument)",
                                  dict(case, before=o["arg_before"], after=o.get("arg_after")), known)
            if not consume_ok:
                continue
            if o.get("extra_await"):
                ctx.violation(f"{s.name}.{m.name} ({variant}): the awaited client method returned a {o['extra_await']} that has to be awaited "
                              f"again, not the reply", case, "stubs.async_stream_unary_returns_call")
            resv = o["result"]
            if m.output_type == U.EMPTY and not m.server_streaming:
                if resv.get("kind") != "none":
                    ctx.violation(f"{s.name}.{m.name} ({variant}): Empty response but the client returned {resv.get('kind')}", case, known)
                continue
            items = resv["items"] if m.server_streaming else [resv]
            if not m.server_streaming and resv.get("kind") == "none":
                ctx.violation(f"{s.name}.{m.name} ({variant}): the client returned None although the response type is {m.output_type[1:]} "
                              f"(not google.protobuf.Empty) and the server sent a reply", case, known)
                continue
            if any(it.get("kind") != "msg" for it in items):
                ctx.violation(f"{s.name}.{m.name} ({variant}): returned value is not a message: {[it.get('kind') for it in items]}", case, known)
                continue
            back = [self.dyn.parse(m.output_type, it["b64"]) for it in items]
            if back != replies:
                ctx.violation(f"{s.name}.{m.name} ({variant}, {sp}): returned/streamed value differs from what the server sent "
                              f"({len(back)} vs {len(replies)} messages)", dict(case, returned_b64=[U.b64(x) for x in back]), known)

    def auto_fields(self, fp, s, m):
        """[(field name, has explicit presence)] the service config asks to auto-populate for this RPC"""
        out = []
        for ms in ((self.yaml or {}).get("publishing") or {}).get("method_settings", []):
            if ms.get("selector") == f"{fp.package}.{s.name}.{m.name}":
                for fn in ms.get("auto_populated_fields", []):
                    f = next(x for x in self.idx.msgs[m.input_type][0].field if x.name == fn)
                    out.append((fn, bool(f.proto3_optional)))
        return out

    @staticmethod
    def strip_auto(got, sent, auto):
        """AIP-4235: a field the caller left unset (explicit presence) / empty (no presence) may arrive holding any UUID4.
        -> (the request with such legitimately filled-in fields put back to the caller's state, problem text or None)"""
        g = type(got)()
        g.CopyFrom(got)
        for fn, presence in auto:
            caller_left_it = (not sent.HasField(fn)) if presence else (getattr(sent, fn) == "")
            if caller_left_it and getattr(g, fn) != "":
                if not UUID4_RE.fullmatch(getattr(g, fn)):
                    return g, f"auto-populated field {fn} arrived as {getattr(g, fn)!r}, not a UUID4"
                g.ClearField(fn)
        return g, None

    def rest_rule(self, m):
        """(path variable, its pattern, uri) of a POST rule with the whole request as body and one top-level string path variable,
        when the library was generated with a REST transport; None otherwise"""
        from google.api import annotations_pb2
        rule = m.options.Extensions[annotations_pb2.http]
        if "rest" not in self.req.parameter or not rule.post or rule.body != "*" or m.client_streaming or m.server_streaming:
            return None
        mm = re.fullmatch(r"[^{}]*\{(\w+)=([^{}]+)\}[^{}]*", rule.post)
        return (mm.group(1), mm.group(2), rule.post) if mm else None

    def judge_rest(self, cid, o, mt):
        from google.protobuf import json_format
        ctx = self.ctx
        i, j, _, _, sent, want_path, var = mt
        fp, s = self.svcs[i]
        m = s.method[j]
        case = dict(self.case, service=s.name, method=m.name, variant="Rest", spelling="message", requests_b64=[U.b64(sent)])
        ctx.case({"api": self.h, "method": m.name, "variant": "Rest", "req": case["requests_b64"]}, nontrivial=True,
                 feature=["Rest", "rpc-named-like-iam-mixin-method"] if m.name in IAM_NAMES else ["Rest"])
        hc = o.get("http_calls") or []
        if not o["ok"]:
            ctx.violation(f"{s.name}.{m.name} (REST) raised {o['error']['exception']}: {clean(o['error']['message'])[:200]}", case)
            return
        if len(hc) != 1 or hc[0]["verb"] != "POST" or hc[0]["path"] != want_path:
            ctx.violation(f"{s.name}.{m.name} (REST): requests {[(h['verb'], h['path']) for h in hc]} instead of one POST {want_path}", case)
            return
        got = self.dyn.new(m.input_type[1:])
        try:
            json_format.Parse(hc[0]["body"] or "{}", got)
            setattr(got, var, getattr(sent, var))          # the path variable travels in the URI
        except Exception as e:  # noqa
            ctx.violation(f"{s.name}.{m.name} (REST): body does not decode under the input descriptor: {e!r}"[:300], case)
            return
        if got != sent:
            ctx.violation(f"{s.name}.{m.name} (REST): URI + body do not carry the caller's request", dict(case, got_b64=U.b64(got)))

    @staticmethod
    def has_path_var(m):
        from google.api import annotations_pb2
        rule = m.options.Extensions[annotations_pb2.http]
        return any("{" in getattr(rule, v) for v in ("get", "put", "post", "delete", "patch"))

    def judge_mixed_zero(self, cid, o, mt):
        ctx = self.ctx
        i, j, variant, _, sp, param, reqmsg = mt
        fp, s = self.svcs[i]
        m = s.method[j]
        case = dict(self.case, service=s.name, method=m.name, variant=variant, spelling=f"{sp} + {param}=<zero value>",
                    requests_b64=[U.b64(reqmsg)])
        ctx.case({"api": self.h, "method": m.name, "variant": variant, "mixed_zero": param, "sp": sp, "req": case["requests_b64"]},
                 nontrivial=True, feature=[variant, "request + falsy-but-set flattened keyword", "spelling=" + sp])
        known = None
        if sum(1 for x in s.method if U.snake(x.name) == U.snake(m.name)) > 1:
            known = "stubs.rpc_names_equal_after_snake_case"
        e = o.get("error") or {}
        if param in (o.get("none_kwargs") or []):
            # the zero value of this field reads as None (google.protobuf.Value and the like): no flattened argument was given,
            # so this is not a mixed call; nothing to judge
            ctx.features["zero value is None: not a mixed call (skipped)"] += 1
            return
        if o["ok"] or e.get("exception") != "ValueError" or "individual field arguments" not in e.get("message", "") or o["calls"]:
            ctx.violation(f"{s.name}.{m.name} ({variant}): a request ({sp}) together with {param}=<the zero value of its type> was not refused "
                          f"with ValueError before sending (ok={o['ok']}, error={e.get('exception')}, calls={len(o['calls'])})", case, known)
        if o.get("arg_before") is not None and o.get("arg_before") != o.get("arg_after"):
            ctx.violation(f"{s.name}.{m.name} ({variant}): the refused call changed the caller's request object", case, known)

    def judge_big(self, cid, o, mt):
        ctx = self.ctx
        i, j, variant, _, size, count = mt
        fp, s = self.svcs[i]
        m = s.method[j]
        case = dict(self.case, service=s.name, method=m.name, variant=variant, spelling="channel-factory, %d replies of %d bytes" % (count, size))
        ctx.case({"api": self.h, "method": m.name, "variant": variant, "big_reply": size, "count": count}, nontrivial=True,
                 feature=[variant, "channel-factory", "reply>4MiB", "arity=" + ("server-streaming" if m.server_streaming else "unary")])
        want_path = f"/{fp.package}.{s.name}/{m.name}"
        if not o["ok"]:
            e = o["error"]
            ctx.violation(f"{s.name}.{m.name} ({variant}, transport given a channel factory): a reply of {size} bytes was not delivered: "
                          f"{e['exception']}: {clean(e['message'])[:200]}", case)
            return
        r = o["result"]
        if len(o["calls"]) != 1 or o["calls"][0]["path"] != want_path:
            ctx.violation(f"{s.name}.{m.name} ({variant}, channel factory): calls {[c['path'] for c in o['calls']]} instead of one to {want_path}", case)
        elif r.get("kind") != "big" or r["n"] != count or any(l != size for l in r["lengths"]) or not r["all_x"]:
            ctx.violation(f"{s.name}.{m.name} ({variant}, channel factory): returned {r.get('n')} values with lengths {r.get('lengths')} "
                          f"instead of {count} replies of {size} bytes", case)
        opts = (o.get("factory") or {}).get("options")
        self.checks.append((f"T2 {self.tag}.{m.name} {variant}: the channel factory is called once with the transport's host and options",
                            coq.b(opts is not None)))

    def judge_iam(self, cid, o, mt):
        ctx = self.ctx
        i, mname, variant, _, sent, _, _, path, fq = mt
        fp, s = self.svcs[i]
        sv = self.sname(i)
        case = dict(self.case, service=s.name, method=mname, variant=variant, spelling="legacy_iam", requests_b64=[U.b64(sent[0])])
        ctx.case({"api": self.h, "method": mname, "variant": variant, "legacy_iam": True}, nontrivial=True, feature=[variant, "legacy-iam-method"])
        cm = f"(mkCM {coq.s(mname)} Direct {coq.s(mname)})"
        if o["ok"] and len(o["calls"]) == 1:
            self.checks.append((f"T2 {self.tag}.{mname} {variant}: legacy IAM method reaches {o['calls'][0]['path']}",
                                f"match dispatch {variant} {sv} {cm} with Some st => String.eqb (st_path st) {coq.s(o['calls'][0]['path'])} | None => false end"))
        elif not o["ok"] and o["error"]["exception"] == "KeyError" and not o["calls"]:
            self.checks.append((f"T2 {self.tag}.{mname} {variant}: legacy IAM method fails with KeyError (table has no such entry)",
                                f"match dispatch {variant} {sv} {cm} with None => true | Some _ => false end"))
        else:
            ctx.oblige(f"T2 {self.tag}.{mname} {variant}: outcome is one the model knows", False, outcome_detail(o), "T2")
        if not o["ok"] or len(o["calls"]) != 1 or o["calls"][0]["path"] != path:
            sig = "stubs.async_legacy_iam_keyerror" if (variant == "Async" and not o["ok"] and o["error"]["exception"] == "KeyError") else None
            ctx.violation(f"{s.name}.{mname} ({variant}, add-iam-methods): "
                          + (f"raised {o['error']['exception']}: {clean(o['error']['message'])[:120]}" if not o["ok"] else f"calls {[c['path'] for c in o['calls']]}")
                          + f" instead of one call to {path}", case, sig)
            return
        got = type(sent[0])()
        got.ParseFromString(base64.b64decode(o["calls"][0]["requests"][0]))
        if got != sent[0]:
            ctx.violation(f"{s.name}.{mname} ({variant}): payload differs from the caller's request", case)

    def result_term(self, o, out_fqn):
        """the returned value in model terms; message bytes are re-encoded canonically (map order is not significant)"""
        if not o["ok"]:
            return None
        r = o["result"]

        def canon(b):
            return hb(U.b64(self.dyn.parse(out_fqn, b)))
        if r.get("kind") in ("none", "ignored"):
            return "RetNone"
        if r.get("kind") == "msg":
            return f"(RetOne {coq.s(canon(r['b64']))})"
        if r.get("kind") == "stream" and all(x.get("kind") == "msg" for x in r["items"]):
            return f"(RetStream {coq.slist([canon(x['b64']) for x in r['items']])})"
        if r.get("kind") == "other":
            return "RetOther"
        return None

    def block_term(self, i, j, variant):
        """the model's coercion block for this method (Model/Flatten.v), from the descriptors"""
        fp, s = self.svcs[i]
        m = s.method[j]
        rq = m.input_type
        cross = self.idx.package_of(rq) != fp.package
        name = f"c03blk_{self.stag}_{i}_{j}"
        sch = f"c03sch_{self.stag}"
        if not any(d.startswith(f"Definition {sch} ") for d in self.defs):
            roots = [mm.input_type for _, ss in self.svcs for mm in ss.method if not mm.client_streaming]
            self.defs.append(f"Definition {sch} : schema := {A.schema_term(self.idx, roots)}.")
        if not any(d.startswith(f"Definition {name} ") for d in self.defs):
            self.defs.append(
                f"Definition {name} (v : variant) : option block := match assoc {coq.s(rq)} {sch} with "
                f"Some m => match fields_mapping {sch} m {coq.b(cross)} {coq.slist(U.Index.signatures(m))} with "
                f"Some f => Some (emit v f {coq.b(cross)} (m_proto_plus m)) | None => None end | None => None end.")
        return f"({name} {variant})"


HELPERS = """
Definition nth_m (s : svc) (n : nat) : option meth := nth_error (s_methods s) n.
Definition result_eqb (a b : result) : bool :=
  match a, b with
  | RetNone, RetNone => true
  | RetOne x, RetOne y => String.eqb x y
  | RetStream x, RetStream y => list_eqb String.eqb x y
  | RetError, RetError => true
  | _, _ => false
  end.
Definition RetOther := RetError.
(* a class body keeps the last definition of a name, at the position of the first: the methods a reader of the class sees *)
Definition dedup_cms (l : list client_method) : list client_method :=
  map snd (fold_left (fun acc c => od_put (cm_name c) c acc) l []).
"""


def run_apis(ctx, jobs):
    """jobs: [(tag, req, rindex, yaml)]"""
    dirs = {}
    reqs = []
    for tag, req, ri, yaml in jobs:
        if yaml:
            d = gen.case_dir("c03yaml_" + tag)
            dirs[tag] = d
            req = gen.with_params(req, req.parameter.split(","), d, service_yaml=yaml)
        reqs.append(req)
    facts = []
    CH = 4
    chunks = [reqs[i:i + CH] for i in range(0, len(reqs), CH)]
    for part in gen.pmap(lambda ch: gen.impl("schemafacts", [{"request_b64": apigen.req_b64(q)} for q in ch]), chunks):
        facts.extend(part)
    results = gen.pmap(gen.run_generator, reqs)
    runs = [ApiRun(ctx, tag, rq, ri, yaml, f, g) for (tag, _, ri, yaml), rq, f, g in zip(jobs, reqs, facts, results)]
    for a in runs:
        a.model_defs()
        a.check_facts()

    def go(a):
        try:
            a.run_emitted()
            return None
        except Exception:  # noqa
            import traceback
            return traceback.format_exc()[-1500:]
    for a, err in zip(runs, gen.pmap(go, runs)):
        if err:
            ctx.oblige(f"harness: API {a.tag} evaluated", False, err, "build")
    defs = HELPERS + "\n".join(d for a in runs for d in a.defs)
    checks = [c for a in runs for c in a.checks]
    failing, errors, nfiles = coq.eval_checks("c03", IMPORTS, defs, checks, chunk=250)
    t1 = [c for c in checks if c[0].startswith("T1 ")]
    t2 = [c for c in checks if not c[0].startswith("T1 ")]
    f1 = [f for f in failing if f.startswith("T1 ")]
    f2 = [f for f in failing if not f.startswith("T1 ")]
    ctx.oblige(f"T1 stub-creation properties, _wrapped_methods tables, client lookups and rpc calls read with ast = model "
               f"({len(t1)} comparisons over {len(runs)} libraries)", not f1 and not errors and len(t1) > 0, "; ".join((f1 + errors)[:6]), "T1")
    ctx.oblige(f"T2 model = implementation: wrappers' names/kinds/outputs and, for every driven call, path, request count, result and "
               f"coercion ({len(t2)} evaluations, {nfiles} cases files)", not f2 and not errors and len(t2) > 0, "; ".join((f2 + errors)[:6]), "T2")
    ctx.notes["t1_checks"], ctx.notes["t2_checks"] = len(t1), len(t2)
    ctx.notes["disagreements"] = failing[:20]
    return failing


def snake_cases(ctx):
    """T2 of to_snake_case / transport_safe_name on names alone (no generation)"""
    names = list(TRICKY) + ["A", "a", "AB", "aB", "Ab", "ABc", "aBC", "a1B", "a1BC", "x2Y", "GetV1Beta", "IPAddress", "getIPv6Addr", "Get__X",
                            "_Get", "X_", "createChannel", "GRPCChannel", "operationsclient", "NONE", "None", "ASYNC", "Await", "isOK", "a9Z", "b7XY"]
    r = env.rng("C03-names", 0)
    for _ in range(ctx.n(60, 600)):
        n = "".join(r.choice("abXYZ_129Gethttp") for _ in range(r.randint(1, 9)))
        if n[0].isdigit():
            n = "N" + n
        names.append(n)
    out = gen.impl("snakenames", names)
    checks = []
    for n, o in zip(names, out):
        ctx.case({"name": n}, nontrivial=True, feature=["name-only"])
        checks.append((f"snake_case({n!r}) = {o['snake']!r}", f"String.eqb (snake {coq.s(n)}) {coq.s(o['snake'])}"))
        checks.append((f"transport_safe_name({n!r}) = {o['safe']!r}", f"String.eqb (safe_name {coq.s(n)}) {coq.s(o['safe'])}"))
    failing, errors, _ = coq.eval_checks("c03names", IMPORTS, "", checks)
    ctx.oblige(f"T2 to_snake_case and transport_safe_name: model = implementation on {len(names)} names", not failing and not errors,
               "; ".join((failing + errors)[:8]), "T2")


CORPUS = os.path.join(env.VERIF, "corpus", "C03")


def write_corpus():
    """witnesses: legacy IAM methods (DESIGN section 9 no. 3, repaired in /repo), mixins, RPC names equal after snake-casing
    (no. 11, known finding), a cross-package request with a dotted flattened path called without a request (repaired: 14fc9e4)"""
    from .c05 import witness_api
    os.makedirs(CORPUS, exist_ok=True)
    items = []
    req, _ = make_api(env.rng("C03-w", 1), "same", add_iam=True)
    items.append(("w_add_iam", req, 1, None))
    req, y = make_api(env.rng("C03-w", 2), "same", mixins=True)
    items.append(("w_mixins", req, 2, y))
    req, _ = make_api(env.rng("C03-w", 3), "same", collide=True)
    items.append(("w_collide", req, 3, None))
    items.append(("w_cross_dotted", witness_api("cross_dotted"), 0, None))
    req, _ = make_api(env.rng("C03-w", 4), "dep")
    items.append(("w_dep_request", req, 4, None))
    req, _ = make_api(env.rng("C03-w", 5), "sub")
    items.append(("w_named_empty_sub", req, 5, None))
    req, _ = make_api(env.rng("C03-w", 6), "same")
    items.append(("w_streaming_http_path_variable", req, 6, None))
    req, y = make_iam_api(env.rng("C03-w", 7), own_types=True)
    items.append(("w_iam_named_rpcs_own_types", req, 7, y))
    req, y = make_iam_api(env.rng("C03-w", 8), own_types=False)
    items.append(("w_iam_named_rpcs_iam_types", req, 8, y))
    req, y = make_void_stream_api(env.rng("C03-w", 9))
    items.append(("w_void_streams", req, 9, y, VOID_STREAM))
    req, y = make_uuid_api(env.rng("C03-w", 10))
    items.append(("w_auto_populated_uuid4", req, 10, y))
    for it in items:
        tag, req, ri, y = it[:4]
        with open(os.path.join(CORPUS, tag + ".json"), "w") as f:
            json.dump({"tag": tag, "request_b64": apigen.req_b64(req), "rindex": ri, "service_yaml": y,
                       "runs_when_registered": it[4] if len(it) > 4 else None}, f, indent=1)


def plan(ctx):
    jobs = []
    for name in sorted(os.listdir(CORPUS)) if os.path.isdir(CORPUS) else []:
        c = json.load(open(os.path.join(CORPUS, name)))
        if c.get("runs_when_registered") and not registered(c["runs_when_registered"]):
            continue
        jobs.append((c["tag"], apigen.req_from_b64(c["request_b64"]), c.get("rindex", 0), c.get("service_yaml")))
    ctx.oblige("corpus: the 10 always-on witness APIs of corpus/C03 are present", len(jobs) >= 10, f"{len(jobs)} found", "build")
    n = ctx.n(5, 90)
    i = made = 0
    while made < n and i < 4 * n:
        r = env.rng("C03-api", i)
        try:
            if i % 8 == 6:
                req, y = make_iam_api(r, own_types=r.random() < 0.5, first=r.random() < 0.7)
            elif i % 8 == 2 and registered(VOID_STREAM):
                req, y = make_void_stream_api(r)
            elif i % 8 == 1:
                req, y = make_uuid_api(r)
            else:
                req, y = make_api(r, ["same", "dep", "sub"][i % 3], add_iam=(i % 7 == 5), mixins=(i % 5 == 4))
            jobs.append((f"a{i}", req, i, y))
            made += 1
        except apigen.Invalid:
            ctx.features["invalid-candidate"] += 1
        i += 1
    return jobs


def run(ctx):
    snake_cases(ctx)
    run_apis(ctx, plan(ctx))
    unknown_first(ctx)


def search(ctx, broken):
    jobs = []
    i = 10_000
    while len(jobs) < 14 and i < 10_100:
        try:
            req, y = make_api(env.rng("C03-api", i), ["same", "dep", "sub"][i % 3], add_iam=(i % 7 == 5), mixins=(i % 5 == 4))
            jobs.append((f"s{i}", req, i, y))
        except apigen.Invalid:
            pass
        i += 1
    run_apis(ctx, jobs)
    unknown_first(ctx)


def unknown_first(ctx):
    ctx.violations.sort(key=lambda v: v.get("signature") is not None)


def replay(ctx, rep):
    c = rep.get("case", {})
    if "request_b64" in c:
        req = apigen.req_from_b64(c["request_b64"])
        # the option-file fragment points into a scratch directory that no longer exists: rebuild it from the stored config
        req.parameter = ",".join(p for p in req.parameter.split(",") if not p.startswith("service-yaml="))
        run_apis(ctx, [(c.get("tag", "replay"), req, c.get("rindex", 0), c.get("service_yaml"))])
        unknown_first(ctx)
    else:
        run(ctx)
