"""C17 T0 extractors (fail-closed): MIXINS_MAP from gapic/schema/mixins.py, the module order and the API names of
API.mixin_api_methods / has_*_mixin from gapic/schema/api.py (ast only), and the canonical method table of the three
mixin services from the INSTALLED pb2 service descriptors. Writes Gen/MixinsGen.v."""
import ast, importlib, os
from .. import env, coq

PB2_MODULES = {  # alias used in /repo's source -> installed module (third-party; contract)
    "operations_pb2": "google.longrunning.operations_pb2",
    "iam_policy_pb2": "google.iam.v1.iam_policy_pb2",
    "policy_pb2": "google.iam.v1.policy_pb2",
    "locations_pb2": "google.cloud.location.locations_pb2",
}


def _parse(rel):
    p = os.path.join(env.REPO, rel)
    return ast.parse(open(p, encoding="utf-8").read(), filename=p)


def _const_str(n, what):
    if not (isinstance(n, ast.Constant) and isinstance(n.value, str)):
        raise ValueError(f"{what}: expected a string literal, got {ast.dump(n)[:80]}")
    return n.value


def mixins_map():
    """[(key, name, request_type, response_type)] in source order."""
    for n in _parse("gapic/schema/mixins.py").body:
        if isinstance(n, ast.Assign) and any(isinstance(t, ast.Name) and t.id == "MIXINS_MAP" for t in n.targets):
            if not isinstance(n.value, ast.Dict):
                raise ValueError("MIXINS_MAP is not a dict literal")
            out = []
            for k, v in zip(n.value.keys, n.value.values):
                key = _const_str(k, "MIXINS_MAP key")
                if not (isinstance(v, ast.Call) and ast.unparse(v.func) == "wrappers.MixinMethod" and len(v.args) == 1):
                    raise ValueError(f"MIXINS_MAP[{key!r}] is not wrappers.MixinMethod(name, request_type=, response_type=)")
                kw = {k2.arg: _const_str(k2.value, f"MIXINS_MAP[{key!r}].{k2.arg}") for k2 in v.keywords}
                if set(kw) != {"request_type", "response_type"}:
                    raise ValueError(f"MIXINS_MAP[{key!r}] keywords {sorted(kw)}")
                out.append((key, _const_str(v.args[0], "MixinMethod name"), kw["request_type"], kw["response_type"]))
            if not out:
                raise ValueError("MIXINS_MAP is empty")
            return out
    raise ValueError("MIXINS_MAP = {...} not found in gapic/schema/mixins.py")


def _api_class():
    for n in _parse("gapic/schema/api.py").body:
        if isinstance(n, ast.ClassDef) and n.name == "API":
            return n
    raise ValueError("class API not found in gapic/schema/api.py")


def _method(cls, name):
    for n in cls.body:
        if isinstance(n, ast.FunctionDef) and n.name == name:
            return n
    raise ValueError(f"API.{name} not found")


def api_order():
    """[(condition source, pb2 alias)] in the order API.mixin_api_methods merges them."""
    fn = _method(_api_class(), "mixin_api_methods")
    out = []
    for st in fn.body:
        if isinstance(st, ast.If):
            calls = [c for c in ast.walk(st) if isinstance(c, ast.Call) and ast.unparse(c.func) == "self._get_methods_from_service"]
            if len(calls) != 1 or len(calls[0].args) != 1 or st.orelse:
                raise ValueError("unexpected shape of an `if` in API.mixin_api_methods")
            asg = st.body[0] if len(st.body) == 1 else None
            if not (isinstance(asg, ast.Assign) and ast.unparse(asg.value).replace(" ", "") ==
                    "{**methods,**self._get_methods_from_service(%s)}" % ast.unparse(calls[0].args[0])):
                raise ValueError("mixin_api_methods no longer merges with {**methods, **new}")
            out.append((ast.unparse(st.test), ast.unparse(calls[0].args[0])))
    if not out:
        raise ValueError("no conditional merges found in API.mixin_api_methods")
    return out


def has_names():
    """{'has_location_mixin': 'google.cloud.location.Locations', ...} — the literal each has_*_mixin compares api.name with."""
    cls = _api_class()
    out = {}
    for name in ("has_location_mixin", "has_iam_mixin", "has_operations_mixin"):
        fn = _method(cls, name)
        lits = [c.value for c in ast.walk(fn) if isinstance(c, ast.Constant) and isinstance(c.value, str) and "." in c.value]
        cmps = [c for c in ast.walk(fn) if isinstance(c, ast.Compare) and ast.unparse(c.left) == "api.name" and
                len(c.ops) == 1 and isinstance(c.ops[0], ast.Eq)]
        if len(lits) != 1 or len(cmps) != 1 or "self.service_yaml_config.apis" not in ast.unparse(fn):
            raise ValueError(f"API.{name}: expected one `api.name == <literal>` over service_yaml_config.apis")
        out[name] = lits[0]
    return out


def canon(aliases):
    """Rows (alias, package.Service, Method, input full name, output full name, resource-name field: the variable of the default http rule) from the installed pb2."""
    from google.api import annotations_pb2
    from google.api_core import path_template
    rows = []
    for alias in aliases:
        if alias not in PB2_MODULES:
            raise ValueError(f"unknown pb2 alias {alias!r} in API.mixin_api_methods")
        mod = importlib.import_module(PB2_MODULES[alias])
        for s in mod.DESCRIPTOR.services_by_name.values():
            for m in s.methods:
                h = m.GetOptions().Extensions[annotations_pb2.http]
                pat = h.WhichOneof("pattern")
                if pat and pat != "custom":
                    vs = [x.group("name") for x in path_template._VARIABLE_RE.finditer(getattr(h, pat)) if x.group("name")]
                    if len(vs) != 1:
                        raise ValueError(f"{m.full_name}: default http rule binds {vs}")
                    route = vs[0]
                else:   # WaitOperation carries no default rule: the resource-name field by its conventional name
                    route = "name"
                f1 = m.input_type.fields_by_name.get(route)
                if f1 is None or f1.type != f1.TYPE_STRING:
                    raise ValueError(f"{m.full_name}: request has no string field {route!r}")
                rows.append((alias, f"{mod.DESCRIPTOR.package}.{s.name}", m.name, m.input_type.full_name,
                             m.output_type.full_name, route))
    return rows


def resolve(type_str):
    """'operations_pb2.Operation' -> 'google.longrunning.Operation'; 'None' stays."""
    if type_str == "None":
        return "None"
    alias, _, name = type_str.partition(".")
    if alias not in PB2_MODULES or not name:
        raise ValueError(f"cannot resolve mixin type {type_str!r}")
    cls = getattr(importlib.import_module(PB2_MODULES[alias]), name, None)
    if cls is None or not hasattr(cls, "DESCRIPTOR"):
        raise ValueError(f"{type_str!r} does not name a message of the installed module")
    return cls.DESCRIPTOR.full_name


def gen_text():
    mm = mixins_map()
    order = api_order()
    hn = has_names()
    rows = canon([a for _, a in order])
    q = coq.s
    lines = ["(* Gen/MixinsGen.v — REGENERATED on every run (T0) from gapic/schema/mixins.py, gapic/schema/api.py (ast) and the",
             "   installed pb2 service descriptors. Do not edit. *)",
             "From GV Require Import Base.Str.",
             "(* MIXINS_MAP: key, MixinMethod name, request_type, response_type as written; sorted by key *)",
             "Definition MIXINS_MAP_SRC : list (string * (string * (string * string))) := " +
             coq.lst(f"({q(k)}, ({q(n)}, ({q(a)}, {q(b)})))" for k, n, a, b in sorted(mm)) + ".",
             "(* the same with the pb2 aliases resolved against the installed modules *)",
             "Definition MIXINS_MAP_FULL : list (string * (string * string)) := " +
             coq.lst(f"({q(k)}, ({q(resolve(a))}, {q(resolve(b))}))" for k, n, a, b in sorted(mm)) + ".",
             "(* API.mixin_api_methods: (condition, pb2 module alias) in merge order *)",
             "Definition MIXIN_ORDER : list (string * string) := " + coq.lst(f"({q(c)}, {q(a)})" for c, a in order) + ".",
             "(* has_*_mixin: the api name each compares with *)",
             "Definition HAS_NAMES : list (string * string) := " + coq.lst(f"({q(k)}, {q(v)})" for k, v in sorted(hn.items())) + ".",
             "(* canonical rows from the installed pb2: alias, package.Service, Method, input, output, resource-name field of the request *)",
             "Definition CANON_ROWS : list (string * (string * (string * (string * (string * string))))) := " +
             coq.lst(f"({q(a)}, ({q(s)}, ({q(m)}, ({q(i)}, ({q(o)}, {q(r)})))))" for a, s, m, i, o, r in rows) + ".",
             ""]
    return "\n".join(lines)


def write():
    coq.write_gen("MixinsGen", gen_text())
