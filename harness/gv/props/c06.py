"""C06 — every call carries an x-goog-request-params header that follows AIP-4222."""
import ast, base64, json, os, re
from .. import env, coq, gen, apigen, dyn
from ..apigen import File
from . import c06_gen as G
from . import c06_t0

RULE = ("pure part: path templates from the corpus, from a grammar of the AIP class (0-3 unnamed segments before/after, a named "
        "sub-template of 1-4 segments, literals / * / trailing **, {key} shorthand, empty literals) and from an off-class grammar "
        "(inner **, '=' or braces in literals, 0 or 2 named segments, complex segments, broken braces); literals with regex "
        "metacharacters are in the class; per template "
        "instances, near misses (delete/insert/substitute/truncate/extra or missing segment), the empty string, values with "
        "spaces, percent signs, unicode, '/' and newlines. One case = one (template, value) pair, distinct by canonical JSON, "
        "non-trivial when the template has a named segment. Implicit part: structured http path templates (0-3 variables, dotted and "
        "reserved names, sub-patterns) and noisy strings. End to end: generated APIs (explicit rules of 1-4 parameters with shared "
        "keys, nested and reserved fields, request type in the API package or in a proto sub-package, no template / class templates; implicit rules incl. custom http patterns; no rule; request fields named by the parameters / path variables declared proto3 optional "
        "in most of the drawn APIs and in a fixed corpus API (top-level and nested, with and without template) and then valued unset / present but empty "
        "(assigned '') / non-empty while the other fields contribute, incl. a template-less parameter sharing its key with a templated one and listed last or first; paginated "
        "methods listed over three pages with the header checked on every request; sequences of two and three calls on one client "
        "sharing one caller-owned metadata list / tuple / the default, with different requests per call; one fixed API "
        "through the alternative Ads template tree, sync gRPC only), each method called through the "
        "sync gRPC, asyncio gRPC and REST clients against loopback servers with 4-6 request valuations; one case = one "
        "(method, request, transport) call.")
TRUSTED = [
    "Model/Routing.v: hand-written model of RoutingParameter._convert_to_regex/_split_into_segments/_convert_segment_to_regex/"
    "_merge_segments/key, Method.field_headers, FieldHeader.disambiguated, the create_metadata macro, and of Python re.match on the "
    "emitted regex class (re.escape'd literal text, [^/]+, .*, (?:/.*)?, one named group, '$' before a final newline)",
    "contract: Python's re behaves as Model/Routing.v rmatch says on that class (validated on every run by T2 against re itself)",
    "contract: google.api_core.gapic_v1.routing_header.to_routing_header = '&'.join(quote_plus(k,'/')+'='+quote_plus(v,'/')) "
    "(validated on every run by T2); re.escape escapes exactly re._special_chars_map (validated on every run over all of ASCII)",
    "contract: the REST transport sends dict(metadata) as HTTP headers, the gRPC transports send the tuple as it is (observed end to end)",
    "harness/gv/impl/routing.py, the ast readers of wrappers.py (T0) and of emitted client.py / async_client.py (T1), "
    "harness/gv/props/c06_gen.py (independent AIP-4222 reference: parser, segment matcher, encoder)",
]
ASSUMES = [
    "routing_contribution_correct: the path template is of the AIP class (aip_class) and the field value has no newline",
    "explicit templates have exactly one named segment (routing.proto); without one the generator itself fails (IndexError)",
    "agree_sync_async (REST part): the caller's own metadata does not already contain x-goog-request-params",
]

IMPORTS = "From GV Require Import Model.Routing."
PKG = "google.example.library_v1"
ROUTING_KEY = "x-goog-request-params"


def param_term(field, template):
    return "{| p_field := %s; p_template := %s |}" % (coq.s(field), coq.s(template))


def supported_py(tm):
    return tm is not None and G.is_ident(tm["key"])


# ====================================================================== pure part
def run_pure(ctx, templates, nvals, tag="pure", extra=None):
    """extra: {template: [values that must be among the tried ones]} (corpus witnesses)."""
    payload = {"templates": [], "https": [], "raws": [], "headers": [], "splits": [], "escapes": []}
    for i, t in enumerate(templates):
        r = env.rng("C06-vals", i)
        vals = G.values_for(r, t, nvals)
        vals += [v for v in (extra or {}).get(t, []) if v not in vals]
        payload["templates"].append({"template": t, "field": r.choice(["fld", "class", "sub.type", "a.b.c"]), "values": vals})
    # implicit: http rules
    uris = []
    for i in range(ctx.n(40, 400)):
        r = env.rng("C06-uri", i)
        if r.random() < 0.8:
            parts = G.gen_uri(r)
            uris.append((G.uri_text(parts), parts))
        else:
            uris.append((G.noisy_uri(r), None))
    uris += [("/v1/{name=shelves/*}/books/{book.class}:frob", None), ("", None), ("/v1/{a}{b=c}{", None), ("{x\n=y}{z}", None)]
    verbs = ["get", "put", "post", "delete", "patch", "custom"]
    for i, (u, parts) in enumerate(uris):
        r = env.rng("C06-verb", i)
        h = {v: "" for v in verbs}
        h[r.choice(verbs)] = u
        payload["https"].append(h)
    # two verbs set at once cannot happen through a real HttpRule (oneof); the first-non-empty order is still tied below
    payload["raws"] = sorted(set(G.FIELDS + ["", "a.class.b", "type.type", "class_", "x..y", ".", "self.cls", "license", "a_b.c_d"]))
    for i in range(ctx.n(30, 200)):
        r = env.rng("C06-hdr", i)
        d = [[r.choice(G.KEYS + ["sub.name", "a b"]), "/".join(G.rand_seg(r, odd=0.6, empty=0.1) for _ in range(r.randint(1, 3)))]
             for _ in range(r.randint(1, 4))]
        payload["headers"].append(d)
        payload["splits"].append([r.choice("/=."), "".join(r.choice("ab/=.") for _ in range(r.randint(0, 8)))])
        payload["escapes"].append("".join(r.choice(G.SEGCHARS + G.ODDCHARS + "\n\r\x0b\x0c\x00\x7f") for _ in range(r.randint(0, 10))))
    payload["escapes"] += [chr(i) for i in range(128)] + ["é", "日本"]
    out = gen.impl("routing", payload)

    checks, deferred = [], []
    for c, o in zip(payload["templates"], out["templates"]):
        t, field = c["template"], c["field"]
        T = coq.s(t)
        tm = G.parse_template(t)
        incl = G.in_class(tm)
        cls = "class" if incl else ("off:" + G.why_off_class(tm))
        feats = [cls]
        if tm is not None:
            feats.append(f"sub-segs={min(len(tm['sub']), 4)}")
            if "**" in tm["pre"] + tm["sub"] + tm["post"]:
                feats.append("double-star")
            if tm["short"]:
                feats.append("shorthand")
        checks.append((f"{t!r}: aip_class_str = reference class", f"Bool.eqb (aip_class_str {T}) {coq.b(incl)}"))
        if incl:
            checks.append((f"{t!r}: aip_parse = reference parse", f"match aip_parse {T} with Some t => tmpl_eqb t {G.tmpl_term(tm)} | None => false end"))
        conv = o["convert"]
        if isinstance(conv, dict):
            e = G.err_term(conv["error"])
            checks.append((f"{t!r}: _convert_to_regex raises {conv['error']}", f"res_eqb String.eqb (regex_str {T}) (Err {e})" if e else "false"))
            ctx.case({"template": t, "error": conv["error"]}, nontrivial=False, feature=feats + ["generator-error"])
            if incl:
                ctx.violation(f"template of the AIP class rejected by the generator: {t!r} -> {conv['error']}", {"template": t})
            continue
        checks.append((f"{t!r}: regex text", f"res_eqb String.eqb (regex_str {T}) (Ok {coq.s('^' + conv + '$')})"))
        if isinstance(o["pattern"], dict):
            ctx.case({"template": t, "error": "re.error"}, nontrivial=False, feature=feats + ["re.error"])
            if incl:
                ctx.violation(f"regex of a class template does not compile: {t!r}", {"template": t})
            continue
        if o["pattern"] != "^" + conv + "$":
            ctx.oblige(f"T2 to_regex().pattern = '^' + _convert_to_regex + '$' for {t!r}", False, o["pattern"])
        checks.append((f"{t!r}: key", f"match convert_to_regex {T} with Ok r => String.eqb (key_of {coq.s(field)} r) {coq.s(o['key'])} | Err _ => false end"))
        checks.append((f"{t!r}: attr", f"String.eqb (disambiguated {coq.s(field)}) {coq.s(o['attr'])}"))
        checks.append((f"{t!r}: sample_request raises or not", f"Bool.eqb (sample_request_ok {T}) {coq.b(not isinstance(o['sample_request'], dict))}"))
        sup = supported_py(tm)
        if incl:
            TM = G.tmpl_term(tm)
            checks.append((f"{t!r}: tmpl_print/aip_class", f"String.eqb (tmpl_print {TM}) {T} && aip_class {TM}"))
        if sup:
            checks.append((f"{t!r}: in the modelled regex class", f"supported_template {T}"))
        for v, m in zip(c["values"], o["matches"]):
            V = coq.s(v)
            vf = feats + ["value:" + ("newline" if "\n" in v else "empty" if v == "" else "plain")]
            ctx.case({"template": t, "value": v}, nontrivial=tm is not None, feature=vf)
            P = param_term(field, t)
            if not t:
                impl_c = tuple(m["contribution"][0]) if m.get("contribution") else None
                checks.append((f"'' {v!r}: contribution (no template)", f"res_eqb contrib_eqb (contribution {P} {V}) (Ok {G.contrib_term(impl_c)})"))
                want = (field, v) if v else None
                if impl_c != want:
                    ctx.violation(f"no-template parameter: field value {v!r} contributes {impl_c}, AIP-4222 says {want}", {"template": t, "field": field, "value": v})
                continue
            if "error" in m:
                e = G.err_term(m["error"])
                if sup or tm is None:
                    checks.append((f"{t!r} {v!r}: block raises {m['error']}",
                                   (f"negb (supported_template {T}) || " if not sup else "") + (f"res_eqb contrib_eqb (contribution {P} {V}) (Err {e})" if e else "false")))
                continue
            impl_c = tuple(m["contribution"][0]) if m["contribution"] else None
            mm = "None" if not m["matched"] else f"(Some {coq.opt(m['group'])})"
            guard = "" if sup else f"negb (supported_template {T}) || "
            checks.append((f"{t!r} {v!r}: re.match", f"{guard}res_eqb match_eqb (match_template {T} {V}) (Ok {mm})"))
            checks.append((f"{t!r} {v!r}: contribution", f"{guard}res_eqb contrib_eqb (contribution {P} {V}) (Ok {G.contrib_term(impl_c)})"))
            if tm is not None and G.is_ident(tm["key"]):
                spec = G.aip_contribution(tm, v)
                checks.append((f"{t!r} {v!r}: reference = Gallina aip_contribution", f"contrib_eqb (aip_contribution {G.tmpl_term(tm)} {V}) {G.contrib_term(spec)}"))
                # ---- direct oracle: the property's first sentence on the implementation ----
                if spec != impl_c:
                    case = {"template": t, "field": field, "value": v, "implementation": impl_c, "aip_4222": spec}
                    what = f"routing parameter {t!r}: field value {v!r} contributes {impl_c}, AIP-4222 says {spec}"
                    if incl and "\n" not in v:
                        ctx.violation(what, case)
                    elif incl:
                        deferred.append((what, case, "routing.newline_value"))
                    else:
                        ctx.features["off-class disagreement (" + G.why_off_class(tm) + ")"] += 1

    # ---- implicit: field_headers / disambiguated ----
    reserved = set(ctx.notes["t0"]["RESERVED_NAMES"])
    for (u, parts), h, o in zip(uris, payload["https"], out["https"]):
        H = "{| h_get := %s; h_put := %s; h_post := %s; h_delete := %s; h_patch := %s; h_custom_path := %s |}" % tuple(coq.s(h[v]) for v in verbs)
        ctx.case({"uri": u}, nontrivial=parts is not None and any(p[0] == "var" for p in parts), feature=["uri:structured" if parts else "uri:noisy"])
        if "error" in o:
            ctx.oblige(f"T2 field_headers on {u!r}", False, str(o))
            continue
        checks.append((f"uri {u!r}: field_headers", f"list_eqb String.eqb (field_headers {H}) {coq.slist(o['raw'])}"))
        checks.append((f"uri {u!r}: disambiguated", f"list_eqb String.eqb (map disambiguated (field_headers {H})) {coq.slist(o['dis'])}"))
        if parts is not None:
            checks.append((f"uri {u!r}: structured view", f"String.eqb (uri_print {G.uri_term(parts)}) {coq.s(u)} && uri_ok {G.uri_term(parts)}"))
            want = [p[1] for p in parts if p[0] == "var"]
            if o["raw"] != want:
                ctx.violation(f"implicit routing: variables of {u!r} are {want}, field_headers gives {o['raw']}", {"uri": u, "verbs": h})
            for raw, dis in zip(o["raw"], o["dis"]):
                exp = ".".join(c + "_" if c in reserved else c for c in raw.split("."))
                if dis != exp:
                    ctx.violation(f"implicit routing: variable {raw!r} is read from request.{dis}, the generated message has {exp}", {"uri": u, "raw": raw})
    for raw, dis in zip(payload["raws"], out["raws"]):
        checks.append((f"disambiguated {raw!r}", f"String.eqb (disambiguated {coq.s(raw)}) {coq.s(dis)}"))
    # ---- contracts about third-party code ----
    for d, hv in zip(payload["headers"], out["headers"]):
        checks.append((f"to_routing_header {d!r}", f"String.eqb (to_routing_header (dict_of {coq.pairs([tuple(x) for x in d])})) {coq.s(hv)}"))
        if hv != G.expected_header([tuple(x) for x in d]):
            ctx.oblige(f"reference encoder = api_core on {d!r}", False, f"{hv!r} vs {G.expected_header([tuple(x) for x in d])!r}")
    for (sep, s), pieces in zip(payload["splits"], out["splits"]):
        checks.append((f"split {s!r} on {sep!r}",
                       f"list_eqb String.eqb (splitc (chr {ord(sep)}%N) {coq.s(s)}) {coq.slist(pieces)}"))
    for s, e in zip(payload["escapes"], out["escapes"]):
        checks.append((f"re.escape({s!r})", f"String.eqb (re_escape {coq.s(s)}) {coq.s(e)}"))
    failing, errors, nfiles = coq.eval_checks("c06" + tag, IMPORTS, "", checks)
    ctx.oblige(f"T2 model = implementation on {len(checks)} evaluations (regex text, key, attribute, re.match, emitted block, "
               f"field_headers, disambiguated, urlencode, split, re.escape; reference matcher = Gallina matcher) in {nfiles} cases files",
               not failing and not errors, "; ".join((failing + errors)[:8]))
    ctx.notes[tag + "_checks"] = len(checks)
    ctx.notes[tag + "_disagreements"] = failing[:20]
    return failing, deferred


# ====================================================================== end to end
FIELD_PATHS = ["name", "parent", "table_name", "app_profile_id", "resource", "class", "type", "sub.name", "sub.class", "sub.type",
               "sub.inner.id", "sub.inner.class",
               # digits in the leading, the last and a nested component of the field path
               "oauth2_client_id", "name_v2", "sub.isbn13", "v2.name", "v2.inner.ipv4_range", "sub.inner.ipv4_range"]


def snake(s):
    return re.sub(r"(?<=[a-z0-9])([A-Z])", r"_\1", s).lower()


def req_cls(methods):
    """Where the emitted library keeps the request class (a proto sub-package gets its own types package)."""
    return PKG + (".shared" if methods and methods[0].get("subpkg") else "") + ".types:RouteRequest"


def canon_path(p):
    """sub.* and v2.* are fields of the same message type Sub."""
    return "sub." + p[3:] if p.startswith("v2.") else p


def optional_of(methods):
    """The field paths (canonical) that the request message of this API declares proto3 `optional`."""
    return {canon_path(p) for m in methods for p in m.get("optional", [])}


def is_optional(m, field):
    return canon_path(field) in {canon_path(p) for p in m.get("optional", [])}


def build_api(r, methods):
    """methods: [{'name','kind':'explicit'|'implicit'|'none','params':[(field, template|None)],'http':(verb, uri)}]"""
    f = File("google/example/library/v1/library.proto", "google.example.library.v1",
             deps=list(apigen.STD_DEPS) + ["google/api/routing.proto"])
    # methods[0]["subpkg"]: the request messages live in a proto sub-package of the API (still proto-plus types)
    subpkg = bool(methods and methods[0].get("subpkg"))
    g = f
    if subpkg:
        g = File("google/example/library/v1/shared/shared.proto", "google.example.library.v1.shared", deps=list(apigen.STD_DEPS))
        f.dep(g.proto.name)
    # m["optional"]: field paths declared proto3 `optional` (explicit presence: "" can be present); the request message is
    # shared by the methods of one API, so the union counts, and sub.* / v2.* are one message type
    opt = optional_of(methods)
    inner = g.message("Inner")
    for k, n in enumerate(["id", "class", "ipv4_range"], 1):
        inner.field(n, k, "string", optional="sub.inner." + n in opt)
    sub = g.message("Sub")
    for k, n in enumerate(["name", "class", "type"], 1):
        sub.field(n, k, "string", optional="sub." + n in opt)
    sub.field("inner", 4, inner.fqn).field("isbn13", 5, "string", optional="sub.isbn13" in opt)
    req = g.message("RouteRequest")
    for i, n in enumerate(["name", "parent", "table_name", "app_profile_id", "resource", "class", "type"], 1):
        req.field(n, i, "string", optional=n in opt)
    req.field("sub", 8, sub.fqn)
    req.field("payload", 9, "string")
    req.field("page_size", 10, "int32").field("page_token", 11, "string")
    req.field("oauth2_client_id", 12, "string", optional="oauth2_client_id" in opt).field("name_v2", 13, "string", optional="name_v2" in opt)
    req.field("v2", 14, sub.fqn)
    resp = f.message("RouteResponse")
    resp.field("ok", 1, "string")
    lresp = f.message("ListRoutesResponse")       # with page_size/page_token in the request: a paginated method
    lresp.field("items", 1, "string", repeated=True).field("next_page_token", 2, "string")
    svc = f.service("Router", host="library.example.com")
    for m in methods:
        custom = m["http"][0] == "custom"
        svc.rpc(m["name"], req.fqn, lresp.fqn if m.get("paged") else resp.fqn, cs=bool(m.get("cs")),
                http=None if custom else tuple(m["http"]), body=m.get("body"),
                routing=[tuple(p) for p in m["params"]] if m["kind"] == "explicit" else None)
        if custom:      # custom { kind: "HEAD" path: "..." } as the primary binding
            from google.api import annotations_pb2
            rule = svc.proto.method[-1].options.Extensions[annotations_pb2.http]
            rule.custom.kind = m.get("custom_kind", "HEAD")
            rule.custom.path = m["http"][1]
        if m["kind"] == "explicit" and not m["params"]:      # an annotation without parameters is still an annotation
            from google.api import routing_pb2
            svc.proto.method[-1].options.Extensions[routing_pb2.routing].SetInParent()
    return apigen.request([g, f] if subpkg else [f], parameter="transport=grpc+rest"), req.fqn


def gen_methods(r, n):
    out = []
    for j in range(n):
        name = "Route" + "ABCDEFGHIJKLMNOP"[j]
        x = r.random()
        if x < 0.06:      # an annotation without parameters: no header, not even the implicit one
            out.append({"name": name, "kind": "explicit", "params": [], "http": ("post", "/v1/{name=**}:empty" + str(j)), "body": "*"})
        elif x < 0.6:
            params, keys = [], []
            for _ in range(r.choice([1, 1, 2, 2, 3, 4])):
                field = r.choice(FIELD_PATHS)
                if r.random() < 0.25:
                    params.append((field, None))
                    continue
                t = G.gen_class_template(r)
                if keys and r.random() < 0.5:      # several parameters sharing a key
                    tm = G.parse_template(t)
                    t = t.replace("{" + tm["key"], "{" + r.choice(keys), 1)
                keys.append(G.parse_template(t)["key"])
                params.append((field, t))
            # an earlier parameter listed again, verbatim, after the others (A,B,A / A,B,B,A / A,A): last one wins
            if r.random() < 0.35:
                a = params[0]
                if len(params) >= 2 and a[1] is not None:      # make the parameter in between share A's field and key
                    tm = G.parse_template(a[1])
                    b = G.gen_class_template(r, allow_short=False)
                    b = b.replace("{" + G.parse_template(b)["key"], "{" + tm["key"], 1)
                    params[1] = (a[0], b)
                shape = r.choice(["ABA", "ABBA", "AA"])
                if shape == "AA" or len(params) < 2:
                    params = [a] + params if r.random() < 0.5 else params + [a]
                elif shape == "ABA":
                    params = params + [a]
                else:
                    params = [params[0], params[1], params[1]] + params[2:] + [a]
            out.append({"name": name, "kind": "explicit", "params": params, "http": ("post", f"/v1/m{j}:route"), "body": "*"})
        elif x < 0.9:
            vars_ = r.sample(FIELD_PATHS, r.choice([1, 1, 2, 3]))
            uri = "/v1"
            for v in vars_:
                pat = r.choice([None, "*", "**", "shelves/*", "projects/*/zones/*"]) if v is not vars_[-1] or True else None
                uri += r.choice(["/", "/x/", "/books/"]) + "{" + v + ("=" + pat if pat else "") + "}"
            uri += r.choice(["", ":frob", "/tail"])
            verb = r.choice(["get", "post", "put", "delete", "patch", "custom"])
            out.append({"name": name, "kind": "implicit", "params": [], "http": (verb, uri), "body": "*" if verb in ("post", "put", "patch") else None,
                        "vars": vars_})
        else:
            out.append({"name": name, "kind": "none", "params": [], "http": ("post", f"/v1/n{j}:plain"), "body": "*"})
    for m in out:
        if m["http"][0] != "custom" and r.random() < 0.3:
            m["paged"] = True          # listed page by page: every request of the listing must carry the header
    if out and r.random() < 0.3:
        out[0]["subpkg"] = True        # the request type lives in a proto sub-package of the API (another Python package, still proto-plus)
    # (these draws come last: the shapes drawn above are what they were before this dimension existed)
    # a parameter without a template sharing its key with a templated one on another field, listed LAST or FIRST
    plain_ok = ["name", "parent", "table_name", "app_profile_id", "resource", "oauth2_client_id", "name_v2"]
    forced = set()
    for m in out:
        if m["kind"] == "explicit" and m["params"] and r.random() < 0.35:
            pf = r.choice(plain_ok)
            other = r.choice([f for f in FIELD_PATHS if f != pf])
            t = G.gen_class_template(r, allow_short=False)
            t = t.replace("{" + G.parse_template(t)["key"], "{" + pf, 1)
            if r.random() < 0.5:
                m["params"] = list(m["params"]) + [(other, t), (pf, None)]
            else:
                m["params"] = [(pf, None), (other, t)] + list(m["params"])
            forced.add(pf)
    # presence: some of the fields named by routing parameters / path variables are proto3 `optional` in the request message
    if r.random() < 0.7:
        used = sorted({canon_path(f) for m in out for f, _ in m["params"]} | {canon_path(v) for m in out for v in m.get("vars", [])})
        opt = sorted({f for f in used if r.random() < 0.5} | forced)
        for m in out:
            m["optional"] = opt      # one request message per API
    return out


def set_path(msg, path, value):
    o = msg
    parts = path.split(".")
    for p in parts[:-1]:
        o = getattr(o, p)
    setattr(o, parts[-1], value)


def get_path(msg, path):
    o = msg
    for p in path.split("."):
        o = getattr(o, p)
    return o


def gen_requests(r, m, n):
    """Field valuations {path: value} for one method."""
    reqs = [{}] + [dict(x) for x in m.get("requests", [])]
    for _ in range(n):
        vals = {}
        if m["kind"] == "explicit" and not m["params"]:
            vals["name"] = r.choice(["x", "shelves/s1", "a b"])
        if m["kind"] == "explicit":
            for field, t in m["params"]:
                if field in vals and r.random() < 0.6:
                    continue
                if t is None:
                    vals[field] = r.choice(["", G.rand_seg(r, odd=0.5), "a b/c?d", "p/q/r"])
                else:
                    cands = G.values_for(r, t, 2)
                    good = [v for v in cands if "\n" not in v]
                    vals[field] = r.choice(good if r.random() < 0.93 else cands)
        elif m["kind"] == "implicit":
            for v in m["vars"]:
                vals[v] = r.choice(["", "shelves/s1", "projects/p 1/zones/z", G.rand_seg(r, odd=0.4), "x/y/z", "é/ü"])
        else:
            vals["name"] = G.rand_seg(r)
        reqs.append(vals)
    reqs += presence_requests(r, m)
    return reqs


def presence_requests(r, m, limit=3):
    """For the proto3-optional fields a method routes on: every other field contributing, and this one
    unset / present but empty (assigned "") / non-empty. A key in the valuation is an assignment, so "" on an optional field is
    a field that is PRESENT and EMPTY in the request the client gets."""
    fields = []
    for f in [f for f, _ in m["params"]] + list(m.get("vars", [])):
        if f not in fields:
            fields.append(f)
    opts = [f for f in fields if is_optional(m, f)]
    if not opts:
        return []
    base = {}
    for f in fields:
        ts = [t for ff, t in m["params"] if ff == f and t is not None]
        tm = G.parse_template(ts[0]) if ts else None
        if tm is not None:
            base[f] = "/".join(x or "e" for x in G.instantiate(r, tm["pre"] + tm["sub"] + tm["post"]))
        else:
            base[f] = r.choice(["prof-1", "p/q r", "shelves/s1"])
    out = [dict(base)]
    for f in opts[:limit]:
        out.append(dict(base, **{f: ""}))
        out.append({k: v for k, v in base.items() if k != f})
    if len(opts) > 1:
        out.append(dict(base, **{f: "" for f in opts}))
    return out


def http_vars(uri):
    """Variables of an http path template, read independently: '{' FieldPath [ '=' Segments ] '}'."""
    out, i = [], 0
    while True:
        i = uri.find("{", i)
        if i < 0:
            return out
        j = uri.index("}", i)
        body = uri[i + 1:j]
        out.append(body.split("=", 1)[0])
        i = j + 1


def expected_for(m, vals):
    """The property's sentence for one method and one request: the header value, or None for 'no header'."""
    if m["kind"] == "explicit":
        pairs = []
        for field, t in m["params"]:
            # unset and present-but-empty (proto3 optional field assigned "") are the same thing to AIP-4222: an EMPTY field
            # contributes nothing, so whatever an earlier parameter captured under the same key stays (expected_header: last
            # CONTRIBUTION wins, not last parameter)
            v = vals.get(field, "")
            if t is None:
                if v:
                    pairs.append((field, v))
            else:
                c = G.aip_contribution(G.parse_template(t), v)
                if c:
                    pairs.append(c)
        return G.expected_header(pairs)
    if m["kind"] == "implicit":
        pairs = [(v, vals.get(v, "")) for v in http_vars(m["http"][1])]
        return "&".join(G.url_encode(k) + "=" + G.url_encode(v) for k, v in pairs) if pairs else None
    return None


def presence_feats(m, vals):
    """Which presence situations of proto3-optional routing fields one call exercises (evidence histogram)."""
    fs = []
    fields = [f for f, _ in m["params"]] + list(m.get("vars", []))
    for j, f in enumerate(fields):
        if not is_optional(m, f):
            continue
        tmpl = m["kind"] == "explicit" and m["params"][j][1] is not None
        st = "unset" if f not in vals else ("present-empty" if vals[f] == "" else "non-empty")
        fs.append(f"optional-field:{'nested' if '.' in f else 'top'}:{'template' if tmpl else 'plain' if m['kind'] == 'explicit' else 'implicit'}:{st}")
        if st == "present-empty" and m["kind"] == "explicit":
            key = f if not tmpl else G.parse_template(m["params"][j][1])["key"]
            keys = [ff if t is None else G.parse_template(t)["key"] for ff, t in m["params"]]
            if key in keys[:j]:
                fs.append("optional-empty:shares-key:listed-after")
            if key in keys[j + 1:]:
                fs.append("optional-empty:shares-key:listed-before")
    return sorted(set(fs))


def presence_note(m, vals):
    """Words for a failing call in which an optional routing field is present but empty."""
    pe = [f for f in dict.fromkeys([f for f, _ in m["params"]] + list(m.get("vars", []))) if is_optional(m, f) and vals.get(f, None) == ""]
    if not pe or m["kind"] != "explicit":
        return ""
    return (f" -- field(s) {pe} are proto3 optional and PRESENT BUT EMPTY in the request; AIP-4222: an empty field contributes nothing, "
            f"whether unset or set to the empty string, so what an earlier parameter captured for the same key stays")


# ---- T1: the emitted routing block read with ast ----
def _attr_path(node):
    """request.a.b -> 'a.b' (fail-closed)."""
    parts = []
    while isinstance(node, ast.Attribute):
        parts.append(node.attr)
        node = node.value
    if not (isinstance(node, ast.Name) and node.id == "request"):
        raise ValueError("attribute path not rooted at 'request'")
    return ".".join(reversed(parts))


def _is_hp_assign(st, key=None):
    return (isinstance(st, ast.Assign) and len(st.targets) == 1 and isinstance(st.targets[0], ast.Subscript)
            and isinstance(st.targets[0].value, ast.Name) and st.targets[0].value.id == "header_params"
            and isinstance(st.targets[0].slice, ast.Constant))


def extract_routing(fn):
    """('explicit', [blocks]) | ('implicit', [(raw, attr)]) | ('none', []) from one client method (FunctionDef)."""
    body = fn.body
    idx = next((i for i, st in enumerate(body) if isinstance(st, ast.Assign) and ast.unparse(st) == "header_params = {}"), None)
    if idx is not None:
        blocks, i = [], idx + 1
        while i < len(body):
            st = body[i]
            if isinstance(st, ast.If) and ast.unparse(st.test) == "header_params":
                want = "metadata = tuple(metadata) + (gapic_v1.routing_header.to_grpc_metadata(header_params),)"
                if len(st.body) != 1 or ast.unparse(st.body[0]) != want or st.orelse:
                    raise ValueError("unexpected 'if header_params' body: " + ast.unparse(st)[:200])
                return "explicit", blocks
            if isinstance(st, ast.If):     # plain block
                attr = _attr_path(st.test)
                if len(st.body) != 1 or st.orelse or not _is_hp_assign(st.body[0]) or _attr_path(st.body[0].value) != attr:
                    raise ValueError("unexpected plain routing block: " + ast.unparse(st)[:200])
                blocks.append(("plain", attr, st.body[0].targets[0].slice.value))
                i += 1
                continue
            if isinstance(st, ast.Assign) and ast.unparse(st.targets[0]) == "routing_param_regex":
                c = st.value
                if not (isinstance(c, ast.Call) and ast.unparse(c.func) == "re.compile" and len(c.args) == 1 and not c.keywords
                        and isinstance(c.args[0], ast.Constant) and isinstance(c.args[0].value, str)):
                    raise ValueError("unexpected regex assignment: " + ast.unparse(st)[:200])
                pat = c.args[0].value
                m1, g = body[i + 1], body[i + 2]
                if not (isinstance(m1, ast.Assign) and ast.unparse(m1.targets[0]) == "regex_match" and isinstance(m1.value, ast.Call)
                        and ast.unparse(m1.value.func) == "routing_param_regex.match" and len(m1.value.args) == 1):
                    raise ValueError("unexpected match statement: " + ast.unparse(m1)[:200])
                attr = _attr_path(m1.value.args[0])
                if not (isinstance(g, ast.If) and isinstance(g.test, ast.BoolOp) and isinstance(g.test.op, ast.And) and len(g.test.values) == 2
                        and ast.unparse(g.test.values[0]) == "regex_match" and len(g.body) == 1 and not g.orelse and _is_hp_assign(g.body[0])):
                    raise ValueError("unexpected guard: " + ast.unparse(g)[:200])
                key = g.body[0].targets[0].slice.value
                grp = f"regex_match.group({key!r})"
                if ast.unparse(g.test.values[1]) != grp or ast.unparse(g.body[0].value) != grp:
                    raise ValueError(f"guard/assignment do not use group {key!r}: " + ast.unparse(g)[:200])
                blocks.append(("regex", pat, attr, key))
                i += 3
                continue
            raise ValueError("unexpected statement in the routing block: " + ast.unparse(st)[:200])
        raise ValueError("'if header_params' not found")
    for st in body:
        if isinstance(st, ast.Assign) and "routing_header.to_grpc_metadata" in ast.unparse(st):
            v = st.value
            if not (ast.unparse(st.targets[0]) == "metadata" and isinstance(v, ast.BinOp) and isinstance(v.op, ast.Add)
                    and ast.unparse(v.left) == "tuple(metadata)" and isinstance(v.right, ast.Tuple) and len(v.right.elts) == 1):
                raise ValueError("unexpected implicit routing statement: " + ast.unparse(st)[:200])
            call = v.right.elts[0]
            if not (isinstance(call, ast.Call) and ast.unparse(call.func) == "gapic_v1.routing_header.to_grpc_metadata"
                    and len(call.args) == 1 and isinstance(call.args[0], ast.Tuple)):
                raise ValueError("unexpected to_grpc_metadata call: " + ast.unparse(call)[:200])
            pairs = []
            for e in call.args[0].elts:
                if not (isinstance(e, ast.Tuple) and len(e.elts) == 2 and isinstance(e.elts[0], ast.Constant)):
                    raise ValueError("unexpected pair: " + ast.unparse(e))
                pairs.append((e.elts[0].value, _attr_path(e.elts[1])))
            return "implicit", pairs
    return "none", []


def routing_stmts_dump(fn):
    """Normalised dump of the statements that build the routing metadata (for sync = async)."""
    keep = []
    for st in fn.body:
        s = ast.unparse(st)
        if "header_params" in s or "routing_param_regex" in s or "regex_match" in s or "routing_header.to_grpc_metadata" in s:
            keep.append(s)
    return keep


def client_methods(src, suffix):
    tree = ast.parse(src)
    cls = next((n for n in tree.body if isinstance(n, ast.ClassDef) and n.name.endswith(suffix) and not n.name.endswith("Meta")), None)
    if cls is None:
        raise ValueError(f"class *{suffix} not found")
    return {n.name: n for n in cls.body if isinstance(n, (ast.FunctionDef, ast.AsyncFunctionDef))}


def method_term(m):
    verbs = {v: "" for v in ["get", "put", "post", "delete", "patch", "custom"]}
    verbs[m["http"][0]] = m["http"][1]
    H = "{| h_get := %s; h_put := %s; h_post := %s; h_delete := %s; h_patch := %s; h_custom_path := %s |}" % tuple(
        coq.s(verbs[v]) for v in ["get", "put", "post", "delete", "patch", "custom"])
    ex = "None" if m["kind"] != "explicit" else "(Some %s)" % coq.lst(param_term(f, t or "") for f, t in m["params"])
    return "{| m_explicit := %s; m_http := %s; m_client_streaming := %s |}" % (ex, H, coq.b(bool(m.get("cs"))))


def emitted_term(kind, items):
    if kind == "explicit":
        bl = []
        for b in items:
            if b[0] == "plain":
                bl.append(f"BPlain {coq.s(b[1])} {coq.s(b[2])}")
            else:
                bl.append(f"BRegex {coq.s(b[1])} {coq.s(b[2])} {coq.s(b[3])}")
        return f"(EExplicit {coq.lst(bl)})"
    if kind == "implicit":
        return f"(EImplicit {coq.pairs(items)})"
    return "ENothing"


def observed_headers(rec, transport):
    if transport == "rest":
        calls = rec.get("http_calls") or []
        if not calls:
            return None
        return [v for k, v in calls[0]["headers"] if k.lower() == ROUTING_KEY]
    calls = rec.get("grpc_calls") or []
    if not calls:
        return None
    return [v for k, v in calls[0]["metadata"] if k == ROUTING_KEY]


def observed_all(rec, transport):
    """The routing-header values of EVERY request the server received for this client call."""
    if transport == "rest":
        return [[v for k, v in c["headers"] if k.lower() == ROUTING_KEY] for c in rec.get("http_calls") or []]
    return [[v for k, v in c["metadata"] if k == ROUTING_KEY] for c in rec.get("grpc_calls") or []]


PAGES = [(["a", "b"], "tok2"), (["c"], "tok3"), ([], "")]      # three requests per listing


def pager_ok(fn):
    """T1: the pager that wraps a paged response gets the call's metadata (it re-sends it with every further page)."""
    for n in ast.walk(fn):
        if isinstance(n, ast.Call) and isinstance(n.func, ast.Attribute) and isinstance(n.func.value, ast.Name) and n.func.value.id == "pagers":
            kw = {k.arg: ast.unparse(k.value) for k in n.keywords}
            return kw.get("metadata") == "metadata" and kw.get("request") == "request" and kw.get("method") == "rpc", kw
    return None, {}


SEQ_MD = [["x-custom", "1"]]


def seq_requests(r, m):
    """Three different requests for a call sequence: a contributing one, an empty / non-matching one, another contributing one."""
    given = [dict(x) for x in m.get("requests", [])]
    gen_ = [v for v in gen_requests(r, m, 3)[1 + len(given):] if not any("\n" in x for x in v.values())]
    first = given[0] if given else (gen_[0] if gen_ else {})
    if m["kind"] == "explicit":
        miss = {f: "no-such/value" for f, t in m["params"]} if r.random() < 0.5 else {}
    else:
        miss = {v: "" for v in m.get("vars", [])}
    third = given[1] if len(given) > 1 else gen_[-1] if gen_ else dict(first)
    return [first, miss, third]


def run_e2e(ctx, n_apis, nreq, reserved, tag="e2e", fixed=None, sequences=0):
    """sequences: for that many routed methods per library, also drive call SEQUENCES on one client with one caller-owned
    metadata object (list / tuple / default)."""
    jobs = []
    for i in range(n_apis):
        r = env.rng("C06-e2e", i)
        methods = fixed[i] if fixed else gen_methods(r, r.randint(4, 8))
        try:
            req, req_fqn = build_api(r, methods)
        except apigen.Invalid as e:
            ctx.features["e2e-invalid-candidate"] += 1
            continue
        jobs.append((i, methods, req, req_fqn))
    results = gen.pmap(lambda j: gen.run_generator(j[2]), jobs)
    checks, deferred, drive_jobs = [], [], []
    for (i, methods, req, req_fqn), (res, err) in zip(jobs, results):
        case0 = {"e2e_index": i, "methods": methods, "request_b64": apigen.req_b64(req)}
        if res is None:
            ctx.violation(f"e2e #{i}: generation fails for an API whose routing rules are all of the AIP class: {gen.error_kind(err)}",
                          dict(case0, stderr=err[-1500:]))
            continue
        files = gen.files_of(res)
        base = "google/example/library_v1/services/router/"
        try:
            sync_m = client_methods(files[base + "client.py"], "Client")
            async_m = client_methods(files[base + "async_client.py"], "AsyncClient")
        except Exception as e:  # noqa
            line = ""
            if isinstance(e, SyntaxError) and e.lineno:
                for nm in (base + "client.py", base + "async_client.py"):
                    try:
                        ast.parse(files[nm])
                    except SyntaxError as e2:
                        line = f" -- {nm.rsplit('/', 1)[1]} line {e2.lineno}: {files[nm].splitlines()[e2.lineno - 1].strip()!r}"
                        break
            ctx.violation(f"e2e #{i}: emitted client does not parse: {type(e).__name__}: {e}{line}", case0)
            continue
        for m in methods:
            py = snake(m["name"])
            try:
                ks, its = extract_routing(sync_m[py])
                ka, ita = extract_routing(async_m[py])
            except Exception as e:  # noqa
                ctx.oblige(f"T1 e2e #{i} {m['name']}: extraction of the routing block", False, f"{type(e).__name__}: {e}", "T1")
                continue
            if m.get("paged"):
                for label, fn in (("client.py", sync_m[py]), ("async_client.py", async_m[py])):
                    ok, kw = pager_ok(fn)
                    ctx.oblige(f"T1 e2e #{i} {m['name']} ({label}): the pager is built with method=rpc, request=request, metadata=metadata",
                               bool(ok), f"keywords {kw}", "T1")
            M = method_term(m)
            checks.append((f"e2e#{i} {m['name']}: emitted block (client.py) = model", f"res_eqb emitted_eqb (emit_sync {M}) (Ok {emitted_term(ks, its)})"))
            checks.append((f"e2e#{i} {m['name']}: emitted block (async_client.py) = model", f"res_eqb emitted_eqb (emit_async {M}) (Ok {emitted_term(ka, ita)})"))
            ds, da = routing_stmts_dump(sync_m[py]), routing_stmts_dump(async_m[py])
            if ds != da or (ks, its) != (ka, ita):
                ctx.violation(f"sync and asyncio clients build the routing header differently in {m['name']}",
                              dict(case0, method=m["name"], sync=ds, asyncio=da))
            # what the property says about the emitted shape
            if m.get("cs"):
                ctx.case({"e2e": i, "method": m["name"], "client_streaming": True}, nontrivial=True, feature=["e2e:client-streaming(T1 only)"])
            if m["kind"] == "explicit" and ks == "explicit" and not m.get("cs"):
                for (field, t), b in zip(m["params"], its):
                    exp_attr = ".".join(c + "_" if c in reserved else c for c in field.split("."))
                    if b[-2] != exp_attr:
                        ctx.violation(f"routing parameter on field {field!r} reads request.{b[-2]}; the generated message has {exp_attr}",
                                      dict(case0, method=m["name"], field=field))
            if m["kind"] == "implicit" and ks == "implicit":
                for raw, attr in its:
                    exp_attr = ".".join(c + "_" if c in reserved else c for c in raw.split("."))
                    if attr != exp_attr:
                        ctx.violation(f"implicit routing variable {raw!r} reads request.{attr}; the generated message has {exp_attr}",
                                      dict(case0, method=m["name"], raw=raw))
        drive_jobs.append((i, methods, req, req_fqn, res, case0))

    def drive_one(job):
        i, methods, req, req_fqn, res, case0 = job
        d = gen.case_dir(f"c06-{tag}-{i}")
        gen.materialize(res, d)
        D = dyn.Dyn(req)
        calls, meta = [], []
        lfqn = ".google.example.library.v1.ListRoutesResponse"
        page_msgs = [D.b64(D.new(lfqn, items=items, next_page_token=tok)) for items, tok in PAGES]
        page_json = [json.dumps({"items": items, "nextPageToken": tok}) for items, tok in PAGES]
        for mi, m in enumerate(methods):
            r = env.rng(f"C06-req-{i}", mi)
            if m.get("cs"):
                continue      # client streaming: no single request to read; only the emitted block is compared (T1)
            for vals in gen_requests(r, m, nreq):
                msg = D.new(req_fqn)
                for p, v in vals.items():
                    set_path(msg, p, v)
                for tr in (("grpc", "grpc_asyncio") if m["http"][0] == "custom" else ("grpc", "grpc_asyncio", "rest")):
                    spec = {"service_module": "router", "client": "RouterAsyncClient" if tr == "grpc_asyncio" else "RouterClient",
                            "transport": tr, "method": snake(m["name"]),
                            "request": {"mode": "message", "cls": req_cls(methods), "b64": D.b64(msg)},
                            "call_kwargs": {"retry": "none", "timeout": 10.0}}
                    if m.get("paged"):      # a listing of three pages: the servers answer with next_page_token until the last one
                        spec["consume"] = "pager"
                        spec["grpc_script"] = {"/google.example.library.v1.Router/" + m["name"]: [{"messages": [b]} for b in page_msgs]}
                        spec["http_script"] = [{"status": 200, "body": b} for b in page_json]
                    calls.append(spec)
                    meta.append((m, vals, tr))
        try:
            out = gen.impl("drive", {"root": d, "package": PKG, "calls": calls}, timeout=900)
        except Exception as e:  # noqa
            out = e
        seqs, seq_meta, seq_out = [], [], None
        routed = [m for m in methods if m["kind"] in ("explicit", "implicit") and not m.get("cs") and not m.get("paged")
                  and (m["params"] or m["kind"] == "implicit")]
        routed.sort(key=lambda m: (not m.get("requests"), m["name"]))
        for mi, m in enumerate(routed[:sequences]):
            r = env.rng(f"C06-seq-{i}", mi)
            reqs = seq_requests(r, m)[: (2 if mi % 2 else 3)]
            b64s = []
            for vals in reqs:
                msg = D.new(req_fqn)
                for p, v in vals.items():
                    set_path(msg, p, v)
                b64s.append(D.b64(msg))
            for tr in (("grpc", "grpc_asyncio") if m["http"][0] == "custom" else ("grpc", "grpc_asyncio", "rest")):
                for kind in ("list", "tuple", "default"):
                    seqs.append({"service_module": "router", "client": "RouterAsyncClient" if tr == "grpc_asyncio" else "RouterClient",
                                 "transport": tr, "method": snake(m["name"]), "cls": req_cls(methods), "requests": b64s,
                                 "md_kind": kind, "md": SEQ_MD})
                    seq_meta.append((m, reqs, tr, kind))
        if seqs and not isinstance(out, Exception):
            try:
                seq_out = gen.impl("routing_seq", {"root": d, "package": PKG, "sequences": seqs}, timeout=600)
            except Exception as e:  # noqa
                seq_out = e
        gen.rm(d)
        return (out, seq_out, seq_meta), meta

    for (i, methods, req, req_fqn, res, case0), ((out, seq_out, seq_meta), meta) in zip(drive_jobs, gen.pmap(drive_one, drive_jobs, workers=8)):
        # ---- call sequences sharing one metadata object: every call carries exactly its own header, the object is left alone ----
        if isinstance(seq_out, Exception):
            ctx.violation(f"e2e #{i}: call sequences cannot be driven: {str(seq_out)[-300:]}", case0)
        later = []      # side effects on the caller's object: reported after what they do to the wire
        for sq, (m, reqs, tr, kind) in zip(seq_out or [], seq_meta) if not isinstance(seq_out, Exception) else []:
            scase = {"e2e_index": i, "method": m, "sequence": reqs, "transport": tr, "metadata_kind": kind, "metadata": SEQ_MD,
                     "request_b64": case0["request_b64"], "methods": methods}
            if sq.get("error") or len(sq["calls"]) != len(reqs):
                ctx.violation(f"{m['name']} via {tr}: a sequence of {len(reqs)} calls could not be made: {sq.get('error')}", scase)
                continue
            mutated = False
            for k, (c, vals) in enumerate(zip(sq["calls"], reqs)):
                ctx.case({"e2e": i, "method": m["name"], "sequence": reqs, "call": k, "transport": tr, "md": kind}, nontrivial=True,
                         feature=[f"e2e:sequence:{kind}", f"e2e:sequence-call:{tr}"])
                if c["wire"] is None:
                    if tr != "rest":
                        ctx.violation(f"{m['name']} via {tr}: call {k + 1} of a sequence raised {c.get('error')}", scase)
                    continue
                want = expected_for(m, vals)
                want_l = [] if want is None else [want]
                got = [v for kk, v in c["wire"] if kk == ROUTING_KEY]
                custom = [v for kk, v in c["wire"] if kk == "x-custom"]
                where = (f"{m['name']} via {tr}, call {k + 1} of {len(reqs)} on one client with "
                         f"{'the default metadata' if kind == 'default' else 'the same ' + kind + ' ' + str(SEQ_MD) + ' passed as metadata'}")
                if got != want_l:
                    ctx.violation(f"{where}: the server saw {ROUTING_KEY}={got}, the property requires {want_l} for request {vals} "
                                  f"(requests of the sequence: {reqs})" + presence_note(m, vals), scase)
                    break
                if kind != "default" and custom != ["1"]:
                    ctx.violation(f"{where}: the caller's own entry x-custom arrived as {custom}", scase)
                    break
                if kind != "default" and (c["md_after"] != SEQ_MD or c["md_type"] != kind or not c["same_object"]) and not mutated:
                    mutated = True      # reported once; the following calls show what it does to the wire
                    later.append((f"{where}: the caller's metadata object was changed to {c['md_type']} {c['md_after']}", scase))
                if tr == "grpc" and kind == "list":
                    attr_vals = [(".".join(cc + "_" if cc in reserved else cc for cc in p.split(".")), v) for p, v in vals.items()]
                    o = "None" if not got else f"(Some {coq.s(got[0])})"
                    checks.append((f"e2e#{i} {m['name']} sequence call {k + 1} {vals!r}: header = model (no memory between calls)",
                                   f"res_eqb (option_eqb String.eqb) (header_of {method_term(m)} (req_of {coq.pairs(attr_vals)})) (Ok {o})"))
        for what, scase in later[:2]:
            ctx.violation(what, scase)
        if isinstance(out, Exception):
            ctx.violation(f"e2e #{i}: the emitted library cannot be imported / driven: {str(out)[-400:]}", case0)
            continue
        seen = {}
        for rec, (m, vals, tr) in zip(out, meta):
            case = {"e2e_index": i, "method": m, "values": vals, "transport": tr, "request_b64": case0["request_b64"], "methods": methods}
            obs = observed_headers(rec, tr)
            kind_feats = [f"e2e:{m['kind']}", f"transport:{tr}"] + presence_feats(m, vals)
            if obs is None:
                # the call never reached the server (REST transcoding rejects values that do not fit the http pattern)
                ctx.features[f"e2e:not-sent:{tr}"] += 1
                if tr != "rest":
                    ctx.violation(f"{tr} call of {m['name']} raised {rec.get('error')}", case)
                continue
            want = expected_for(m, vals)
            has_nl = any("\n" in v for v in vals.values())
            ctx.case({"e2e": i, "method": m["name"], "values": vals, "transport": tr}, nontrivial=m["kind"] != "none",
                     feature=kind_feats + (["e2e:header-expected"] if want is not None else ["e2e:no-header-expected"]))
            want_l = [] if want is None else [want]
            if obs != want_l:
                what = f"{m['name']} via {tr}: server saw {ROUTING_KEY}={obs}, the property requires {want_l} for request {vals}" + presence_note(m, vals)
                if has_nl:
                    deferred.append((what, case, "routing.newline_value"))
                else:
                    ctx.violation(what, case)
            if m.get("paged"):
                every = observed_all(rec, tr)
                ctx.features[f"e2e:paged-listing:{tr}"] += 1
                if len(every) != len(PAGES) or not rec.get("ok"):
                    ctx.violation(f"{m['name']} via {tr}: a listing of {len(PAGES)} pages made {len(every)} requests ({rec.get('error')})", case)
                for k, o_k in enumerate(every):
                    if o_k != want_l:
                        what = (f"{m['name']} via {tr}: request {k + 1} of a {len(PAGES)}-page listing carried {ROUTING_KEY}={o_k}, "
                                f"the property requires {want_l} on every call, for request {vals}")
                        if has_nl:
                            deferred.append((what, case, "routing.newline_value"))
                        else:
                            ctx.violation(what, case)
                        break
                obs = every       # sync / asyncio / REST must agree on the whole listing
            seen.setdefault((m["name"], json.dumps(vals, sort_keys=True)), {})[tr] = obs
            if tr == "grpc":
                attr_vals = [(".".join(c + "_" if c in reserved else c for c in p.split(".")), v) for p, v in vals.items()]
                if m.get("paged"):
                    obs = obs[0] if obs else []
                o = "None" if not obs else f"(Some {coq.s(obs[0])})"
                checks.append((f"e2e#{i} {m['name']} {vals!r}: header seen by the gRPC server = model",
                               f"res_eqb (option_eqb String.eqb) (header_of {method_term(m)} (req_of {coq.pairs(attr_vals)})) (Ok {o})"
                               if len(obs) <= 1 else "false"))
        for (name, vj), by_tr in seen.items():
            vals_ = set(json.dumps(v) for v in by_tr.values())
            if len(vals_) > 1:
                ctx.violation(f"{name}: sync, asyncio and REST disagree on the routing header for request {vj}: {by_tr}",
                              {"e2e_index": i, "method_name": name, "values": json.loads(vj), "request_b64": case0["request_b64"], "methods": methods})
    failing, errors, nfiles = coq.eval_checks("c06" + tag, IMPORTS, "", checks)
    ctx.oblige(f"T1+T2 emitted routing blocks (ast) = model's emit_metadata, header at the loopback server = model's header_of "
               f"({len(checks)} comparisons, {len(drive_jobs)} generated libraries)",
               not failing and not errors and (len(checks) > 0 or not jobs), "; ".join((failing + errors)[:8]), "T1")
    ctx.notes[tag + "_checks"] = len(checks)
    return failing, deferred


# ====================================================================== the alternative (Ads) template tree
ADS_METHODS = [
    {"name": "RouteA", "kind": "explicit", "params": [("table_name", "{routing_id=projects/*}/**"), ("app_profile_id", None)], "http": ("post", "/v1/a:route"), "body": "*",
     "requests": [{"table_name": "projects/p1/instances/i", "app_profile_id": "prof"}]},
    {"name": "RouteB", "kind": "explicit", "params": [("table_name", "{routing_id=projects/*}/**")], "http": ("post", "/v1/{name=shelves/*}:route"), "body": "*",
     "requests": [{"table_name": "projects/p1/instances/i", "name": "shelves/s1"}]},
    {"name": "RouteC", "kind": "explicit", "params": [], "http": ("post", "/v1/{name=**}:route"), "body": "*", "requests": [{"name": "shelves/s1"}]},
    {"name": "RouteD", "kind": "implicit", "params": [], "http": ("get", "/v1/{name=shelves/*}/{sub.class}"), "body": None, "vars": ["name", "sub.class"],
     "requests": [{"name": "shelves/s1", "sub.class": "c d"}]},
    {"name": "RouteE", "kind": "none", "params": [], "http": ("post", "/v1/e:plain"), "body": "*"},
    {"name": "RouteF", "kind": "implicit", "params": [], "http": ("custom", "/v1/{type=things/*}"), "body": None, "vars": ["type"]},
    # proto3 optional routing fields (the request message is shared: app_profile_id and sub.name are optional in all of the above)
    {"name": "RouteG", "kind": "explicit", "params": [("name", "{app_profile_id=projects/*}/**"), ("app_profile_id", None), ("sub.name", None)],
     "http": ("post", "/v1/g:route"), "body": "*", "optional": ["app_profile_id", "sub.name"],
     "requests": [{"name": "projects/p1/things/t1", "app_profile_id": ""}, {"name": "projects/p1/things/t1", "app_profile_id": "", "sub.name": ""}]},
]


def run_ads(ctx, reserved, methods=None, tag="ads"):
    """python-gapic-templates=ads-templates: the sync gRPC client of the Ads tree against the loopback server.
    Model: emit_ads / header_of_ads = the standard ones (the Ads client.py.j2 expands the same create_metadata macro)."""
    methods = methods or ADS_METHODS
    deferred, checks = [], []
    req, req_fqn = build_api(env.rng("C06-ads"), methods)
    req = gen.with_params(req, ["python-gapic-templates=ads-templates", "old-naming", "transport=grpc"])
    case0 = {"ads": True, "methods": methods, "request_b64": apigen.req_b64(req)}
    res, err = gen.run_generator(req)
    if res is None:
        ctx.violation(f"ads templates: generation fails: {gen.error_kind(err)}", dict(case0, stderr=err[-1200:]))
        return deferred
    files = gen.files_of(res)
    name = next((n for n in files if n.endswith("services/router/client.py")), None)
    if name is None:
        ctx.oblige("T1 ads: services/router/client.py emitted", False, str(sorted(files)[:8]), "T1")
        return deferred
    pkg = name[:-len("/services/router/client.py")].replace("/", ".")
    try:
        sync_m = client_methods(files[name], "Client")
    except Exception as e:  # noqa
        ctx.violation(f"ads templates: emitted client does not parse: {type(e).__name__}: {e}", case0)
        return deferred
    for m in methods:
        try:
            k, its = extract_routing(sync_m[snake(m["name"])])
        except Exception as e:  # noqa
            ctx.oblige(f"T1 ads {m['name']}: extraction of the routing block", False, f"{type(e).__name__}: {e}", "T1")
            continue
        checks.append((f"ads {m['name']}: emitted block = model (emit_ads)", f"res_eqb emitted_eqb (emit_ads {method_term(m)}) (Ok {emitted_term(k, its)})"))
    d = gen.case_dir(f"c06-{tag}")
    gen.materialize(res, d)
    D = dyn.Dyn(req)
    calls, meta = [], []
    for mi, m in enumerate(methods):
        for vals in gen_requests(env.rng("C06-ads-req", mi), m, 2):
            msg = D.new(req_fqn)
            for p, v in vals.items():
                set_path(msg, p, v)
            calls.append({"service_module": "router", "client": "RouterClient", "transport": "grpc", "method": snake(m["name"]),
                          "request": {"mode": "message", "cls": pkg + ".types.library:RouteRequest", "b64": D.b64(msg)},
                          "call_kwargs": {"retry": "none", "timeout": 10.0}})
            meta.append((m, vals))
    try:
        out = gen.impl("drive", {"root": d, "package": pkg, "calls": calls}, timeout=600)
    except Exception as e:  # noqa
        ctx.violation(f"ads templates: the emitted library cannot be imported / driven: {str(e)[-400:]}", case0)
        gen.rm(d)
        return deferred
    gen.rm(d)
    for rec, (m, vals) in zip(out, meta):
        obs = observed_headers(rec, "grpc")
        case = dict(case0, method=m, values=vals, transport="grpc")
        if obs is None:
            ctx.violation(f"ads templates: grpc call of {m['name']} raised {rec.get('error')}", case)
            continue
        want = expected_for(m, vals)
        want_l = [] if want is None else [want]
        ctx.case({"ads": True, "method": m["name"], "values": vals}, nontrivial=m["kind"] != "none", feature=[f"ads:{m['kind']}"] + presence_feats(m, vals))
        if obs != want_l:
            what = f"ads templates, {m['name']} via grpc: server saw {ROUTING_KEY}={obs}, the property requires {want_l} for request {vals}" + presence_note(m, vals)
            if any("\n" in v for v in vals.values()):
                deferred.append((what, case, "routing.newline_value"))
            else:
                ctx.violation(what, case)
        attr_vals = [(".".join(c + "_" if c in reserved else c for c in p.split(".")), v) for p, v in vals.items()]
        o = "None" if not obs else f"(Some {coq.s(obs[0])})"
        checks.append((f"ads {m['name']} {vals!r}: header seen by the gRPC server = model (header_of_ads)",
                       f"res_eqb (option_eqb String.eqb) (header_of_ads {method_term(m)} (req_of {coq.pairs(attr_vals)})) (Ok {o})" if len(obs) <= 1 else "false"))
    failing, errors, _ = coq.eval_checks("c06" + tag, IMPORTS, "", checks)
    ctx.oblige(f"T1+T2 ads templates: emitted routing blocks = model's emit_ads, header at the loopback server = model's header_of_ads ({len(checks)} comparisons)",
               not failing and not errors and len(checks) > 0, "; ".join((failing + errors)[:8]), "T1")
    return deferred


# ====================================================================== known finding class: witnesses replayed on the implementation
def run_witnesses(ctx):
    """The witnesses of C06_newline_refuted / C06_newline_final_refuted on the real code (known finding routing.newline_value)."""
    deferred = []
    out = gen.impl("routing", {"templates": [{"template": "{k=**}", "field": "f", "values": ["a\nb", "a\n"]}]})
    for v, m in zip(["a\nb", "a\n"], out["templates"][0]["matches"]):
        impl_c = tuple(m["contribution"][0]) if m.get("contribution") else None
        spec = ("k", v)
        ctx.case({"witness": "newline", "value": v}, feature=["witness"])
        if impl_c != spec:
            deferred.append((f"routing parameter '{{k=**}}': field value {v!r} contributes {impl_c}, AIP-4222 says {spec}",
                             {"template": "{k=**}", "field": "f", "value": v, "implementation": impl_c, "aip_4222": spec}, "routing.newline_value"))
    return deferred


def load_corpus():
    """corpus/C06/*.json: former failing inputs (fixed upstream) that run first, so that a regression is reported."""
    d = os.path.join(env.VERIF, "corpus", "C06")
    e2e, pure, ads = [], {}, []
    for f in sorted(os.listdir(d)) if os.path.isdir(d) else []:
        if not f.endswith(".json"):
            continue
        c = json.load(open(os.path.join(d, f)))
        if c.get("kind") == "e2e":
            for m in c["methods"]:
                m["params"] = [tuple(p) for p in m["params"]]
                m["http"] = tuple(m["http"])
            if c.get("requests"):
                for m in c["methods"]:
                    m["requests"] = c["requests"]
            e2e.append(c["methods"])
        elif c.get("kind") == "pure":
            pure.setdefault(c["template"], []).extend(c.get("values", []))
        elif c.get("kind") == "ads":
            for m in c["methods"]:
                m["params"] = [tuple(p) for p in m["params"]]
                m["http"] = tuple(m["http"])
            ads.append(c["methods"])
    return e2e, pure, ads


# ====================================================================== entry points
def regen(ctx):
    # RESERVED_NAMES first and on its own: the implementation-side stages need nothing else from T0
    ctx.notes["t0"] = {"RESERVED_NAMES": c06_t0.reserved_names()}
    ctx.notes["t0"] = c06_t0.write_gen()
    ctx.oblige("T0 Gen/RoutingGen.v regenerated from wrappers.py / reserved_names.py with ast (regex-builder constants, field_headers "
               "regex, verb order, disambiguated expression, RESERVED_NAMES); pinned by C06_pin_* and re-checked by C06_reserved_no_dot",
               True, f"{len(ctx.notes['t0']['RESERVED_NAMES'])} reserved names", "T0")


def corpus_methods():
    """Fixed APIs that run first: reserved-word routing fields (section 9 nos. 1, 2), shared keys, nested fields."""
    a = [
        {"name": "RouteA", "kind": "explicit", "params": [("class", None), ("sub.class", "{k=*}"), ("type", "{routing_id=**}"), ("sub.inner.class", None)],
         "http": ("post", "/v1/a:route"), "body": "*"},
        {"name": "RouteB", "kind": "implicit", "params": [], "http": ("get", "/v1/{class=*}/x/{sub.class=shelves/*}/{sub.type}"), "body": None,
         "vars": ["class", "sub.class", "sub.type"]},
        {"name": "RouteC", "kind": "explicit", "params": [("app_profile_id", None), ("table_name", "{routing_id=projects/*}/**"),
                                                          ("table_name", "projects/*/{routing_id=instances/*}/**"), ("name", "{routing_id=regions/*}/**")],
         "http": ("post", "/v1/c:route"), "body": "*"},
        {"name": "RouteD", "kind": "explicit", "params": [], "http": ("post", "/v1/{name=**}:route"), "body": "*"},
        {"name": "RouteE", "kind": "none", "params": [], "http": ("post", "/v1/e:plain"), "body": "*"},
        {"name": "RouteK", "kind": "implicit", "params": [], "http": ("get", "/v1/{parent=shelves/*}/books"), "body": None, "vars": ["parent"], "paged": True,
         "requests": [{"parent": "shelves/s1"}]},
        {"name": "RouteL", "kind": "explicit", "params": [("table_name", "{routing_id=projects/*}/**"), ("app_profile_id", None)],
         "http": ("post", "/v1/l:list"), "body": "*", "paged": True, "requests": [{"table_name": "projects/p1/tables/t", "app_profile_id": "a b"}]},
        {"name": "RouteM", "kind": "explicit", "params": [("table_name", "{routing_id=projects/*}/**"), ("table_name", "{routing_id=projects/*/instances/*}/**"),
                                                          ("table_name", "{routing_id=projects/*}/**")],
         "http": ("post", "/v1/m:relisted"), "body": "*", "requests": [{"table_name": "projects/p1/instances/i1/tables/t1"}, {"table_name": "projects/p1"}]},
        {"name": "RouteN", "kind": "implicit", "params": [], "http": ("get", "/v1/{parent=projects/*}/clients/{oauth2_client_id}"), "body": None,
         "vars": ["parent", "oauth2_client_id"], "requests": [{"parent": "projects/p1", "oauth2_client_id": "c-1"}]},
        {"name": "RouteO", "kind": "implicit", "params": [], "http": ("post", "/v1/{v2.name=shelves/*}/x/{sub.isbn13}/{sub.inner.ipv4_range=**}"), "body": "*",
         "vars": ["v2.name", "sub.isbn13", "sub.inner.ipv4_range"], "requests": [{"v2.name": "shelves/s1", "sub.isbn13": "978", "sub.inner.ipv4_range": "10.0.0.0/8"}]},
        {"name": "RouteP", "kind": "explicit", "params": [("name_v2", "{k2=*}"), ("v2.inner.ipv4_range", None)], "http": ("post", "/v1/p:route"), "body": "*",
         "requests": [{"name_v2": "n", "v2.inner.ipv4_range": "10.0.0.0/8"}]},
        {"name": "RouteI", "kind": "implicit", "params": [], "http": ("custom", "/v1/{name=things/*}"), "body": None, "vars": ["name"]},
        {"name": "RouteJ", "kind": "implicit", "params": [], "http": ("custom", "/v1/{sub.name=shelves/*}/x/{sub.class}"), "body": None,
         "vars": ["sub.name", "sub.class"], "custom_kind": "OPTIONS"},
        {"name": "RouteG", "kind": "implicit", "params": [], "http": ("post", "/v1/{name=**}:up"), "body": "*", "vars": ["name"], "cs": True},
        {"name": "RouteH", "kind": "explicit", "params": [("name", "{k=**}"), ("parent", None)], "http": ("post", "/v1/h:up"), "body": "*", "cs": True},
        {"name": "RouteF", "kind": "explicit", "params": [("name", "x/{k=**}"), ("parent", "{k}"), ("resource", "a.b/{j=b/*/c+d}/d/*")],
         "http": ("post", "/v1/f:route"), "body": "*"},
    ]
    return [a]


def flush(ctx, deferred):
    seen = set()
    for what, case, sig in deferred:
        if sig in seen:
            continue
        seen.add(sig)
        ctx.violation(what, case, sig)


def run(ctx):
    # the oracle and the end-to-end stages run whatever happened to T0 and to the Coq build
    if not ctx.notes.get("t0", {}).get("RESERVED_NAMES"):
        ctx.notes["t0"] = {"RESERVED_NAMES": c06_t0.reserved_names()}
    reserved = set(ctx.notes["t0"]["RESERVED_NAMES"])
    deferred = []
    # corpus first: the in-code API and corpus/C06/*.json (former findings, fixed upstream)
    c_e2e, c_pure, c_ads = load_corpus()
    fixed = corpus_methods() + c_e2e
    _, d = run_e2e(ctx, len(fixed), ctx.n(2, 4), reserved, tag="corpus", fixed=fixed, sequences=ctx.n(2, 4))
    deferred += d
    templates = list(c_pure) + list(G.CORPUS_TEMPLATES)
    for i in range(ctx.n(70, 900)):
        r = env.rng("C06-tmpl", i)
        templates.append(G.gen_class_template(r) if r.random() < 0.65 else G.gen_offclass_template(r))
    _, d = run_pure(ctx, templates, ctx.n(3, 5), extra=c_pure)
    deferred += d
    _, d = run_e2e(ctx, ctx.n(4, 60), ctx.n(3, 5), reserved, sequences=ctx.n(1, 3))
    deferred += d
    deferred += run_ads(ctx, reserved)
    for k, ms in enumerate(c_ads):           # corpus/C06: former finding routing.ads_ignores_explicit (fixed by eec5aba)
        deferred += run_ads(ctx, reserved, methods=ms, tag=f"adscorpus{k}")
    deferred += run_witnesses(ctx)
    flush(ctx, deferred)          # known finding classes last, one per signature


def replay(ctx, rep):
    c = rep.get("case", {})
    reserved = set(c06_t0.reserved_names())
    if not ctx.notes.get("t0", {}).get("RESERVED_NAMES"):
        ctx.notes["t0"] = {"RESERVED_NAMES": sorted(reserved)}
    deferred = []
    if "template" in c and "methods" not in c:
        _, deferred = run_pure(ctx, [c["template"]], 4, tag="replay")
        # the recorded value itself
        out = gen.impl("routing", {"templates": [{"template": c["template"], "field": c.get("field", "fld"), "values": [c.get("value", "")]}]})
        print("replay:", json.dumps({"template": c["template"], "value": c.get("value"), "implementation": out["templates"][0],
                                     "aip_4222": G.aip_contribution(G.parse_template(c["template"]), c.get("value", "")) if G.parse_template(c["template"]) else None}))
    elif "methods" in c and c.get("ads"):
        deferred = run_ads(ctx, reserved, methods=c["methods"], tag="adsreplay")
    elif "methods" in c:
        _, deferred = run_e2e(ctx, 1, 4, reserved, tag="replay", fixed=[c["methods"]], sequences=4)
    elif "uri" in c:
        out = gen.impl("routing", {"https": [c.get("verbs") or {"get": c["uri"]}]})
        print("replay:", json.dumps(out["https"]))
    else:
        run(ctx)
        return
    flush(ctx, deferred)


def search(ctx, broken):
    """A correspondence broke without an oracle failure: look harder around it (more templates, more values, more APIs)."""
    reserved = set(c06_t0.reserved_names())
    templates = [G.gen_class_template(env.rng("C06-search", i)) for i in range(ctx.n(80, 300))]
    run_pure(ctx, templates, 5, tag="search")
    run_e2e(ctx, ctx.n(5, 12), 4, reserved, tag="search", sequences=2)
