"""Shared helpers of the C05 / C03 checks (owned by those two checks; not a shared harness file).

 * descriptor index independent of /repo (messages, fields, services, methods, method signatures)
 * synthesis of <pkg>/<file>_pb2.py modules for dependency files (no protoc in the sandbox)
 * materialising an emitted library into a scratch tree and running gv.impl.calldrive on it
"""
import importlib.util, json, os, re, base64
from google.protobuf import descriptor_pb2 as dp
from google.api import client_pb2
from .. import env, gen, apigen

F = dp.FieldDescriptorProto
EMPTY = ".google.protobuf.Empty"


# ------------------------------------------------------------------ descriptor index
class Index:
    """Plain view of a CodeGeneratorRequest's descriptors (no gapic code involved)."""

    def __init__(self, req):
        self.req = req
        self.msgs = {}        # ".pkg.Msg" -> (DescriptorProto, file proto, top_level: bool)
        self.enums = {}       # ".pkg.Enum" -> file proto
        self.files = {fp.name: fp for fp in req.proto_file}
        for fp in req.proto_file:
            pre = "." + fp.package if fp.package else ""
            for e in fp.enum_type:
                self.enums[f"{pre}.{e.name}"] = fp
            for m in fp.message_type:
                self._walk(pre, m, fp, True)
        gen_pkgs = [fp.package for fp in req.proto_file if fp.name in req.file_to_generate]
        self.api_package = os.path.commonprefix(gen_pkgs).rstrip(".")
        self.proto_plus_deps = []
        for part in req.parameter.split(","):
            if part.startswith("proto-plus-deps="):
                self.proto_plus_deps = [x for x in part.split("=", 1)[1].split("+") if x]

    def _walk(self, pre, m, fp, top):
        fqn = f"{pre}.{m.name}"
        self.msgs[fqn] = (m, fp, top)
        for e in m.enum_type:
            self.enums[f"{fqn}.{e.name}"] = fp
        for n in m.nested_type:
            self._walk(fqn, n, fp, False)

    def is_map_entry(self, type_name):
        m = self.msgs.get(type_name)
        return bool(m and m[0].options.map_entry)

    def package_of(self, fqn):
        return self.msgs[fqn][1].package

    def proto_plus_pkg(self, pkg):
        # metadata.Address.is_proto_plus_type: a *string* prefix test, or membership in the proto-plus-deps option
        return pkg.startswith(self.api_package) or pkg in self.proto_plus_deps

    def services(self):
        for fp in self.req.proto_file:
            if fp.name in self.req.file_to_generate:
                for s in fp.service:
                    yield fp, s

    @staticmethod
    def signatures(method_pb):
        return list(method_pb.options.Extensions[client_pb2.method_signature])


def snake(s):
    """Independent re-statement of the snake-casing of RPC names used for method and module names
    (lower-case, underscore before an upper-case letter that follows a lower-case letter or digit, or that precedes a lower-case letter)."""
    s = re.sub(r"(?<=[a-z0-9])([A-Z])", r"_\1", s)
    s = re.sub(r"(?<=[A-Z])([A-Z][a-z])", r"_\1", s)
    return s.lower()


# ------------------------------------------------------------------ pb2 synthesis
def module_of(file_name):
    return file_name[:-len(".proto")].replace("/", ".") + "_pb2"


def importable(mod):
    try:
        return importlib.util.find_spec(mod) is not None
    except (ImportError, ValueError, ModuleNotFoundError):
        return False


def write_dep_pb2(req, root, idx=None):
    """Write <pkg>/<file>_pb2.py for every dependency file that is neither generated (proto-plus) nor installed."""
    idx = idx or Index(req)
    written = []
    for fp in req.proto_file:
        if fp.name in req.file_to_generate or idx.proto_plus_pkg(fp.package):
            continue
        mod = module_of(fp.name)
        if importable(mod):
            continue
        path = os.path.join(root, fp.name[:-len(".proto")] + "_pb2.py")
        os.makedirs(os.path.dirname(path), exist_ok=True)
        lines = ["# synthesised by the verification harness (what protoc --python_out would emit)",
                 "from google.protobuf import descriptor_pool as _descriptor_pool",
                 "from google.protobuf.internal import builder as _builder"]
        for d in fp.dependency:
            lines.append(f"import {module_of(d)}  # noqa")
        lines += [f"DESCRIPTOR = _descriptor_pool.Default().AddSerializedFile({fp.SerializeToString()!r})",
                  "_globals = globals()",
                  "_builder.BuildMessageAndEnumDescriptors(DESCRIPTOR, _globals)",
                  f"_builder.BuildTopDescriptorsAndMessages(DESCRIPTOR, {mod!r}, _globals)"]
        with open(path, "w") as f:
            f.write("\n".join(lines) + "\n")
        written.append(path)
    return written


def materialise(req, res, tag):
    root = gen.case_dir(tag)
    gen.materialize(res, root)
    write_dep_pb2(req, root)
    return root


class HarnessError(Exception):
    """the driver itself (child process, loopback server, bookkeeping) misbehaved: nothing can be concluded about /repo"""


def drive(root, package, calls, timeout=1800, attempts=2):
    """Run the calls in one child. The answer is checked for completeness (one result per spec, in order; every server record
    attributed to a spec; a successful call has a result); an incomplete answer or a crashed child is a harness error: retried
    once, then raised as HarnessError (reported as such, never as a model mismatch). Anomalies are logged with the raw answer."""
    last = None
    for attempt in range(attempts):
        raw = None
        try:
            raw = gen.impl("calldrive", {"root": root, "package": package, "calls": calls}, timeout=timeout)
            results, h = raw["results"], raw["harness"]
            problems = []
            if [r.get("id") for r in results] != [c.get("id") for c in calls]:
                problems.append(f"{len(results)} results for {len(calls)} specs, or in another order")
            if h.get("unattributed"):
                problems.append(f"server records without a call id: {h['unattributed'][:2]}")
            if h.get("unknown_ids"):
                problems.append(f"server records for unknown call ids: {h['unknown_ids']}")
            for r, c in zip(results, calls):
                if r.get("ok") and "result" not in r and not c.get("no_call"):
                    problems.append(f"call {r.get('id')} succeeded without a result")
                if "calls" not in r:
                    problems.append(f"call {r.get('id')} has no server-side record list")
            if not problems:
                return results
            last = "; ".join(problems[:4])
        except Exception as e:  # noqa  child crashed, timed out, or printed no JSON
            last = f"{type(e).__name__}: {str(e)[-700:]}"
        try:
            os.makedirs(os.path.join(env.VERIF, "scratch"), exist_ok=True)
            with open(os.path.join(env.VERIF, "scratch", "harness_anomalies.log"), "a") as f:
                f.write(json.dumps({"attempt": attempt, "package": package, "n_calls": len(calls), "problem": last,
                                    "raw": json.dumps(raw)[:20000] if raw is not None else None}) + "\n")
        except OSError:
            pass
    raise HarnessError(f"driver answer incomplete after {attempts} attempts: {last}")


def b64(m):
    return base64.b64encode(m.SerializeToString(deterministic=True)).decode()


# ------------------------------------------------------------------ T1: emitted client methods read with ast (fail-closed)
import ast


class Shape(Exception):
    """The emitted code no longer has the shape the extractor (and hence the model's IR) knows."""


def _chain(node):
    """request.a.b -> 'a.b' (rooted at Name 'request'); anything else raises."""
    parts = []
    while isinstance(node, ast.Attribute):
        parts.append(node.attr)
        node = node.value
    if not (isinstance(node, ast.Name) and node.id == "request") or not parts:
        raise Shape("assignment target is not an attribute chain of request")
    return ".".join(reversed(parts))


def _app(node):
    if not isinstance(node, ast.If) or node.orelse or len(node.body) != 1:
        raise Shape("application is not a single-statement if without else: " + ast.unparse(node)[:120])
    t = node.test
    if isinstance(t, ast.Name):
        guard, p = "GTruthy", t.id
    elif (isinstance(t, ast.Compare) and isinstance(t.left, ast.Name) and len(t.ops) == 1 and isinstance(t.ops[0], ast.IsNot)
          and isinstance(t.comparators[0], ast.Constant) and t.comparators[0].value is None):
        guard, p = "GNotNone", t.left.id
    else:
        raise Shape("unknown guard: " + ast.unparse(t))
    s = node.body[0]
    if isinstance(s, ast.Assign) and len(s.targets) == 1 and isinstance(s.value, ast.Name):
        act, key, v = "Assign", _chain(s.targets[0]), s.value.id
    elif (isinstance(s, ast.Expr) and isinstance(s.value, ast.Call) and isinstance(s.value.func, ast.Attribute)
          and s.value.func.attr in ("extend", "update") and len(s.value.args) == 1 and not s.value.keywords
          and isinstance(s.value.args[0], ast.Name)):
        act, key, v = s.value.func.attr.capitalize(), _chain(s.value.func.value), s.value.args[0].id
    else:
        raise Shape("unknown application statement: " + ast.unparse(s)[:120])
    if v != p:
        raise Shape(f"guard tests {p} but the statement uses {v}")
    return {"param": p, "key": key, "guard": guard, "act": act}


def _is_request_assign(s):
    return isinstance(s, ast.Assign) and len(s.targets) == 1 and isinstance(s.targets[0], ast.Name) and s.targets[0].id == "request" \
        and isinstance(s.value, ast.Call)


def _coercion(node):
    """-> (kind, cls, ctor_kwargs, apps inside the fresh branch)"""
    if not isinstance(node, ast.If):
        raise Shape("coercion is not an if")
    t = ast.unparse(node.test)
    if t.startswith("not isinstance(request, ") and not node.orelse:
        cls = t[len("not isinstance(request, "):-1]
        if not node.body or not _is_request_assign(node.body[0]) or ast.unparse(node.body[0].value) != f"{cls}(request)":
            raise Shape("same-package coercion body: " + ast.unparse(node.body[0])[:120])
        return "SSame", cls, None, [_app(x) for x in node.body[1:]]
    if t == "isinstance(request, dict)":
        if len(node.body) != 1 or not _is_request_assign(node.body[0]):
            raise Shape("dict branch: " + ast.unparse(node)[:160])
        call = node.body[0].value
        cls = ast.unparse(call.func)
        if ast.unparse(call) != f"{cls}(**request)":
            raise Shape("dict branch does not expand the dict: " + ast.unparse(call))
        if not node.orelse:
            return "SDictOnly", cls, None, []      # mixin and legacy IAM methods: only a dict is coerced
        if len(node.orelse) != 1 or not isinstance(node.orelse[0], ast.If) or ast.unparse(node.orelse[0].test) != "not request" \
                or node.orelse[0].orelse:
            raise Shape("missing 'elif not request' branch")
        body = node.orelse[0].body
        if not body or not _is_request_assign(body[0]) or ast.unparse(body[0].value.func) != cls or body[0].value.args:
            raise Shape("null-request branch: " + ast.unparse(node.orelse[0])[:160])
        kws = []
        for k in body[0].value.keywords:
            if k.arg is None or not isinstance(k.value, ast.Name):
                raise Shape("constructor keyword is not name=name")
            kws.append([k.arg, k.value.id])
        apps = [_app(x) for x in body[1:]]
        if kws:
            return "SCrossCtor", cls, kws, apps
        return "SCross", cls, None, apps
    raise Shape("unknown coercion test: " + t)


GUARD_TEST = "request is not None and has_flattened_params"
HAS_EXPR = "len([param for param in flattened_params if param is not None]) > 0"
TAIL_ARGS = ["retry", "timeout", "metadata"]


def _lookup(stmt):
    """rpc = <table>[<transport>.<key>]  |  rpc = gapic_v1.method.wrap_method(<transport>.<key>, ...)"""
    v = stmt.value
    if isinstance(v, ast.Subscript) and isinstance(v.slice, ast.Attribute):
        return {"form": "table", "table": ast.unparse(v.value), "holder": ast.unparse(v.slice.value), "key": v.slice.attr}
    if isinstance(v, ast.Call) and ast.unparse(v.func).endswith("wrap_method") and v.args and isinstance(v.args[0], ast.Attribute):
        return {"form": "direct", "table": None, "holder": ast.unparse(v.args[0].value), "key": v.args[0].attr}
    raise Shape("rpc is not looked up in a known way: " + ast.unparse(stmt)[:160])


def _method_ir(fn):
    rec = {"async_def": isinstance(fn, ast.AsyncFunctionDef), "pos": [a.arg for a in fn.args.args],
           "kwonly": [a.arg for a in fn.args.kwonlyargs], "returns": ast.unparse(fn.returns) if fn.returns else None,
           "vararg": fn.args.vararg is not None or fn.args.kwarg is not None}
    body = list(fn.body)
    if body and isinstance(body[0], ast.Expr) and isinstance(body[0].value, ast.Constant) and isinstance(body[0].value.value, str):
        body = body[1:]
    if body and isinstance(body[0], ast.Expr) and ast.unparse(body[0]).startswith("warnings.warn("):
        rec["deprecated_warning"] = True
        body = body[1:]
    i = next((k for k, s in enumerate(body) if isinstance(s, ast.Assign) and len(s.targets) == 1
              and isinstance(s.targets[0], ast.Name) and s.targets[0].id == "rpc"), None)
    if i is None:
        raise Shape("no 'rpc = ...' statement")
    pre, rest = body[:i], body[i + 1:]
    rec["lookup"] = _lookup(body[i])
    # ---- before the lookup: guard, coercion, applications
    guard = None
    if pre and isinstance(pre[0], ast.Assign) and ast.unparse(pre[0].targets[0]) == "flattened_params":
        if not isinstance(pre[0].value, ast.List) or not all(isinstance(e, ast.Name) for e in pre[0].value.elts):
            raise Shape("flattened_params is not a list of names")
        guard = [e.id for e in pre[0].value.elts]
        if len(pre) < 3 or ast.unparse(pre[1]) != "has_flattened_params = " + HAS_EXPR:
            raise Shape("has_flattened_params: " + (ast.unparse(pre[1])[:160] if len(pre) > 1 else "missing"))
        g = pre[2]
        if not (isinstance(g, ast.If) and ast.unparse(g.test) == GUARD_TEST and not g.orelse and len(g.body) == 1
                and isinstance(g.body[0], ast.Raise) and isinstance(g.body[0].exc, ast.Call)
                and ast.unparse(g.body[0].exc.func) == "ValueError"):
            raise Shape("mutual-exclusion check: " + ast.unparse(g)[:200])
        pre = pre[3:]
    rec["guard"] = guard
    if pre:
        kind, cls, kws, inner = _coercion(pre[0])
        top = [_app(x) for x in pre[1:]]
        if inner and top:
            raise Shape("applications both inside and after the coercion")
        rec.update({"coerce": kind, "request_class": cls, "ctor": kws, "apps": inner or top,
                    "place": "PInFresh" if inner else "PTop"})
    else:
        rec.update({"coerce": None, "request_class": None, "ctor": None, "apps": [], "place": "PTop"})
    # ---- after the lookup: metadata, validation, the call, wrappers, return
    call, wrappers, returns, other = None, [], None, []
    flat = []
    for s in rest:
        if isinstance(s, ast.Try):            # the mixin methods wrap the call in try/except to annotate auth errors
            flat.extend(s.body)
        else:
            flat.append(s)
    for s in flat:
        u = ast.unparse(s)
        val = s.value if isinstance(s, (ast.Assign, ast.Expr)) else None
        awaited = isinstance(val, ast.Await)
        c = val.value if awaited else val
        if isinstance(c, ast.Call) and isinstance(c.func, ast.Name) and c.func.id == "rpc":
            if call is not None:
                raise Shape("rpc called twice")
            call = {"awaited": awaited, "assigned": isinstance(s, ast.Assign) and ast.unparse(s.targets[0]) == "response",
                    "args": [ast.unparse(a) for a in c.args], "kwargs": [[k.arg, ast.unparse(k.value)] for k in c.keywords]}
        elif isinstance(s, ast.Return):
            returns = ast.unparse(s.value) if s.value else "None"
        elif isinstance(s, ast.Assign) and ast.unparse(s.targets[0]) == "response":
            wrappers.append(ast.unparse(val.func) if isinstance(val, ast.Call) else u[:80])
        else:
            other.append(u[:200])
    if call is None:
        raise Shape("rpc is never called")
    rec.update({"call": call, "wrappers": wrappers, "returns_stmt": returns, "other": other})
    return rec


def extract_client(src, filename="<emitted>"):
    """{class name: {method name: IR}} for every public method of a client class that looks an rpc up.
    Raises SyntaxError when the module does not compile (compile, not only parse: duplicate arguments count)."""
    compile(src, filename, "exec")
    tree = ast.parse(src)
    out = {}
    for cls in [n for n in tree.body if isinstance(n, ast.ClassDef) and n.name.endswith("Client")]:
        ms = {}
        for fn in cls.body:
            if isinstance(fn, (ast.FunctionDef, ast.AsyncFunctionDef)) and not fn.name.startswith("__"):
                if any(isinstance(s, ast.Assign) and len(s.targets) == 1 and isinstance(s.targets[0], ast.Name) and s.targets[0].id == "rpc"
                       for s in fn.body):
                    try:
                        ir = _method_ir(fn)
                    except Shape as e:
                        ir = {"shape_error": str(e)}
                    if fn.name in ms:
                        ir["redefinition"] = True
                    ms[fn.name] = ir
        out[cls.name] = ms
    return out
