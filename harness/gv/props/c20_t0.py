"""C20 — T0 extractors: the regex literals and the textwrap keyword arguments the models were written against,
read from env.REPO with ast (fail-closed: anything not found where expected raises)."""
import ast, os
from .. import env, coq


class ExtractError(Exception):
    pass


def _parse(rel):
    p = os.path.join(env.REPO, rel)
    return ast.parse(open(p, encoding="utf-8").read(), filename=p)


def _func(tree, name):
    for n in tree.body:
        if isinstance(n, ast.FunctionDef) and n.name == name:
            return n
    raise ExtractError(f"function {name} not found")


def _calls(node, mod, attr):
    out = [c for c in ast.walk(node) if isinstance(c, ast.Call) and isinstance(c.func, ast.Attribute) and c.func.attr == attr
           and isinstance(c.func.value, ast.Name) and c.func.value.id == mod]
    return sorted(out, key=lambda c: (c.lineno, c.col_offset))


def _const_str(n, what):
    if isinstance(n, ast.Constant) and isinstance(n.value, str):
        return n.value
    if isinstance(n, ast.Name):
        return "$" + n.id
    raise ExtractError(f"{what}: not a string literal: {ast.dump(n)[:80]}")


def _kwargs(call):
    return sorted((k.arg or "**", ast.unparse(k.value)) for k in call.keywords)


def extract():
    f = _func(_parse("gapic/generator/formatter.py"), "fix_whitespace")
    subs = [(_const_str(c.args[0], "re.sub pattern"), _const_str(c.args[1], "re.sub replacement")) for c in _calls(f, "re", "sub")]
    if not subs:
        raise ExtractError("no re.sub call in fix_whitespace")
    lt = _parse("gapic/utils/lines.py")
    numbered = None
    for n in lt.body:
        if isinstance(n, ast.Assign) and any(isinstance(t, ast.Name) and t.id == "NUMBERED_LIST_REGEX" for t in n.targets):
            numbered = _const_str(n.value, "NUMBERED_LIST_REGEX")
    if numbered is None:
        raise ExtractError("NUMBERED_LIST_REGEX not found")
    w = _func(lt, "wrap")
    wsubs = [(_const_str(c.args[0], "wrap re.sub pattern"), _const_str(c.args[1], "wrap re.sub replacement")) for c in _calls(w, "re", "sub")]
    tw_wrap = [_kwargs(c) for c in _calls(w, "textwrap", "wrap")]
    tw_fill = [_kwargs(c) for c in _calls(w, "textwrap", "fill")]
    if len(tw_wrap) != 1 or len(tw_fill) != 1:
        raise ExtractError(f"expected one textwrap.wrap and one textwrap.fill call in wrap, found {len(tw_wrap)}/{len(tw_fill)}")
    def method_calls(node, attr):
        out = [c for c in ast.walk(node) if isinstance(c, ast.Call) and isinstance(c.func, ast.Attribute) and c.func.attr == attr]
        return sorted(out, key=lambda c: (c.lineno, c.col_offset))

    # the prologue of wrap: text.expandtabs().lstrip(<blanks>)
    prologue = [[ast.unparse(a) for a in c.args] for c in method_calls(w, "expandtabs")] + \
               [[_const_str(a, "lstrip argument") for a in c.args] for c in method_calls(w, "lstrip")]
    consts = sorted({repr(n.value) for n in ast.walk(w) if isinstance(n, ast.Constant) and isinstance(n.value, (int, float)) and not isinstance(n.value, bool)})
    r = _func(_parse("gapic/utils/rst.py"), "rst")
    searches = [_const_str(c.args[0], "rst re.search pattern") for c in _calls(r, "re", "search")]
    rwrap = [_kwargs(c) for c in ast.walk(r) if isinstance(c, ast.Call) and isinstance(c.func, ast.Name) and c.func.id == "wrap"]
    if len(searches) != 1 or len(rwrap) != 1:
        raise ExtractError("rst: expected one re.search and one wrap call")
    # the tail of rst: str.replace calls with literal arguments, endswith tests, and what is appended
    rst_replaces = [(c.args[0].value, c.args[1].value) for c in method_calls(r, "replace")
                    if len(c.args) == 2 and all(isinstance(a, ast.Constant) and isinstance(a.value, str) for a in c.args)]
    rst_endswith = [_const_str(c.args[0], "endswith argument") for c in method_calls(r, "endswith")]
    rst_appends = [ast.unparse(n.value) for n in sorted((n for n in ast.walk(r) if isinstance(n, ast.AugAssign)), key=lambda n: n.lineno)]
    return {"fw_subs": subs, "numbered": numbered, "wrap_subs": wsubs, "tw_wrap": tw_wrap[0], "tw_fill": tw_fill[0],
            "wrap_numbers": consts, "rst_search": searches[0], "rst_wrap": rwrap[0], "wrap_prologue": prologue,
            "rst_replaces": rst_replaces, "rst_endswith": rst_endswith, "rst_appends": rst_appends}


def write_gen():
    x = extract()
    pl = lambda l: coq.lst(f"({coq.s(a)}, {coq.s(b)})" for a, b in l)
    text = ("(* regenerated on every run (T0) from gapic/generator/formatter.py, gapic/utils/lines.py, gapic/utils/rst.py *)\n"
            "From GV Require Import Base.Str.\n"
            f"Definition fw_subs : list (string * string) := {pl(x['fw_subs'])}.\n"
            f"Definition numbered_list_regex : string := {coq.s(x['numbered'])}.\n"
            f"Definition wrap_subs : list (string * string) := {pl(x['wrap_subs'])}.\n"
            f"Definition wrap_tw_wrap_kwargs : list (string * string) := {pl(x['tw_wrap'])}.\n"
            f"Definition wrap_tw_fill_kwargs : list (string * string) := {pl(x['tw_fill'])}.\n"
            f"Definition wrap_numbers : list string := {coq.slist(x['wrap_numbers'])}.\n"
            f"Definition rst_search_re : string := {coq.s(x['rst_search'])}.\n"
            f"Definition rst_wrap_kwargs : list (string * string) := {pl(x['rst_wrap'])}.\n"
            f"Definition wrap_prologue_calls : list (list string) := {coq.lst(coq.slist(a) for a in x['wrap_prologue'])}.\n"
            f"Definition rst_replaces : list (string * string) := {pl(x['rst_replaces'])}.\n"
            f"Definition rst_endswith : list string := {coq.slist(x['rst_endswith'])}.\n"
            f"Definition rst_appends : list string := {coq.slist(x['rst_appends'])}.\n")
    coq.write_gen("C20Lit", text)
    return x
