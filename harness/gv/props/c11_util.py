"""Helpers shared by props/c11.py and props/c15.py: fail-closed T0 extractors over env.REPO (ast / directory listing),
the Gen/CaseGen.v writer, and small descriptor utilities.  Nothing here imports gapic."""
import ast, os, subprocess, json
from .. import env, coq


class ExtractError(Exception):
    pass


def _parse(rel):
    path = os.path.join(env.REPO, rel)
    with open(path, encoding="utf-8") as f:
        return ast.parse(f.read(), filename=path)


def find_function(rel, qualname):
    """ast.FunctionDef for 'func' or 'Class.func' in env.REPO/rel (fail-closed)."""
    tree = _parse(rel)
    parts = qualname.split(".")
    body = tree.body
    node = None
    for i, p in enumerate(parts):
        node = next((n for n in body if isinstance(n, (ast.FunctionDef, ast.ClassDef)) and n.name == p), None)
        if node is None:
            raise ExtractError(f"{rel}: {qualname} not found")
        body = node.body
    if not isinstance(node, ast.FunctionDef):
        raise ExtractError(f"{rel}: {qualname} is not a function")
    return node


def string_constants(fn):
    """All str constants of a function body in source order, docstring excluded."""
    doc = ast.get_docstring(fn, clean=False)
    out = []
    for n in ast.walk(fn):
        if isinstance(n, ast.Constant) and isinstance(n.value, str) and n.value != doc:
            out.append((n.lineno, n.col_offset, n.value))
    return [v for _, _, v in sorted(out)]


def re_sub_literals(fn):
    """[(pattern, replacement)] of every re.sub(<str>, <str>, …) call of a function, in source order."""
    out = []
    for n in ast.walk(fn):
        if (isinstance(n, ast.Call) and isinstance(n.func, ast.Attribute) and n.func.attr == "sub"
                and isinstance(n.func.value, ast.Name) and n.func.value.id == "re" and len(n.args) >= 2
                and all(isinstance(a, ast.Constant) and isinstance(a.value, str) for a in n.args[:2])):
            out.append((n.lineno, n.col_offset, n.args[0].value, n.args[1].value))
    return [(p, r) for _, _, p, r in sorted(out)]


def module_assign(rel, name, cls=None):
    """The literal value assigned to NAME at module level (or inside class cls); frozenset([...])/frozenset((...)) unwrapped."""
    tree = _parse(rel)
    body = tree.body
    if cls:
        c = next((n for n in body if isinstance(n, ast.ClassDef) and n.name == cls), None)
        if c is None:
            raise ExtractError(f"{rel}: class {cls} not found")
        body = c.body
    for n in body:
        tgt = val = None
        if isinstance(n, ast.Assign) and len(n.targets) == 1 and isinstance(n.targets[0], ast.Name):
            tgt, val = n.targets[0].id, n.value
        elif isinstance(n, ast.AnnAssign) and isinstance(n.target, ast.Name) and n.value is not None:
            tgt, val = n.target.id, n.value
        if tgt == name:
            if isinstance(val, ast.Call) and isinstance(val.func, ast.Name) and val.func.id in ("frozenset", "set", "tuple", "list") and len(val.args) == 1:
                val = val.args[0]
            try:
                return ast.literal_eval(val)
            except Exception as e:  # noqa
                raise ExtractError(f"{rel}: {name} is not a literal: {e}")
    raise ExtractError(f"{rel}: assignment to {name} not found")


def list_templates(tree):
    """Relative paths of every file below env.REPO/gapic/<tree>, '/'-separated, sorted (what jinja2's FileSystemLoader lists)."""
    root = os.path.join(env.REPO, "gapic", tree)
    if not os.path.isdir(root):
        raise ExtractError(f"{root} is not a directory")
    out = []
    for d, _, files in os.walk(root, followlinks=True):
        for f in files:
            out.append(os.path.relpath(os.path.join(d, f), root).replace(os.sep, "/"))
    if not out:
        raise ExtractError(f"{root} is empty")
    return sorted(out)


def interpreter_kwlist():
    p = subprocess.run([env.PY, "-c", "import keyword, json; print(json.dumps(keyword.kwlist))"],
                       stdout=subprocess.PIPE, check=True, env=env.child_env())
    return json.loads(p.stdout.decode())


def case_gen_text():
    """Gen/CaseGen.v: the regex literals of case.py / filename.py (pinned by Proofs/Case.v)."""
    snake = find_function("gapic/utils/case.py", "to_snake_case")
    subs = re_sub_literals(snake)
    vf = find_function("gapic/utils/filename.py", "to_valid_filename")
    vsubs = re_sub_literals(vf)
    vm = find_function("gapic/utils/filename.py", "to_valid_module_name")
    vm_consts = string_constants(vm)
    lines = ["(* regenerated from gapic/utils/case.py and gapic/utils/filename.py on every run (T0) *)",
             "From GV Require Import Base.Str.",
             f"Definition snake_subs : list (string * string) := {coq.pairs(subs)}.",
             f"Definition valid_filename_subs : list (string * string) := {coq.pairs(vsubs)}.",
             f"Definition valid_module_consts : list string := {coq.slist(vm_consts)}.", ""]
    return "\n".join(lines)


def write_case_gen():
    return coq.write_gen("CaseGen", case_gen_text())


def c11_gen_text():
    """Gen/C11Gen.v: template lists, option constants, kwlist and the literals of the modelled functions."""
    G = "gapic/generator/generator.py"
    consts = {
        "get_filename_consts": string_constants(find_function(G, "Generator._get_filename")),
        "render_template_consts": [c for c in string_constants(find_function(G, "Generator._render_template")) if len(c) < 40],
        "desired_transport_consts": string_constants(find_function(G, "Generator._is_desired_transport")),
        "get_file_consts": string_constants(find_function(G, "Generator._get_file")),
        "get_response_consts": string_constants(find_function(G, "Generator.get_response")),
        "naming_build_consts": [c for c in string_constants(find_function("gapic/schema/naming.py", "Naming.build")) if len(c) < 90],
        "options_build_consts": [c for c in string_constants(find_function("gapic/utils/options.py", "Options.build")) if len(c) < 40],
        "generate_consts": string_constants(find_function("gapic/cli/generate.py", "generate")),
    }
    build = find_function("gapic/schema/api.py", "API.build")
    extra = None
    for n in ast.walk(build):
        if isinstance(n, ast.Assign) and len(n.targets) == 1 and isinstance(n.targets[0], ast.Name) and n.targets[0].id == "invalid_module_names":
            sets = [x for x in ast.walk(n.value) if isinstance(x, ast.Set)]
            if len(sets) == 1:
                extra = [ast.literal_eval(e) for e in sets[0].elts]
    if extra is None:
        raise ExtractError("API.build: invalid_module_names not found")
    san = [n for n in ast.walk(build) if isinstance(n, ast.FunctionDef) and n.name == "disambiguate_keyword_sanitize_fname"]
    if len(san) != 1:
        raise ExtractError("API.build: disambiguate_keyword_sanitize_fname not found")
    sanitize_consts = string_constants(san[0])
    sanitize_tests = [ast.unparse(n.test) for n in ast.walk(san[0]) if isinstance(n, ast.If)]
    # the file_to_generate test of API.build: <x>.package.startswith(package)
    ftg = [ast.unparse(k.value) for n in ast.walk(build) if isinstance(n, ast.Call) for k in n.keywords if k.arg == "file_to_generate"]
    ob = find_function("gapic/utils/options.py", "Options.build")
    eq_splits = [n for n in ast.walk(ob) if isinstance(n, ast.Call) and isinstance(n.func, ast.Attribute) and n.func.attr == "split"
                 and n.args and isinstance(n.args[0], ast.Constant) and n.args[0].value == "="]
    if len(eq_splits) != 1 or eq_splits[0].keywords:
        raise ExtractError("Options.build: expected exactly one opt.split('=' ...) call")
    a = eq_splits[0].args
    if len(a) == 1:
        split_first = False
    elif len(a) == 2 and isinstance(a[1], ast.Constant) and a[1].value == 1:
        split_first = True
    else:
        raise ExtractError("Options.build: unexpected arguments of opt.split('=' ...)")
    inpk = [n for n in ast.walk(build) if isinstance(n, ast.FunctionDef) and n.name == "in_package"]
    if len(inpk) != 1 or not isinstance(inpk[0].body[-1], ast.Return):
        raise ExtractError("API.build: nested function in_package not found")
    in_package_src = ast.unparse(inpk[0].body[-1].value)
    subp = find_function("gapic/schema/api.py", "API.subpackages")
    subp_elts = [ast.unparse(n.elt) for n in ast.walk(subp) if isinstance(n, ast.SetComp)]
    def assigned(fn, name):
        vals = [ast.unparse(n.value) for n in ast.walk(fn) if isinstance(n, ast.Assign) and len(n.targets) == 1
                and isinstance(n.targets[0], ast.Name) and n.targets[0].id == name]
        if len(vals) != 1:
            raise ExtractError(f"{fn.name}: expected one assignment to {name}")
        return vals[0]
    package_exprs = [assigned(find_function("gapic/cli/generate.py", "generate"), "package"),
                     assigned(find_function("gapic/schema/naming.py", "Naming.build"), "root_package")]
    # utils.empty (one return expression) and the drop test of Generator._get_file (Model/Empty.v)
    emp = find_function("gapic/utils/code.py", "empty")
    emp_body = [n for n in emp.body if not (isinstance(n, ast.Expr) and isinstance(n.value, ast.Constant))]
    if len(emp_body) != 1 or not isinstance(emp_body[0], ast.Return):
        raise ExtractError("utils.code.empty: expected a single return statement")
    empty_src = ast.unparse(emp_body[0].value)
    gf = find_function(G, "Generator._get_file")
    drop_tests = [ast.unparse(n.test) for n in ast.walk(gf) if isinstance(n, ast.If)]
    content_exprs = [ast.unparse(k.value.func) for n in ast.walk(gf) if isinstance(n, ast.Call) for k in n.keywords
                     if k.arg == "content" and isinstance(k.value, ast.Call)]
    sample_name = module_assign("gapic/samplegen/samplegen.py", "DEFAULT_TEMPLATE_NAME")
    flags = sorted(module_assign("gapic/utils/options.py", "OPT_FLAGS", "Options"))
    prefix = module_assign("gapic/utils/options.py", "PYTHON_GAPIC_PREFIX", "Options")
    lines = ["(* regenerated from /repo on every run (T0): template trees, option constants, literals of the modelled functions *)",
             "From GV Require Import Base.Str.",
             f"Definition default_templates : list string := {coq.slist(list_templates('templates'))}.",
             f"Definition ads_templates : list string := {coq.slist(list_templates('ads-templates'))}.",
             f"Definition opt_flags : list string := {coq.slist(flags)}.",
             f"Definition gapic_prefix : string := {coq.s(prefix)}.",
             f"Definition opt_split_first : bool := {coq.b(split_first)}.",
             f"Definition kwlist : list string := {coq.slist(interpreter_kwlist())}.",
             f"Definition sample_template_name : string := {coq.s(sample_name)}.",
             f"Definition invalid_module_extra : list string := {coq.slist(sorted(extra))}.",
             f"Definition package_exprs : list string := {coq.slist(package_exprs)}.",
             f"Definition sanitize_consts : list string := {coq.slist(sanitize_consts)}.",
             f"Definition sanitize_tests : list string := {coq.slist(sanitize_tests)}.",
             f"Definition file_to_generate_exprs : list string := {coq.slist(ftg)}.",
             f"Definition in_package_src : string := {coq.s(in_package_src)}.",
             f"Definition subpackage_elts : list string := {coq.slist(subp_elts)}.",
             f"Definition empty_src : string := {coq.s(empty_src)}.",
             f"Definition get_file_tests : list string := {coq.slist(drop_tests)}.",
             f"Definition get_file_content_fns : list string := {coq.slist(content_exprs)}."]
    for k, v in consts.items():
        lines.append(f"Definition {k} : list string := {coq.slist(v)}.")
    return "\n".join(lines) + "\n"


def write_c11_gen():
    return coq.write_gen("C11Gen", c11_gen_text())
