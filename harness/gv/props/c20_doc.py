"""C20 — end to end: comments in source_code_info -> emitted modules. Docstring safety and 'reaches the docstring intact'."""
import ast
from .. import apigen

PKG = "google.example.doc.v1"

# (id, description of the target, source_code_info path)
TARGETS = [
    ("message", [4, 0]), ("field", [4, 0, 2, 1]), ("request", [4, 1]), ("enum", [5, 0]), ("enum_value", [5, 0, 2, 1]),
    ("service", [6, 0]), ("method", [6, 0, 2, 0]),
    # one request message shared by a unary, a server-streaming, a client-streaming and a bidirectional rpc: its comment is
    # rendered into the "request (...)" / "requests (Iterator[...])" entry of each of the four method docstrings of both clients
    ("stream_request", [4, 2]),
    # a long-running rpc: the comment of its RESULT message is rendered into the Returns: section of the method docstrings of both
    # clients (its metadata message only into its own class); a paged rpc: the comment of its response message likewise
    ("lro_result", [4, 4]), ("lro_metadata", [4, 5]), ("paged_response", [4, 7]),
]
STREAM_METHODS = {"run_query": "unary", "watch_queries": "server-streaming", "upload_queries": "client-streaming", "chat_queries": "bidirectional"}

BENIGN = {
    "message": "A thing that the service keeps.\n It has a name and a note, and the note may be long enough to need wrapping when it is rendered.",
    "field": "The note attached to the thing: free text, at most 1024 characters.",
    "request": "Request to fetch one thing by name.",
    "enum": "What kind of thing this is.",
    "enum_value": "A big thing.",
    "service": "Keeps things.",
    "method": "Fetches a thing. Fails with NOT FOUND when there is none:\n the caller should then create it.",
    "stream_request": "The query to run, with its dialect; sent once, or as a stream of queries that the server answers in order.",
    "lro_result": "What an import produced: the number of things read and the names of those rejected.",
    "lro_metadata": "Progress of a running import.",
    "paged_response": "One page of things, with the token of the next page.",
}
BRACES = "docstring.braces_in_comment"

# hazard class -> comment texts
HAZARDS = {
    "docstring.triple_quote_in_comment": ['Use """triple quotes""" here.', 'See """.', '""" at the start', 'Quote: """', 'five """"" quotes', 'escaped \\""" already'],
    "docstring.trailing_backslash": ["Windows path C:\\", "Ends with three backslashes \\\\\\", "line one\nline two \\", "Ends with a backslash \\",
                                     "two \\\\", "four " + "\\" * 4, "five " + "\\" * 5, "six " + "\\" * 6, "several lines\nthen three \\\\\\", "several lines\nthen five " + "\\" * 5],
    "docstring.backslash_escape": ["Path C:\\users\\xavier", "Matches \\d+ and \\N{x", "Use \\u for unicode", "A newline is written \\n here"],
    BRACES: ["Use {ident} here, an empty {} pair, a set {{x}} literal, projects/{project}/things/{thing}, a lone { brace and a closing } one.",
             "The {ident} of the thing.", "An empty {} pair.", "A set {{x}} literal.", "Named projects/{project}/things/{thing}.", "A lone { brace.", "closing } only", "{0} and {doc}"],
    "docstring.quote_at_end": ['He said "hello"', "it's", "a 'single' one'", 'two ""'],
}


ADS_PARAMETER = "transport=grpc,python-gapic-templates=ads-templates,old-naming"
ADS_SIGNATURE = "docstring.ads_request_comment_unescaped"
ADS_SKIP = ("enum_value",)        # the ads enum template documents the enum only, not its values


def build(comments, ads=False):
    """comments: {target: text}. A one-service API with every documented kind of element."""
    f = apigen.File("google/example/doc/v1/doc.proto", PKG, deps=apigen.STD_DEPS)
    kind = f.enum("Kind", ["KIND_UNSPECIFIED", "BIG"])
    thing = f.message("Thing")
    thing.field("name", 1, "string").field("note", 2, "string").field("kind", 3, ("enum", kind))
    thing.resource("doc.example.com/Thing", ["things/{thing}"])
    req = f.message("GetThingRequest")
    req.field("name", 1, "string", required=True, ref="doc.example.com/Thing")
    svc = f.service("Docs", host="doc.example.com")
    svc.rpc("GetThing", req.fqn, thing.fqn, http=("get", "/v1/{name=things/*}"), sigs=["name"])
    q = f.message("Query")
    q.field("text", 1, "string").field("dialect", 2, "string")
    svc.rpc("RunQuery", q.fqn, thing.fqn, http=("post", "/v1/queries:run"), body="*")
    svc.rpc("WatchQueries", q.fqn, thing.fqn, ss=True, http=("post", "/v1/queries:watch"), body="*")
    svc.rpc("UploadQueries", q.fqn, thing.fqn, cs=True, http=("post", "/v1/queries:upload"), body="*")
    svc.rpc("ChatQueries", q.fqn, thing.fqn, cs=True, ss=True, http=("post", "/v1/queries:chat"), body="*")
    f.dep("google/longrunning/operations.proto")
    ireq = f.message("ImportThingsRequest")
    ireq.field("parent", 1, "string")
    ires = f.message("ImportResult")
    ires.field("read", 1, "int32").field("rejected", 2, "string", repeated=True)
    imeta = f.message("ImportMetadata")
    imeta.field("progress", 1, "int32")
    svc.rpc("ImportThings", ireq.fqn, ".google.longrunning.Operation", http=("post", "/v1/things:import"), body="*", lro=("ImportResult", "ImportMetadata"))
    lreq = f.message("ListThingsRequest")
    lreq.field("page_size", 1, "int32").field("page_token", 2, "string")
    lres = f.message("ListThingsResponse")
    lres.field("things", 1, thing.fqn, repeated=True).field("next_page_token", 2, "string")
    svc.rpc("ListThings", lreq.fqn, lres.fqn, http=("get", "/v1/things"))
    for tgt, path in TARGETS:
        c = comments.get(tgt)
        if c is None:
            continue
        if isinstance(c, str):
            f.comment(path, c)
        else:    # {"leading": str, "trailing": str, "detached": [str...]} — any subset, as protoc fills a Location
            loc = f.proto.source_code_info.location.add()
            loc.path.extend(path)
            loc.leading_comments = c.get("leading", "")
            loc.trailing_comments = c.get("trailing", "")
            loc.leading_detached_comments.extend(c.get("detached", []))
    return apigen.request([f], parameter=ADS_PARAMETER if ads else "transport=grpc+rest")


def expected_text(c):
    """The comment that documents an element (the property's 'comment selection', read independently of /repo): the leading
    comment, else the trailing one, else the detached ones (blank-line separated)."""
    if isinstance(c, str):
        return c
    if c.get("leading"):
        return c["leading"]
    if c.get("trailing"):
        return c["trailing"]
    return "\n\n".join(c.get("detached", []))


# where the comment of every element sits in the source: name -> {target: comment spec}
def placements():
    def lead(t):
        return " " + BENIGN[t].replace("\n", "\n ") + "\n"          # as protoc hands them over: one space after the slashes, final newline
    out = {"detached-only": {}, "trailing-only": {}, "leading+trailing": {}, "leading+detached": {}, "two-detached": {}, "trailing+detached": {}}
    for t, _ in TARGETS:
        out["detached-only"][t] = {"detached": [f" Detached note on the {t.replace('_', ' ')}: " + BENIGN[t].split("\n")[0] + "\n"]}
        out["trailing-only"][t] = {"trailing": f" Trailing note on the {t.replace('_', ' ')}: " + BENIGN[t].split("\n")[0] + "\n"}
        out["leading+trailing"][t] = {"leading": lead(t), "trailing": " an aside that is not the documentation\n"}
        out["leading+detached"][t] = {"leading": lead(t), "detached": [" a licence header far above\n"]}
        out["two-detached"][t] = {"detached": [f" First detached paragraph about the {t.replace('_', ' ')}.\n", " Second detached paragraph, kept after a blank line.\n"]}
        out["trailing+detached"][t] = {"trailing": f" Trailing words for the {t.replace('_', ' ')} win over detached ones.\n", "detached": [" section banner\n"]}
    return out


def parse_failures(files):
    """[(file, error)] for emitted Python modules that ast.parse rejects."""
    bad = []
    for name, src in sorted(files.items()):
        if not name.endswith(".py"):
            continue
        try:
            ast.parse(src)
        except SyntaxError as e:
            bad.append((name, f"{type(e).__name__}: {e.msg} (line {e.lineno})"))
        except ValueError as e:
            bad.append((name, f"ValueError: {e}"))
    return bad


def _sub(needle, hay):
    n = len(needle)
    return n == 0 or any(hay[i:i + n] == needle for i in range(len(hay) - n + 1))


def docstrings(files):
    """{target: [docstring...]} read with ast from the emitted modules (None when a module does not parse)."""
    out = {t: [] for t, _ in TARGETS}
    for name, src in files.items():
        if not name.endswith(".py") or "/tests/" in name or name.startswith("tests/") or "samples/" in name:
            continue
        try:
            tree = ast.parse(src)
        except (SyntaxError, ValueError):
            continue
        for n in ast.walk(tree):
            if isinstance(n, ast.ClassDef):
                d = ast.get_docstring(n, clean=False) or ""
                if n.name == "Thing":
                    out["message"].append(d)
                    out["field"].append(d)
                elif n.name == "GetThingRequest":
                    out["request"].append(d)
                elif n.name == "Query":
                    out["stream_request"].append(d)
                elif n.name in ("ImportResult", "ImportMetadata", "ListThingsResponse"):
                    out[{"ImportResult": "lro_result", "ImportMetadata": "lro_metadata", "ListThingsResponse": "paged_response"}[n.name]].append(d)
                elif n.name == "Kind":
                    out["enum"].append(d)
                    out["enum_value"].append(d)
                elif n.name in ("DocsClient", "DocsAsyncClient"):
                    out["service"].append(d)
                    for m in n.body:
                        if isinstance(m, (ast.FunctionDef, ast.AsyncFunctionDef)) and m.name == "get_thing":
                            out["method"].append(ast.get_docstring(m, clean=False) or "")
                            out["request"].append(ast.get_docstring(m, clean=False) or "")     # "request (...): The request object. <comment>"
                        if isinstance(m, (ast.FunctionDef, ast.AsyncFunctionDef)) and m.name in ("import_things", "list_things"):
                            md = ast.get_docstring(m, clean=False) or ""       # the Returns: section carries the result / response comment
                            out["lro_result" if m.name == "import_things" else "paged_response"].append(md[md.find("Returns:"):] if "Returns:" in md else "")
                        if isinstance(m, (ast.FunctionDef, ast.AsyncFunctionDef)) and m.name in STREAM_METHODS:
                            out["stream_request"].append(ast.get_docstring(m, clean=False) or "")
    return out


def intact(comments, files, skip=()):
    """[(target, detail)] where the words of the comment are not a contiguous run of words of the docstring."""
    ds, bad = docstrings(files), []
    for tgt, text in comments.items():
        if text is None or tgt in skip:
            continue
        want = expected_text(text).strip().split()
        alts = [want]
        if want and want[-1].endswith('"'):
            # rst's quote guard: when its result ends in a double quote (one-line results, nl=False) it gets a period
            alts.append(want[:-1] + [want[-1] + "."])
        if not ds[tgt]:
            bad.append((tgt, "no docstring found for this element"))
            continue
        for d in ds[tgt]:
            d = d.replace('\\"\\"\\"', '"""')     # an escaped terminator inside a raw docstring reads as the terminator
            if not any(_sub(w_, d.split()) for w_ in alts):
                bad.append((tgt, f"comment words {want[:6]!r}... not found in the docstring {d[:120]!r}"))
                break
    return bad


def hazard_signature(target, text):
    """The class of a comment that is known (DESIGN section 9 nos. 7, 8 and the non-raw variant) to break a docstring."""
    text = expected_text(text)
    if '"""' in text:
        return "docstring.triple_quote_in_comment"
    if "\\" in text and target == "service":
        one_line = "\n" not in text.strip()
        return "docstring.trailing_backslash_in_service_comment" if text.rstrip().endswith("\\") and one_line else "docstring.backslash_in_nonraw_service_docstring"
    return None
