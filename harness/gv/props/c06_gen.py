"""C06 — input generators and the INDEPENDENT AIP-4222 reference used by the direct oracle.

Nothing here imports gapic or looks at the Coq model: templates are parsed with str.index/str.split, values are
matched segment by segment, header values are encoded by a twelve-line percent-encoder."""
import string
from .. import coq

LITS = ["projects", "instances", "tables", "locations", "a", "v1", "x-y", "k_s", "regions", "zones", "t~1", "c:d", "e@f", "p%q",
        "items", "b2", "UPPER", "m,n", "o;p", "q!r", "s't", "u&v"]
DOT_LITS = ["v1.2", "a.b", "example.com", "x.", ".y"]          # escaped by the generator (re.escape): matched literally
META_LITS = ["c+d", "e(f)", "g[h]", "q?", "r|s", "t^u", "w$", "b\\d", "x y", "m#n", "o&p", "a-b~c"]
BAD_LITS = ["a=b", "x{2", "y}", "=", "k=v=w"]                   # not literal text of the class: '=' or a brace
KEYS = ["project_id", "table_name", "routing_id", "k", "name", "instance_id", "location", "x1", "_u", "table_location", "app_profile_id"]
SEGCHARS = string.ascii_letters + string.digits + "-_.~"
ODDCHARS = " %?&=+#:@,;!$'()*[]{}\"\\|^<>`\t"
UNI = ["é", "ü", "日本", "😀"]

CORPUS_TEMPLATES = [
    "{project_id=projects/*}/instances/*/**", "projects/*/{instance_id=instances/*}/**", "{routing_id=**}", "{table_name=projects/*/instances/*/**}",
    "{name=regions/*/zones/*/**}", "{k=*}", "{k}", "x/{k=**}", "a/{k=*}/b", "{k=a/*/b}", "{k=a}/**", "projects/*/{table_location=instances/*}/tables/*",
    "{table_location=regions/*/zones/*}/tables/*", "{routing_id=projects/*}/**", "a.b/{k=*}", "{k=v1.2/*}", "*/{k}", "{k=*/*}", "{k=*}/*", "**",
    "{k=**}/x", "a/**/{k=*}", "{k=**/x}", "{k=a/**/b}", "{k=x", "k=x}", "{a}/{b}", "{k=a=b}", "{=x}", "{k=}", "a//{k=*}", "/{k=*}", "{k=*}/", "{1k=*}",
    "a{k=*}b", "{k=.*}", "{k=a/.*/b}", "*", "lit", "lit/*", "{k=a}b/{", "}{", "{k=x**y}", "{k=x*y}", "a*b/{k}", "", "{k=c+d/*}", "{k=*}/q?",
]


# ------------------------------------------------------------------ templates
def gen_segs(r, n, allow_dstar_last, lits=LITS):
    out = []
    for i in range(n):
        x = r.random()
        if x < 0.5:
            out.append(r.choice(lits))
        elif x < 0.9 or not (allow_dstar_last and i == n - 1):
            out.append("*")
        else:
            out.append("**")
    return out


def gen_class_template(r, allow_short=True):
    """A template of the AIP class (structured, then printed)."""
    x = r.random()
    lits = LITS if x < 0.6 else LITS + ["", ""] if x < 0.7 else LITS + DOT_LITS + META_LITS
    npre, nsub, npost = r.choice([0, 0, 1, 1, 2, 3]), r.choice([1, 1, 1, 2, 2, 3, 4]), r.choice([0, 0, 1, 1, 2, 3])
    pre = gen_segs(r, npre, False, lits)
    post = gen_segs(r, npost, True, lits)
    sub = gen_segs(r, nsub, npost == 0, lits)
    if r.random() < 0.2:
        (post if post else sub)[-1] = "**"
    key = r.choice(KEYS)
    if sub == ["*"] and allow_short and r.random() < 0.4:
        named = "{" + key + "}"
    else:
        named = "{" + key + "=" + "/".join(sub) + "}"
    return "/".join(pre + [named] + post)


def gen_offclass_template(r):
    """Syntactically plausible templates outside the class: inner double stars, dotted or metacharacter literals,
    no / several named segments, complex segments, broken braces."""
    k = r.randrange(9)
    t = gen_class_template(r)
    if k == 0:     # double star not last
        segs = t.split("/")
        segs.insert(r.randrange(len(segs)), "**") if "{" not in segs[0] or len(segs) > 1 else segs.append("**")
        if r.random() < 0.5:
            segs.append(r.choice(LITS))
        return "/".join(segs)
    if k == 1:     # literal with '=' or a brace inside the named segment or after it
        return t.replace("}", "/" + r.choice(BAD_LITS) + "}", 1) if "=" in t else t + "/" + r.choice(BAD_LITS)
    if k == 2:     # ... or before it
        return r.choice(BAD_LITS) + "/" + t
    if k == 3:     # no named segment
        return "/".join(gen_segs(r, r.randint(1, 4), True))
    if k == 4:     # two named segments
        return t + "/" + gen_class_template(r)
    if k == 5:     # complex segment
        return t.replace("{", r.choice(["x{", "{", "~{"]), 1).replace("}", r.choice(["}y", "}~{z}", "}"]), 1)
    if k == 6:     # broken braces / equals
        return r.choice([t.replace("}", "", 1), t.replace("{", "", 1), t.replace("=", "==", 1), t.replace("=", "=x=", 1), t + "}", "{" + t])
    if k == 7:     # stars glued to text
        return t.replace("*", r.choice(["*x", "x*", "***", "x**y", ".*"]), 1)
    return "".join(r.choice("ab/*{}=.") for _ in range(r.randint(0, 9)))


# ------------------------------------------------------------------ the independent reference
def lit_char_ok(c):
    return c not in "/*{}="


def is_ident(k):
    return bool(k) and all(ch.isascii() and (ch.isalnum() or ch == "_") for ch in k) and not k[0].isdigit()


def parse_template(t):
    """AIP-4222 template -> {'pre','key','short','sub','post'} with segments '*', '**' or literal text;
    None when the string is not of that shape (exactly one {key[=sub]} occupying whole segments)."""
    if t.count("{") != 1 or t.count("}") != 1:
        return None
    i, j = t.index("{"), t.index("}")
    if j < i:
        return None
    head, body, tail = t[:i], t[i + 1:j], t[j + 1:]
    if (head and not head.endswith("/")) or (tail and not tail.startswith("/")):
        return None
    pre = head[:-1].split("/") if head else []
    post = tail[1:].split("/") if tail else []
    if "=" in body:
        key, subs = body.split("=", 1)
        if "=" in subs:
            return None
        sub, short = subs.split("/"), False
    else:
        key, sub, short = body, ["*"], True
    return {"pre": pre, "key": key, "short": short, "sub": sub, "post": post}


def seg_kind(s):
    return "star" if s == "*" else "dstar" if s == "**" else "lit"


def in_class(tm):
    """The AIP class of the theorem: literal text free of slash, star, braces and '='; identifier key;
    '**' at most as the very last segment of the whole template."""
    if tm is None or not is_ident(tm["key"]) or not tm["sub"]:
        return False
    allsegs = tm["pre"] + tm["sub"] + tm["post"]
    for s in allsegs:
        if seg_kind(s) == "lit" and not all(lit_char_ok(c) for c in s):
            return False
    if any(s == "**" for s in allsegs[:-1]):
        return False
    return True


def why_off_class(tm):
    if tm is None:
        return "shape"
    allsegs = tm["pre"] + tm["sub"] + tm["post"]
    lits = [s for s in allsegs if seg_kind(s) == "lit"]
    if not is_ident(tm["key"]):
        return "key"
    if any(s == "**" for s in allsegs[:-1]):
        return "inner-dstar"
    return "literal"


def aip_match(tm, value):
    """The value segments matched by the named sub-template, or None. '*' = one non-empty segment, '**' = any number
    of segments (shortest first; in the class it is last, so the choice is forced), literal = that very segment."""
    flat = [(s, False) for s in tm["pre"]] + [(s, True) for s in tm["sub"]] + [(s, False) for s in tm["post"]]
    vs = value.split("/")

    def go(i, j):
        if i == len(flat):
            return [] if j == len(vs) else None
        s, c = flat[i]
        k = seg_kind(s)
        if k == "dstar":
            for n in range(j, len(vs) + 1):
                rest = go(i + 1, n)
                if rest is not None:
                    return (vs[j:n] if c else []) + rest
            return None
        if j >= len(vs):
            return None
        if k == "star":
            if vs[j] == "":
                return None
        elif vs[j] != s:
            return None
        rest = go(i + 1, j + 1)
        if rest is None:
            return None
        return ([vs[j]] if c else []) + rest
    return go(0, 0)


def aip_contribution(tm, value):
    cap = aip_match(tm, value)
    if cap is None:
        return None
    c = "/".join(cap)
    return (tm["key"], c) if c else None


UNRESERVED = set(string.ascii_letters + string.digits + "_.-~")


def url_encode(s):
    """Form-style URL encoding with '/' left alone: what 'Values are URL-encoded' means for this header."""
    out = []
    for b in s.encode("utf-8"):
        ch = chr(b)
        if ch in UNRESERVED or ch == "/":
            out.append(ch)
        elif ch == " ":
            out.append("+")
        else:
            out.append("%%%02X" % b)
    return "".join(out)


def expected_header(pairs):
    """pairs in dict order -> header value; None when there is nothing to send."""
    d = {}
    for k, v in pairs:
        d[k] = v
    if not d:
        return None
    return "&".join(url_encode(k) + "=" + url_encode(v) for k, v in d.items())


# ------------------------------------------------------------------ values
def rand_seg(r, odd=0.15, empty=0.0):
    if r.random() < empty:
        return ""
    n = r.randint(1, 6)
    chars = SEGCHARS
    s = "".join(r.choice(chars) for _ in range(n))
    if r.random() < odd:
        i = r.randrange(len(s) + 1)
        s = s[:i] + r.choice(list(ODDCHARS) + UNI) + s[i:]
    return s


def instantiate(r, segs):
    out = []
    for s in segs:
        if s == "*":
            out.append(rand_seg(r))
        elif s == "**":
            out.extend(rand_seg(r, empty=0.15) for _ in range(r.choice([0, 0, 1, 2, 3])))
        else:
            out.append("".join(r.choice(SEGCHARS) if (c == "." and r.random() < 0.5) else c for c in s))
    return out


def mutate(r, s):
    if not s:
        return r.choice(["x", "/", "\n"])
    i = r.randrange(len(s))
    op = r.choice(["del", "ins", "sub", "trunc", "slash", "dup", "addseg", "dropseg"])
    if op == "del":
        return s[:i] + s[i + 1:]
    if op == "ins":
        return s[:i] + r.choice(SEGCHARS + "/") + s[i:]
    if op == "sub":
        return s[:i] + r.choice(SEGCHARS + "/") + s[i + 1:]
    if op == "trunc":
        return s[:i]
    if op == "slash":
        return s + "/"
    if op == "dup":
        return s.replace("/", "//", 1)
    if op == "addseg":
        return s + "/" + rand_seg(r)
    return "/".join(s.split("/")[:-1])


def values_for(r, template, n):
    """Values for one template: instances, near misses, empty, odd characters, newlines, random."""
    tm = parse_template(template)
    vals = ["", "/"]
    if tm is not None:
        segs = tm["pre"] + tm["sub"] + tm["post"]
        for _ in range(n):
            v = "/".join(instantiate(r, segs))
            vals.append(v)
            vals.append(mutate(r, v))
        # the named part alone, and the template text itself
        vals.append("/".join(instantiate(r, tm["sub"])))
        if tm["pre"]:
            vals.append("/".join(instantiate(r, tm["pre"])))          # x/{k=**} on "x"
            vals.append("/".join(instantiate(r, tm["pre"])) + "/")
        v = "/".join(instantiate(r, segs))
        vals.append(v + "\n")
        vals.append(v.replace("/", "\n/", 1) if "/" in v else "\n" + v)
        j = r.randrange(len(v) + 1)
        vals.append(v[:j] + "\n" + v[j:])
    else:
        for _ in range(n):
            vals.append("/".join(rand_seg(r, empty=0.1) for _ in range(r.randint(1, 4))))
    vals.append(template)
    vals.append("/".join(rand_seg(r, odd=0.5, empty=0.1) for _ in range(r.randint(1, 5))))
    seen, out = set(), []
    for v in vals:
        if v not in seen:
            seen.add(v)
            out.append(v)
    return out


# ------------------------------------------------------------------ Coq terms
def seg_term(s):
    return "SStar" if s == "*" else "SDstar" if s == "**" else f"(SLit {coq.s(s)})"


def tmpl_term(tm):
    return ("{| t_pre := %s; t_key := %s; t_short := %s; t_sub := %s; t_post := %s |}" % (
        coq.lst(seg_term(s) for s in tm["pre"]), coq.s(tm["key"]), coq.b(tm["short"]),
        coq.lst(seg_term(s) for s in tm["sub"]), coq.lst(seg_term(s) for s in tm["post"])))


def contrib_term(c):
    return "None" if c is None else f"(Some ({coq.s(c[0])}, {coq.s(c[1])}))"


def err_term(name):
    return {"ValueError": "EValue", "AssertionError": "EAssert", "IndexError": "EIndex"}.get(name)


# ------------------------------------------------------------------ implicit routing: http path templates
FIELDS = ["name", "parent", "table_name", "sub.name", "sub.inner.id", "class", "type", "sub.class", "sub.type", "resource", "book.shelf",
          "oauth2_client_id", "ipv4_range", "name_v2", "book.isbn13", "v2.name", "v1beta1.sub2.id3", "x9"]      # digits in any component
PATS = ["*", "**", "shelves/*", "projects/*/locations/*", "a/*/b/**", "x=y"]


def gen_uri(r):
    """Structured http path template: [('lit', text) | ('var', path, pattern|None)] and its text."""
    parts = [("lit", "/" + r.choice(["v1", "v2beta", "compute/v1"]) + "/")]
    n = r.choice([0, 1, 1, 1, 2, 2, 3])
    for i in range(n):
        f = r.choice(FIELDS)
        pat = r.choice(PATS + [None, None])
        parts.append(("var", f, pat))
        if i < n - 1 or r.random() < 0.5:
            parts.append(("lit", r.choice(["/", "/books/", ":frob", "/x/y/", "}", "=", "/a=b/"])))
    if r.random() < 0.3:
        parts.append(("lit", r.choice([":verb", "/tail", ""])))
    return parts


def uri_text(parts):
    out = []
    for p in parts:
        if p[0] == "lit":
            out.append(p[1])
        else:
            out.append("{" + p[1] + ("=" + p[2] if p[2] is not None else "") + "}")
    return "".join(out)


def uri_term(parts):
    items = []
    for p in parts:
        if p[0] == "lit":
            items.append(f"ULit {coq.s(p[1])}")
        else:
            items.append(f"UVar {coq.s(p[1])} {'None' if p[2] is None else '(Some ' + coq.s(p[2]) + ')'}")
    return coq.lst(items)


def noisy_uri(r):
    return "".join(r.choice(["{", "}", "=", "a", "b.c", "/", "\n", "*", "{x", "y}", "{z=*}"]) for _ in range(r.randint(0, 8)))
