"""T0 for C09: constants regenerated on every run into Gen/RetryGen.v (fail-closed).

* the status-code -> exception-class table the generator computes with
  api_core.exceptions.exception_class_for_grpc_status(getattr(grpc.StatusCode, name)) (gapic/schema/api.py reads it at
  generation time), and which server status each emitted class catches at run time (isinstance of what
  exceptions.from_grpc_status builds);
* api_core's defaults for the Retry arguments the template leaves out (ast over retry/retry_base.py);
* the keyword arguments the two templates print into the wrapped-method table, with the guards under which they
  are printed (jinja2's own parser over base.py.j2 and _shared_macros.j2)."""
import ast, importlib, os, re
from fractions import Fraction
from .. import env, coq

TPL = "gapic/templates/%namespace/%name_%version/%sub/services/%service"


def q(x) -> str:
    f = Fraction(x)
    return f"({f.numerator} # {f.denominator})"


def code_tables():
    import grpc
    from google.api_core import exceptions
    codes = sorted(grpc.StatusCode, key=lambda c: c.value[0])
    names = [c.name for c in codes]
    if len(names) != 17 or names[0] != "OK":
        raise ValueError(f"unexpected grpc.StatusCode members: {names}")
    code_class = [(c.name, exceptions.exception_class_for_grpc_status(c).__name__) for c in codes]
    classes = {exceptions.exception_class_for_grpc_status(c) for c in codes}
    accepts = []
    for cls in sorted(classes, key=lambda k: k.__name__):
        hit = [c.name for c in codes if c.name != "OK" and isinstance(exceptions.from_grpc_status(c, "x"), cls)]
        accepts.append((cls.__name__, hit))
    return names, code_class, accepts


def api_core_defaults():
    import google.api_core.retry.retry_base as rb
    tree = ast.parse(open(rb.__file__, encoding="utf-8").read())
    consts = {}
    for n in tree.body:
        if isinstance(n, ast.Assign) and len(n.targets) == 1 and isinstance(n.targets[0], ast.Name) and n.targets[0].id.startswith("_DEFAULT_"):
            try:
                consts[n.targets[0].id] = eval(compile(ast.Expression(n.value), "<const>", "eval"), {"__builtins__": {}})
            except Exception:  # noqa
                pass
    sig = None
    for n in ast.walk(tree):
        if isinstance(n, ast.ClassDef) and n.name == "_BaseRetry":
            for fn in n.body:
                if isinstance(fn, ast.FunctionDef) and fn.name == "__init__":
                    names = [a.arg for a in fn.args.args][-len(fn.args.defaults):]
                    sig = {a: ast.unparse(d) for a, d in zip(names, fn.args.defaults)}
    if not sig:
        raise ValueError("_BaseRetry.__init__ not found in api_core retry_base")
    want = {"initial": "_DEFAULT_INITIAL_DELAY", "maximum": "_DEFAULT_MAXIMUM_DELAY", "multiplier": "_DEFAULT_DELAY_MULTIPLIER"}
    out = {}
    for k, c in want.items():
        if sig.get(k) != c or c not in consts:
            raise ValueError(f"_BaseRetry.__init__ default of {k} is {sig.get(k)!r}, expected the constant {c}")
        out[k] = Fraction(repr(float(consts[c])))
    return out


def template_keywords(rel, macro=None):
    """[(keyword, printed expression, (guards...))] for every `name={{ expr }}` inside the wrapped-method table."""
    import jinja2
    from jinja2 import nodes
    path = os.path.join(env.REPO, TPL, rel)
    tree = jinja2.Environment().parse(open(path, encoding="utf-8").read())

    def dotted(e):
        if isinstance(e, nodes.Name):
            return e.name
        if isinstance(e, nodes.Getattr):
            return dotted(e.node) + "." + e.attr
        if isinstance(e, nodes.Filter):
            return dotted(e.node) + "|" + e.name
        if isinstance(e, nodes.Not):
            return "not " + dotted(e.node)
        if isinstance(e, nodes.Call):
            return dotted(e.node) + "()"
        return type(e).__name__

    root = tree
    if macro:
        root = next((m for m in tree.find_all(nodes.Macro) if m.name == macro), None)
        if root is None:
            raise ValueError(f"macro {macro} not found in {rel}")
    else:
        # the body of the for loop over service.methods inside _prep_wrapped_messages
        pass
    out = []

    def walk(n, guards, in_methods_loop):
        if isinstance(n, nodes.For):
            it = dotted(n.iter)
            inner = in_methods_loop or it.startswith("service.methods")
            for c in n.body:
                walk(c, guards, inner)
            return
        if isinstance(n, nodes.If):
            g = guards + [dotted(n.test)]
            for c in n.body:
                walk(c, g, in_methods_loop)
            for e in n.elif_:
                walk(e, guards, in_methods_loop)
            for c in n.else_:
                walk(c, guards + ["not " + dotted(n.test)], in_methods_loop)
            return
        if isinstance(n, nodes.Output) and in_methods_loop:
            for a, b in zip(n.nodes, n.nodes[1:]):
                if isinstance(a, nodes.TemplateData) and not isinstance(b, nodes.TemplateData):
                    m = re.search(r"(\w+)=$", a.data)
                    if m:
                        out.append((m.group(1), dotted(b), tuple(guards)))
        for c in n.iter_child_nodes():
            walk(c, guards, in_methods_loop)

    walk(root, [], False)
    kws = [o for o in out if o[0] in ("initial", "maximum", "multiplier", "deadline", "default_timeout")]
    if len(kws) < 5:
        raise ValueError(f"{rel}: wrapped-method table keywords not found (got {out})")
    return kws


def write_gen():
    names, code_class, accepts = code_tables()
    d = api_core_defaults()
    sync = template_keywords("transports/base.py.j2")
    asyn = template_keywords("_shared_macros.j2", macro="prep_wrapped_messages_async_method")

    def kwterm(kws):
        return coq.lst(f"({coq.s(k)}, {coq.s(e)}, {coq.slist(g)})" for k, e, g in kws)

    text = ("(* Gen/RetryGen.v — REGENERATED on every run (T0) from the installed api_core/grpc and /repo's templates. Do not edit. *)\n"
            "From Coq Require Import QArith.\n"
            "From GV Require Import Base.Str.\n"
            f"Definition STATUS_CODES : list string := {coq.slist(names)}.\n"
            f"Definition CODE_CLASS : list (string * string) := {coq.pairs(code_class)}.\n"
            f"Definition CLASS_ACCEPTS : list (string * list string) := {coq.lst(f'({coq.s(k)}, {coq.slist(v)})' for k, v in accepts)}.\n"
            f"Definition DEFAULT_INITIAL : Q := {q(d['initial'])}.\n"
            f"Definition DEFAULT_MAXIMUM : Q := {q(d['maximum'])}.\n"
            f"Definition DEFAULT_MULTIPLIER : Q := {q(d['multiplier'])}.\n"
            f"Definition TEMPLATE_SYNC : list (string * string * list string) := {kwterm(sync)}.\n"
            f"Definition TEMPLATE_ASYNC : list (string * string * list string) := {kwterm(asyn)}.\n")
    coq.write_gen("RetryGen", text)
    return {"codes": names, "code_class": code_class, "accepts": accepts, "defaults": d, "sync": sync, "async": asyn}
