"""C18 — auto-populated request ids obey AIP-4235 at generation time and at call time."""
import ast, json, os, re
from .. import env, coq, gen, apigen, dyn
from ..apigen import File

RULE = ("(1) generation time: APIs whose request messages declare every kind of candidate field (plain / proto3-optional string with "
        "UUID4, REQUIRED, other formats, no annotation, bytes / int / bool / enum / message with the annotation, nested, repeated) and "
        "unary, server-, client- and bidi-streaming methods in two services, crossed with method-settings lists: valid ones, each single "
        "violation injected at a random position, duplicates (of valid, invalid and unknown selectors, twice and three times), "
        "random mixtures, and all of these crossed with a non-empty selective_gapic_generation allow-list in both modes (entry naming the listed "
        "method / an omitted existing method / no method at all), and — through the real generator path API.build + Generator.get_response — with the "
        "services spread over proto sub-packages (all top-level / mixed / all in sub-packages, one or two sub-packages); one case = one (API, settings list); non-trivial = some entry lists at least one field or a selector repeats. "
        "(2) call time: generated libraries (grpc+rest) with accepted settings, every auto-populated method called through the sync gRPC, "
        "asyncio gRPC and REST clients with the field unset / empty / set, request given as message, dict, or flattened keyword arguments "
        "(each id field passed as \"\" / a value / omitted), "
        "two or three calls each; one case = one (library, method, client kind, request mode, caller valuation); all are non-trivial. "
        "Distinct = distinct canonical JSON.")
TRUSTED = [
    "Model/Uuid.v: hand-written model of API.enforce_valid_method_settings / all_method_settings (error report included) and of the "
    "block emitted by the auto_populate_uuid4_fields macro, executed on a request valuation with uuid.uuid4 as an explicit stream",
    "contract: uuid.uuid4() returns fresh non-empty strings (checked on every observed value: RFC-4122 version-4 layout, pairwise distinct); "
    "proto-plus presence test ('f' in request) and truthiness behave as Model/Uuid.v says (validated by T2 on every run)",
    "harness/gv/impl/msettings.py (API.build + all_method_settings as gapic.cli.generate reaches them), impl/drive.py, the ast readers of "
    "client.py / async_client.py in this file, apigen + DescriptorPool as validity judge, dyn (decoding under the input descriptors)",
]
ASSUMES = ["method selectors and field names are distinct (protoc guarantees it): hypothesis [methods_wf]",
           "the model's request fields are not members of a real oneof (there, assignment also clears the sibling members; the oneof case "
           "is exercised by the direct oracle only: witness_oneof)",
           "C18_populate_iff_unset_or_empty assumes the uuid stream yields non-empty strings and speaks about singular fields "
           "(every field of an accepted entry is singular: C18_accepted_fields_singular)"]

IMPORTS = "From GV Require Import Model.Uuid."
SIG_REPEATED = "uuid.repeated_string_field_accepted"
SIG_ONEOF = "uuid.oneof_member_clobbers_sibling"
SIG_SUBVIEW = "uuid.subpackage_view_rejects_valid_settings"
UUID4 = re.compile(r"^[0-9a-f]{8}-[0-9a-f]{4}-4[0-9a-f]{3}-[89ab][0-9a-f]{3}-[0-9a-f]{12}$")
PKG = "google.example.library.v1"
EMPTY = ".google.protobuf.Empty"

# ---------------------------------------------------------------------------------------------- field declarations
# name -> (type, kwargs for apigen.Msg.field, format)   format: None | "UUID4" | "IPV4" | "IPV6"
DECLS = {
    "request_id": ("string", {}, "UUID4"),
    "opt_id": ("string", {"optional": True}, "UUID4"),
    "other_id": ("string", {}, "UUID4"),
    "name": ("string", {"required": True}, None),
    "req_uuid": ("string", {"required": True}, "UUID4"),
    "opt_req_uuid": ("string", {"required": True, "optional": True}, "UUID4"),
    "count": ("int32", {}, "UUID4"),
    "blob": ("bytes", {}, "UUID4"),
    "flag": ("bool", {}, "UUID4"),
    "note": ("string", {}, None),
    "opt_note": ("string", {"optional": True}, None),
    "ip": ("string", {}, "IPV4"),
    "ip6": ("string", {"optional": True}, "IPV6"),
    "rep_id": ("string", {"repeated": True}, "UUID4"),
    "req_count": ("int64", {"required": True}, None),
    "inner": ("msg:Inner", {}, "UUID4"),
    "kind": ("enum:Kind", {}, "UUID4"),
}
# the full product over string fields: REQUIRED x format x (plain | proto3-optional | repeated)
for _req in (False, True):
    for _fmt in ("UUID4", None, "IPV4"):
        for _lab in ("", "opt", "rep"):
            _n = "s" + ("_req" if _req else "") + "_" + (_fmt or "nofmt").lower() + ("_" + _lab if _lab else "")
            _kw = {}
            if _req:
                _kw["required"] = True
            if _lab == "opt":
                _kw["optional"] = True
            if _lab == "rep":
                _kw["repeated"] = True
            DECLS[_n] = ("string", _kw, _fmt)
DECLS.update({"opt_count": ("int64", {"optional": True}, "UUID4"), "rep_count": ("int32", {"repeated": True}, "UUID4"),
              "rep_blob": ("bytes", {"repeated": True}, "UUID4"), "opt_blob": ("bytes", {"optional": True}, "UUID4"),
              "rep_inner": ("msg:Inner", {"repeated": True}, "UUID4"), "req_blob": ("bytes", {"required": True}, "UUID4")})
NESTED = ["inner.request_id", "inner.note", "book.request_id", "request_id.x", "Request_id", "requestId", "missing", ""]


def decl_info(name):
    t, kw, fmt = DECLS[name]
    return {"name": name, "string": t == "string", "required": bool(kw.get("required")), "uuid4": fmt == "UUID4",
            "optional": bool(kw.get("optional")), "repeated": bool(kw.get("repeated"))}


def add_decl(file, msg, number, name, inner_fqn, kind_fqn):
    from google.api import field_info_pb2
    t, kw, fmt = DECLS[name]
    if t == "msg:Inner":
        msg.field(name, number, inner_fqn, **kw)
    elif t == "enum:Kind":
        msg.field(name, number, ("enum", kind_fqn), **kw)
    else:
        msg.field(name, number, t, **kw)
    f = msg.proto.field[-1]
    if fmt:
        f.options.Extensions[field_info_pb2.field_info].format = getattr(field_info_pb2.FieldInfo, fmt)


def validation_api(r):
    """An API with unary and streaming methods in two services. Returns (File list, description)."""
    main = File("google/example/library/v1/library.proto", PKG,
                deps=list(apigen.STD_DEPS) + ["google/api/field_info.proto", "google/protobuf/empty.proto"])
    inner = main.message("Inner").field("request_id", 1, "string", uuid4=True).field("note", 2, "string")
    kind = main.enum("Kind", ["KIND_UNSPECIFIED", "A"])
    book = main.message("Book").field("title", 1, "string")
    desc = {"methods": {}}
    svc1 = main.service("Library", host="library.example.com")
    svc2 = main.service("Admin", host="library.example.com")
    names = list(DECLS)

    def request(msg_name, fields):
        m = main.message(msg_name)
        for i, n in enumerate(fields, 1):
            add_decl(main, m, i, n, inner.fqn, kind)
        return m

    shared = {}

    def method(svc, sname, rpc, fields, cs=False, ss=False, inp=None, same_request_as=None):
        if same_request_as is not None:          # several rpcs taking one and the same request message
            inp, fdesc = shared[same_request_as]
        elif inp is None:
            inp = request(rpc + "Request", fields).fqn
            fdesc = [decl_info(n) for n in fields]
            shared[rpc] = (inp, fdesc)
        else:
            fdesc = None
        svc.rpc(rpc, inp, book.fqn, cs=cs, ss=ss)
        desc["methods"][f"{PKG}.{sname}.{rpc}"] = {"cs": cs, "ss": ss, "fields": fdesc}

    full = list(names)
    r.shuffle(full)
    method(svc1, "Library", "CreateBook", full)
    some = r.sample(names, r.randint(4, 9))
    for must in ("request_id", "opt_id"):
        if must not in some:
            some.append(must)
    method(svc1, "Library", "UpdateBook", some)
    method(svc1, "Library", "GetBook", ["name", "request_id"])
    method(svc1, "Library", "WatchBooks", ["request_id", "opt_id", "note"], ss=True)
    method(svc1, "Library", "UploadBooks", ["request_id", "opt_id"], cs=True)
    method(svc1, "Library", "ChatBooks", ["request_id"], cs=True, ss=True)
    method(svc1, "Library", "Ping", None, inp=EMPTY)
    method(svc2, "Admin", "CreateThing", ["request_id", "opt_id", "name", "count"])
    method(svc2, "Admin", "GetThing", ["name"])
    # rpcs sharing CreateBook's request message: another unary one, and one of each streaming kind (also in the other service)
    method(svc1, "Library", "CloneBook", None, same_request_as="CreateBook")
    method(svc1, "Library", "StreamCreatedBooks", None, ss=True, same_request_as="CreateBook")
    method(svc1, "Library", "UploadCreateBooks", None, cs=True, same_request_as="CreateBook")
    method(svc2, "Admin", "TailThings", None, ss=True, same_request_as="CreateThing")
    return [main], desc


def valid_fields_of(desc, sel, spec=False):
    m = desc["methods"][sel]
    if m["fields"] is None:
        return []
    return [f["name"] for f in m["fields"] if f["string"] and not f["required"] and f["uuid4"] and not f["repeated"]]


def gen_settings(r, desc, kind):
    """A method-settings list of the requested kind: [{'selector', 'auto_populated_fields', 'long_running'?}]"""
    sels = list(desc["methods"])
    unary = [s for s in sels if not desc["methods"][s]["cs"] and not desc["methods"][s]["ss"] and desc["methods"][s]["fields"] is not None]
    streaming = [s for s in sels if desc["methods"][s]["cs"] or desc["methods"][s]["ss"]]

    def valid_entry(sel):
        good = valid_fields_of(desc, sel, spec=True)
        k = r.randint(0, len(good))
        e = {"selector": sel, "auto_populated_fields": r.sample(good, k)}
        if r.random() < 0.2:
            e["long_running"] = {"initial_poll_delay": "5s"}
        return e

    base = [valid_entry(s) for s in r.sample(unary, r.randint(0, min(3, len(unary))))]
    if r.random() < 0.3:
        base.append({"selector": r.choice(streaming), "auto_populated_fields": []})      # no fields: streaming is fine
    if kind == "valid":
        return base
    if kind == "violation":
        v = r.choice(["unknown-method", "unknown-service", "streaming", "bad-field", "nested", "empty-request", "unknown-no-fields"])
        used = {e["selector"] for e in base}
        free_unary = [s for s in unary if s not in used] or unary
        if v == "unknown-method":
            e = {"selector": f"{PKG}.Library.DoesNotExist", "auto_populated_fields": r.choice([[], ["request_id"]])}
        elif v == "unknown-no-fields":
            e = {"selector": f"{PKG}.Library.Nope", "auto_populated_fields": []}
        elif v == "unknown-service":
            e = {"selector": r.choice([f"{PKG}.Nope.CreateBook", "Library.CreateBook", f".{PKG}.Library.CreateBook", f"{PKG}.Library.createBook", ""]),
                 "auto_populated_fields": ["request_id"]}
        elif v == "streaming":
            e = {"selector": r.choice([s for s in streaming if s not in used] or streaming), "auto_populated_fields": ["request_id"]}
        elif v == "empty-request":
            e = {"selector": f"{PKG}.Library.Ping", "auto_populated_fields": ["request_id"]}
        else:
            sel = r.choice(free_unary)
            m = desc["methods"][sel]
            good = valid_fields_of(desc, sel, spec=True)
            bad = [f["name"] for f in m["fields"] if f["name"] not in valid_fields_of(desc, sel)] if v == "bad-field" else []
            badname = r.choice(bad) if bad else r.choice(NESTED)
            fields = r.sample(good, r.randint(0, len(good))) + [badname]
            r.shuffle(fields)
            e = {"selector": sel, "auto_populated_fields": fields}
        out = [x for x in base if x["selector"] != e["selector"]]
        out.insert(r.randint(0, len(out)), e)
        return out
    if kind == "repeated-field":
        sel = f"{PKG}.Library.CreateBook"
        good = valid_fields_of(desc, sel, spec=True)
        e = {"selector": sel, "auto_populated_fields": r.sample(good, r.randint(0, len(good))) + ["rep_id"]}
        return [x for x in base if x["selector"] != sel] + [e]
    if kind == "duplicate":
        v = r.choice(["valid", "invalid-first", "invalid-second", "unknown", "triple", "no-fields"])
        if v == "unknown":
            e1 = {"selector": f"{PKG}.Library.Missing", "auto_populated_fields": []}
            e2 = dict(e1)
        elif v == "no-fields":
            s = r.choice(sels)
            e1, e2 = {"selector": s, "auto_populated_fields": []}, {"selector": s, "auto_populated_fields": []}
        else:
            s = r.choice(unary)
            e1, e2 = valid_entry(s), valid_entry(s)
            if v == "invalid-first":
                e1["auto_populated_fields"] = e1["auto_populated_fields"] + ["missing"]
            if v == "invalid-second":
                e2["auto_populated_fields"] = e2["auto_populated_fields"] + ["name"]
        out = [x for x in base if x["selector"] != e1["selector"]]
        out.insert(r.randint(0, len(out)), e1)
        out.insert(r.randint(out.index(e1) + 1, len(out)), e2)
        if v == "triple":
            out.append(dict(e1))
        return out
    # mixture
    out = []
    for _ in range(r.randint(1, 5)):
        out += gen_settings(r, desc, r.choice(["valid", "violation", "duplicate", "repeated-field"]))[-2:]
    r.shuffle(out)
    return out


# ---- the property's own sentence about generation (direct oracle; independent of the model and of /repo) ----
def spec_verdict(desc, settings, selective=None):
    """'must-fail' | 'must-succeed' | 'either'.  'either': an entry that lists no field but names a missing method (the sentence is
    about auto_populated_fields entries and duplicate selectors only), or an entry naming a method that exists in the proto but is
    pruned by selective generation (the sentence demands rejection only of selectors naming NO method of the API).
    desc is the proto's full method table: existence is judged against it, never against the pruned table."""
    sels = [e["selector"] for e in settings]
    if len(set(sels)) != len(sels):
        return "must-fail"
    either = False
    for e in settings:
        m = desc["methods"].get(e["selector"])
        fields = e.get("auto_populated_fields") or []
        if not fields:
            if m is None or pruned(selective, e["selector"]):
                either = True
            continue
        if m is not None and pruned(selective, e["selector"]):
            either = True
            continue
        if m is None or m["cs"] or m["ss"] or m["fields"] is None:
            return "must-fail"
        for n in fields:
            f = next((x for x in m["fields"] if x["name"] == n), None)       # top-level only
            if f is None or not f["string"] or f["repeated"] or f["required"] or not f["uuid4"]:
                return "must-fail"
    return "either" if either else "must-succeed"


def only_gap_is_repeated(desc, settings, selective=None):
    """Would the sentence accept the list if repeated string fields counted as strings?"""
    d2 = json.loads(json.dumps(desc))
    for m in d2["methods"].values():
        for f in (m["fields"] or []):
            f["repeated"] = False
    return spec_verdict(d2, settings, selective) != "must-fail"


# ---- terms ----
def coq_methods(desc):
    out = []
    for sel, m in desc["methods"].items():
        if m["fields"] is None:
            inp = "None"
        else:
            inp = "(Some " + coq.lst(f"(mkRField {coq.s(f['name'])} {coq.b(f['string'])} {coq.b(f['required'])} {coq.b(f['uuid4'])} "
                                     f"{coq.b(f['optional'])} {coq.b(f['repeated'])})" for f in m["fields"]) + ")"
        out.append(f"(mkMethod {coq.s(sel)} {coq.b(m['cs'])} {coq.b(m['ss'])} {inp})")
    return coq.lst(out)


def coq_table(desc, selective, table=None):
    """API.all_methods of the API object the templates see: the proto's table after the allow-list (Model.visible_methods).
    table: name of a Coq definition holding coq_methods(desc) (keeps the check terms small)."""
    mt = table or coq_methods(desc)
    if not selective:
        return mt
    return f"(visible_methods {coq.slist(selective['methods'])} {coq.b(selective['internal'])} {mt})"


def coq_settings(settings):
    return coq.lst(f"(mkSetting {coq.s(e['selector'])} {coq.slist(e.get('auto_populated_fields') or [])})" for e in settings)


FERR = [("was not found", "FNotFound"), ("is not of type string", "FNotString"), ("is a required field", "FRequired"),
        ("is not annotated with", "FNotUuid4")]


def coq_outcome(o):
    """The implementation's outcome as a Model.Uuid.outcome term; unknown messages become a term that equals nothing."""
    if o["outcome"] == "accepted":
        return "Accepted"
    if o["outcome"] == "crashed":
        return "Crashed" if o.get("exception") == "KeyError" else f"(Rejected [({coq.s('<' + str(o.get('exception')) + '>')}, SNotUnary)])"
    items = []
    for sel, msgs in (o.get("errors") or {}).items():
        if msgs == ["Duplicate selector"]:
            e = "SDuplicate"
        elif msgs == ["Method was not found."]:
            e = "SMethodNotFound"
        elif msgs == ["Method is not a unary method."]:
            e = "SNotUnary"
        else:
            fl = []
            for msg in msgs:
                mm = re.match(r"^Field `(.*?)` (.*)$", msg, flags=re.S)
                code = next((c for frag, c in FERR if mm and frag in mm.group(2)), None)
                fl.append(f"({coq.s(mm.group(1) if mm else msg)}, {code or 'FNotFound'})" if code else f"({coq.s('<unknown message> ' + msg)}, FNotFound)")
            e = "(SFields " + coq.lst(fl) + ")"
        items.append(f"({coq.s(sel)}, {e})")
    return "(Rejected " + coq.lst(items) + ")"


def service_yaml(settings, selective=None):
    """selective: None | {"methods": [selectors], "internal": bool} -> publishing.library_settings of the proto package."""
    y = {"type": "google.api.Service", "config_version": 3, "name": "library.example.com",
         "publishing": {"method_settings": settings}}
    if selective is not None:
        y["publishing"]["library_settings"] = [{"version": PKG, "python_settings": {"common": {"selective_gapic_generation": {
            "methods": list(selective["methods"]), "generate_omitted_as_internal": bool(selective["internal"])}}}}]
    return y


def pruned(selective, selector):
    """Is this (existing) method left out of the API object by the allow-list (pruning mode only)?"""
    return bool(selective and selective["methods"] and not selective["internal"] and selector not in selective["methods"])


def systematic_settings(r, desc, full):
    """Each single violation on its own, next to valid entries: every invalid declaration of CreateBook, every nested / misspelt
    name, every streaming method, every malformed selector, every duplicate variant."""
    sel = f"{PKG}.Library.CreateBook"
    valid = set(valid_fields_of(desc, sel))
    spec_valid = valid_fields_of(desc, sel, spec=True)
    other = {"selector": f"{PKG}.Admin.CreateThing", "auto_populated_fields": ["request_id", "opt_id"]}
    out = []
    names = [f["name"] for f in desc["methods"][sel]["fields"] if f["name"] not in valid] + NESTED
    if not full:
        names = r.sample(names, 8)
    for bad in names:
        fields = r.sample(spec_valid, r.randint(0, 2)) + [bad]
        r.shuffle(fields)
        lst = [other, {"selector": sel, "auto_populated_fields": fields}]
        r.shuffle(lst)
        out.append(("single-bad-field", lst))
    for good in (spec_valid if full else spec_valid[:2]):
        out.append(("single-good-field", [{"selector": sel, "auto_populated_fields": [good]}]))
    for rep in [f["name"] for f in desc["methods"][sel]["fields"] if f["repeated"] and f["string"] and f["uuid4"] and not f["required"]]:
        out.append(("repeated-field", [{"selector": sel, "auto_populated_fields": [rep]}]))      # the former gap, alone in its entry
    for s2 in [s for s, m in desc["methods"].items() if m["cs"] or m["ss"]]:
        out.append(("single-streaming", [other, {"selector": s2, "auto_populated_fields": ["request_id"]}]))
        out.append(("streaming-no-fields", [{"selector": s2, "auto_populated_fields": []}, other]))
    for badsel in (f"{PKG}.Library.DoesNotExist", f"{PKG}.Nope.CreateBook", "Library.CreateBook", f".{PKG}.Library.CreateBook",
                   f"{PKG}.Library.createBook", f"{PKG}.Library", "", f"{PKG}.Library.CreateBook.x"):
        out.append(("single-bad-selector", [other, {"selector": badsel, "auto_populated_fields": ["request_id"]}]))
        if full:
            out.append(("single-bad-selector", [{"selector": badsel, "auto_populated_fields": []}]))
    # several methods sharing ONE request message and listing the SAME fields: each entry is judged on its own method
    # (a streaming method after a unary one is still rejected; every order, equal and different field lists)
    L = f"{PKG}.Library."
    fl = spec_valid[:2]
    for first, second in ((L + "CreateBook", L + "StreamCreatedBooks"), (L + "StreamCreatedBooks", L + "CreateBook"),
                          (L + "CloneBook", L + "UploadCreateBooks"), (L + "CreateBook", L + "CloneBook"),
                          (f"{PKG}.Admin.CreateThing", f"{PKG}.Admin.TailThings")):
        f2 = ["request_id", "opt_id"] if "Admin" in first else fl
        out.append(("shared-request-same-fields", [{"selector": first, "auto_populated_fields": list(f2)}, {"selector": second, "auto_populated_fields": list(f2)}]))
        if full:
            out.append(("shared-request-other-fields", [{"selector": first, "auto_populated_fields": list(f2)}, {"selector": second, "auto_populated_fields": list(f2[:1])}]))
            out.append(("shared-request-other-fields", [{"selector": first, "auto_populated_fields": list(reversed(f2))}, {"selector": second, "auto_populated_fields": list(f2)}]))
    out.append(("shared-request-same-fields", [{"selector": L + "CreateBook", "auto_populated_fields": list(fl)}, other,
                                               {"selector": L + "CloneBook", "auto_populated_fields": list(fl)},
                                               {"selector": L + "UploadCreateBooks", "auto_populated_fields": list(fl)}]))
    out.append(("shared-request-same-bad-fields", [{"selector": L + "CreateBook", "auto_populated_fields": ["name"]}, {"selector": L + "CloneBook", "auto_populated_fields": ["name"]}]))
    out.append(("shared-request-same-bad-fields", [{"selector": L + "CloneBook", "auto_populated_fields": ["name"]}, {"selector": L + "StreamCreatedBooks", "auto_populated_fields": ["name"]}]))
    # a selector that spells a method name with surrounding whitespace (YAML block scalar `selector: >` keeps the final line break)
    # names NO method: it must be rejected, alone and next to the entry of the method it resembles
    for ws in ([sel + "\n", " " + sel, sel + " ", sel + "\t", "\n" + sel + "\n"] if full else [sel + "\n", sel + " "]):
        out.append(("selector-with-whitespace", [other, {"selector": ws, "auto_populated_fields": ["request_id"]}]))
    out.append(("selector-with-whitespace", [{"selector": sel, "auto_populated_fields": spec_valid[:1]}, {"selector": sel + "\n", "auto_populated_fields": spec_valid[:2]}]))
    out.append(("selector-with-whitespace", [{"selector": other["selector"] + "\n", "auto_populated_fields": ["opt_id"]}]))
    out.append(("single-foreign-request", [{"selector": f"{PKG}.Library.Ping", "auto_populated_fields": ["request_id"]}, other]))
    good = {"selector": sel, "auto_populated_fields": spec_valid[:2]}
    for lst in ([good, dict(good)], [good, other, dict(good)], [good, {"selector": sel, "auto_populated_fields": []}],
                [{"selector": sel, "auto_populated_fields": []}, good], [{"selector": sel, "auto_populated_fields": ["missing"]}, good],
                [good, {"selector": sel, "auto_populated_fields": ["name"]}], [good, dict(good), dict(good)],
                [{"selector": f"{PKG}.Nope.X", "auto_populated_fields": []}, {"selector": f"{PKG}.Nope.X", "auto_populated_fields": []}],
                [other, good, {"selector": other["selector"], "auto_populated_fields": []}]):
        out.append(("duplicate-systematic", lst))
    return out


def selective_settings(r, desc, full):
    """Method-settings validation crossed with a NON-EMPTY selective_gapic_generation allow-list, both modes: the entry names the
    listed method / an omitted existing method / no method at all (misspelt), with and without fields, alone and next to others."""
    L, A = f"{PKG}.Library.", f"{PKG}.Admin."
    out = []
    allows = [[L + "CreateBook"], [A + "GetThing"], [L + "CreateBook", L + "UpdateBook", A + "CreateThing"], [L + "WatchBooks", A + "CreateThing"]]
    if not full:
        allows = r.sample(allows, 2)
    for internal in (False, True):
        for allow in allows:
            sel = {"methods": allow, "internal": internal}
            good = {"selector": L + "CreateBook", "auto_populated_fields": ["request_id", "opt_id"]}
            thing = {"selector": A + "CreateThing", "auto_populated_fields": ["request_id"]}
            variants = [
                ("listed-or-omitted-valid", [good]), ("listed-or-omitted-valid", [thing]), ("listed-or-omitted-valid", [good, thing]),
                ("selective-misspelt", [{"selector": L + "CreateBooks", "auto_populated_fields": ["request_id"]}]),
                ("selective-misspelt", [{"selector": A + "CreateThings", "auto_populated_fields": ["request_id"]}, good]),
                ("selective-misspelt", [thing, {"selector": f"{PKG}.Librarian.CreateBook", "auto_populated_fields": ["opt_id"]}]),
                ("selective-misspelt-no-fields", [{"selector": L + "CreateBooks", "auto_populated_fields": []}, good]),
                ("selective-bad-field", [{"selector": L + "CreateBook", "auto_populated_fields": ["name"]}]),
                ("selective-bad-field", [{"selector": A + "CreateThing", "auto_populated_fields": ["count"]}]),
                ("selective-streaming", [{"selector": L + "WatchBooks", "auto_populated_fields": ["request_id"]}]),
                ("selective-duplicate", [good, dict(good)]),
                ("selective-duplicate", [{"selector": L + "CreateBooks", "auto_populated_fields": ["request_id"]}] * 2),
                ("selective-empty-list", []),
            ]
            if not full:
                variants = variants[:6] + r.sample(variants[6:], 3)
            for kind, lst in variants:
                out.append((kind + ("-internal" if internal else "-pruning"), [dict(e) for e in lst], sel))
    return out


def load_corpus():
    d = os.path.join(env.VERIF, "corpus", "C18")
    out = []
    if os.path.isdir(d):
        for n in sorted(os.listdir(d)):
            if n.endswith(".json"):
                c = json.load(open(os.path.join(d, n)))
                if c.get("kind") == "validation-corpus":
                    out.append(("corpus:" + n, c["settings"], c.get("selective")))
    return out


def run_validation(ctx, n_apis, per_api, seed_tag="C18-val", cli_every=7, full_first=1):
    cases = []
    for a in range(n_apis):
        r = env.rng(seed_tag, a)
        files, desc = validation_api(r)
        kinds = ["valid", "violation", "violation", "violation", "duplicate", "duplicate", "repeated-field", "mixture"]
        todo = (load_corpus() if a == 0 else []) + [(k, st, None) for k, st in systematic_settings(r, desc, full=a < full_first)] \
            + selective_settings(r, desc, full=a < full_first) + [(kinds[k % len(kinds)], None, None) for k in range(per_api)]
        all_sels = list(desc["methods"])
        for k, (kind, settings, selective) in enumerate(todo):
            if settings is None:
                settings = gen_settings(r, desc, kind)
                if r.random() < 0.3:      # random lists crossed with a random allow-list
                    selective = {"methods": r.sample(all_sels, r.randint(1, 4)), "internal": r.random() < 0.5}
                    kind += "+selective"
            cd = gen.case_dir(f"c18v{seed_tag}{a}_{k}")
            req = gen.with_params(apigen.request(files), ["transport=grpc"], cd, service_yaml=service_yaml(settings, selective))
            cases.append({"kind": kind, "desc": desc, "settings": settings, "selective": selective, "req": req, "api": a})
    outs = []
    chunks = [cases[i:i + 14] for i in range(0, len(cases), 14)]
    for part in gen.pmap(lambda ch: gen.impl("msettings", [{"request_b64": apigen.req_b64(c["req"])} for c in ch]), chunks):
        outs += part
    cli = [c for i, c in enumerate(cases) if i % cli_every == 0]
    cli_res = gen.pmap(lambda c: gen.run_generator(c["req"]), cli)
    checks, pending = [], []
    for c, o in zip(cases, outs):
        settings, desc, selective = c["settings"], c["desc"], c["selective"]
        sels = [e["selector"] for e in settings]
        nontrivial = any(e.get("auto_populated_fields") for e in settings) or len(set(sels)) != len(sels)
        ctx.case({"api": c["api"], "settings": settings, "selective": selective, "fields": {k: [f["name"] for f in (m["fields"] or [])] for k, m in desc["methods"].items()}},
                 nontrivial=nontrivial, feature=[f"settings-{c['kind']}", f"outcome-{o['outcome']}", f"entries={min(len(settings), 6)}",
                                                 "selective-" + ("off" if not selective else "internal" if selective["internal"] else "pruning")])
        case = {"kind": "validation", "settings": settings, "selective": selective, "desc": desc, "request_b64": apigen.req_b64(c["req"]), "outcome": o}
        c["case"] = case
        if o["outcome"] == "harness-error":
            ctx.oblige("T2 validation: impl script ran", False, json.dumps(o)[:500])
            continue
        seltxt = "" if not selective else f" selective={[x.replace(PKG + '.', '') for x in selective['methods']]}/{'internal' if selective['internal'] else 'pruning'}"
        label = f"api#{c['api']} {c['kind']}{seltxt} settings={json.dumps([[e['selector'].replace(PKG + '.', ''), e.get('auto_populated_fields')] for e in settings])} impl={json.dumps(o)[:240]}"
        checks.append((label, f"outcome_eqb (enforce {coq_table(desc, selective, 'MT_' + str(c['api']))} {coq_settings(settings)}) {coq_outcome(o)}"))
        # ---- direct oracle ----
        verdict = spec_verdict(desc, settings, selective)
        failed = o["outcome"] != "accepted"
        if verdict == "must-fail" and not failed:
            sig = SIG_REPEATED if only_gap_is_repeated(desc, settings, selective) else None
            nomethod = [e["selector"] for e in settings if e["selector"] not in desc["methods"] and e.get("auto_populated_fields")]
            why = f" (selector(s) naming no method of the API: {nomethod})" if nomethod else ""
            pending.append((sig, f"generation accepts method settings the property says must be rejected{why}{seltxt}: {json.dumps(settings)}", case))
        if verdict == "must-succeed" and failed:
            pending.append((None, f"generation rejects valid method settings{seltxt} {json.dumps(settings)}: {json.dumps(o)[:300]}", case))
        if o["outcome"] == "accepted":
            want = {e["selector"]: list(e.get("auto_populated_fields") or []) for e in settings}
            if o.get("selectors") != want:
                pending.append((None, f"all_method_settings lost or changed entries: {o.get('selectors')} for {want}", case))
    for c, (res, err) in zip(cli, cli_res):
        o = outs[cases.index(c)]
        kindname = None
        if res is None:     # the message of MethodSettingsError is multi-line YAML: look for the class name in the traceback
            mm = re.findall(r"^(?:[\w.]+\.)?(\w*(?:Error|Exception))\b", err, flags=re.M)
            kindname = "MethodSettingsError" if "MethodSettingsError" in mm else (mm[-1] if mm else gen.error_kind(err))
        ctx.case({"cli": True, "api": c["api"], "settings": c["settings"]}, feature=["cli-generation-" + ("fails" if res is None else "succeeds")])
        agree = (res is None) == (o["outcome"] != "accepted") and (res is not None or kindname == {"rejected": "MethodSettingsError", "crashed": o.get("exception")}.get(o["outcome"]))
        ctx.oblige(f"T2 generator CLI outcome = all_method_settings outcome for {json.dumps(c['settings'])[:160]}", agree,
                   f"cli={'ok' if res is not None else kindname} impl={json.dumps(o)[:200]}")
        if spec_verdict(c["desc"], c["settings"], c["selective"]) == "must-fail" and res is not None and not only_gap_is_repeated(c["desc"], c["settings"], c["selective"]):
            pending.append((None, f"the generator produced a library for method settings that must be rejected: {json.dumps(c['settings'])}", c["case"]))
    tables = {}
    for c in cases:
        tables.setdefault(c["api"], c["desc"])
    defs = "\n".join(f"Definition MT_{a} := {coq_methods(d)}." for a, d in tables.items())
    failing, errors, nfiles = coq.eval_checks("c18val" + re.sub(r"\W", "", seed_tag), IMPORTS, defs, checks)
    ctx.oblige(f"T2 validation: Model.enforce = enforce_valid_method_settings (outcome and error report) on {len(checks)} settings lists ({nfiles} cases files)",
               not failing and not errors and len(checks) > 0, "; ".join((failing + errors)[:5]))
    ctx.notes.setdefault("validation_disagreements", []).extend(failing[:10])
    return pending


# ---------------------------------------------------------------------------------------------- call time
def call_api(r, index=0):
    """A library whose unary methods carry auto-populated fields of both kinds, with accepted settings.  The request message of
    a method lives either next to the service or in ANOTHER proto package of the same API (sub-package <pkg>.common): the client
    templates take a different branch there (method.input.ident.package != method.ident.package)."""
    common = File("google/example/library/v1/common/requests.proto", PKG + ".common", deps=list(apigen.STD_DEPS) + ["google/api/field_info.proto"])
    book = common.message("Book").field("name", 1, "string").field("title", 2, "string")
    extra = []
    out_type = book.fqn
    if index % 2 == 0:
        # one of the API's proto files is called uuid.proto and its message is the service's output: the types module `uuid` must not
        # shadow the standard module the population statements call (uuid.uuid4())
        uf = File("google/example/library/v1/uuid.proto", PKG, deps=list(apigen.STD_DEPS))
        out_type = uf.message("Receipt").field("name", 1, "string").field("serial", 2, "int64").fqn
        extra = [uf]
    main = File("google/example/library/v1/library.proto", PKG, deps=list(apigen.STD_DEPS) + ["google/api/field_info.proto", common.proto.name] + [f.proto.name for f in extra])
    svc = main.service("Library", host="library.example.com", scopes="https://www.googleapis.com/auth/cloud-platform")
    from google.api import field_info_pb2
    methods, settings = [], []
    shapes = [
        ("CreateBook", ("post", "/v1/{parent=projects/*}/books"), "*", ["parent"]),
        ("ImportBook", ("post", "/v1/{parent=projects/*}/books:import"), "book", []),
        ("TouchBook", ("get", "/v1/{parent=projects/*}/books:touch"), None, []),
        ("RemoveBook", ("delete", "/v1/{parent=projects/*}/books"), None, ["parent"]),
    ]
    r.shuffle(shapes)
    for rpc, http, body, sig in shapes[: r.randint(3, 4)]:
        # where the request message is declared: the first two methods of a library cover both places
        where = ["common", "same"][(index + len(methods)) % 2] if len(methods) < 2 else r.choice(["common", "same"])
        m = (common if where == "common" else main).message(rpc + "Request")
        fields = [("parent", "string", {}), ("book", book.fqn, {})]
        ids = [("request_id", {"uuid4": True}), ("opt_id", {"uuid4": True, "optional": True}), ("other_id", {"uuid4": True}),
               ("opt_other", {"uuid4": True, "optional": True}), ("note", {}), ("opt_note", {"optional": True})]
        r.shuffle(ids)
        for n, kw in ids:
            fields.append((n, "string", kw))
        for i, (n, t, kw) in enumerate(fields, 1):
            m.field(n, i, t, **kw)
        if sig:         # flattened keyword arguments include the id fields: the caller may pass "" / a UUID / nothing as a keyword
            sig = list(sig) + [n for n, _ in ids]
        svc.rpc(rpc, m.fqn, out_type, http=http, body=body, sigs=[",".join(sig)] if sig else [])
        candidates = [n for n, kw in ids if kw.get("uuid4")]
        auto = r.sample(candidates, r.randint(1, len(candidates)))
        if not methods:          # the first method of every library lists a proto3-optional and a plain field
            for must in ("opt_id", "request_id"):
                if must not in auto:
                    auto.insert(r.randint(0, len(auto)), must)
        if r.random() < 0.15:
            auto = auto + [auto[0]]                      # a field listed twice
        listed = r.random() < 0.85 or not methods
        if listed:
            e = {"selector": f"{PKG}.Library.{rpc}", "auto_populated_fields": auto}
            if r.random() < 0.25:
                e["long_running"] = {"initial_poll_delay": "3s"}
            settings.append(e)
        methods.append({"rpc": rpc, "snake": snake(rpc), "req_fqn": m.fqn, "http": http, "body": body, "sig": sig,
                        "fields": [{"name": n, "string": True, "required": False, "uuid4": bool(kw.get("uuid4")), "optional": bool(kw.get("optional")),
                                    "repeated": False} for n, kw in ids] + [{"name": "parent", "string": True, "required": False, "uuid4": False, "optional": False, "repeated": False}],
                        "auto": auto if listed else [], "selector": f"{PKG}.Library.{rpc}", "path": f"/{PKG}.Library/{rpc}", "where": where,
                        "types_mod": "google.example.library_v1.common.types" if where == "common" else "google.example.library_v1.types"})
    r.shuffle(settings)
    # Selective GAPIC generation with generate_omitted_as_internal: the omitted methods stay in the clients as `_<name>` and
    # their method settings still apply.  Every other library omits its first method (which always has settings) and possibly more.
    selective = None
    for m in methods:
        m["client_name"] = m["snake"]
    if index % 2 == 1:
        omitted = [methods[0]] + [m for m in methods[1:-1] if r.random() < 0.5]
        allow = [m["selector"] for m in methods if m not in omitted]
        selective = {"methods": allow, "internal": True}
        for m in omitted:
            m["client_name"] = "_" + m["snake"]
            m["internal"] = True
    for m in methods:
        m["uuid_proto"] = bool(extra)
    return [common] + extra + [main], methods, settings, selective


def snake(s):
    return re.sub(r"(?<=[a-z0-9])([A-Z])", r"_\1", s).lower()


def extract_blocks(src, class_name, method_names):
    """{method: [canonical lines]} — the if-blocks that assign str(uuid.uuid4()); anything else mentioning uuid raises."""
    tree = ast.parse(src)
    cls = next((n for n in tree.body if isinstance(n, ast.ClassDef) and n.name == class_name), None)
    if cls is None:
        raise ValueError(f"class {class_name} not found")
    has_import = any(isinstance(n, ast.Import) and any(a.name == "uuid" and a.asname is None for a in n.names) for n in tree.body)
    out = {}
    for mname in method_names:
        fn = next((f for f in cls.body if isinstance(f, (ast.FunctionDef, ast.AsyncFunctionDef)) and f.name == mname), None)
        if fn is None:
            raise ValueError(f"{class_name}.{mname} not found")
        lines, seen_send = [], False
        for st in fn.body:
            txt = ast.unparse(st)
            if re.search(r"\brpc\(", txt) and not txt.startswith("rpc ="):
                seen_send = True
            if "uuid" not in txt:
                continue
            ok = (isinstance(st, ast.If) and not st.orelse and len(st.body) == 1 and isinstance(st.body[0], ast.Assign)
                  and ast.unparse(st.body[0].value) == "str(uuid.uuid4())" and len(st.body[0].targets) == 1
                  and re.fullmatch(r"request\.\w+", ast.unparse(st.body[0].targets[0])))
            if not ok or seen_send:
                raise ValueError(f"{class_name}.{mname}: unexpected statement involving uuid (or after the send): {txt[:120]}")
            lines += [f"if {ast.unparse(st.test)}:", "    " + ast.unparse(st.body[0])]
        if lines and not has_import:
            raise ValueError(f"{class_name}.{mname} populates uuids but the module does not import uuid")
        out[mname] = lines
    return out


def coq_method(m):
    fs = coq.lst(f"(mkRField {coq.s(f['name'])} {coq.b(f['string'])} {coq.b(f['required'])} {coq.b(f['uuid4'])} {coq.b(f['optional'])} {coq.b(f['repeated'])})"
                 for f in m["fields"])
    return f"(mkMethod {coq.s(m['selector'])} false false (Some {fs}))", fs


def caller_states(r, m):
    """Valuations the caller passes: per string id field  None (unset) | '' | value."""
    ids = [f["name"] for f in m["fields"] if f["name"] != "parent"]
    opt = {f["name"] for f in m["fields"] if f["optional"]}
    states = [{n: None for n in ids}, {n: "" for n in ids}, {n: f"mine-{n}" for n in ids},
              {n: ("" if n in opt else None) for n in ids}]      # proto3-optional fields explicitly set to "": must be left alone
    for _ in range(1):
        states.append({n: r.choice([None, None, "", "given-" + n, "1b4e28ba-2fa1-4d3b-a3f5-ef19b5a7633b"]) for n in ids})
    return states


def sent_value_grpc(D, m, g, name):
    msg = D.parse(m["req_fqn"].lstrip("."), g["requests"][0])
    fd = msg.DESCRIPTOR.fields_by_name[name]
    if fd.has_presence:
        return msg.HasField(name), getattr(msg, name)
    return getattr(msg, name) != "", getattr(msg, name)


def camel(n):
    p = n.split("_")
    return p[0] + "".join(x.capitalize() for x in p[1:])


def sent_value_rest(m, h, name):
    key = camel(name)
    if m["body"] == "*":
        try:
            body = json.loads(h["body"] or "{}")
        except ValueError:
            return False, "<unparsable body>"
        if key in body:
            return True, body[key]
    vals = [v for k, v in h["query"] if k == key]
    if vals:
        return True, vals[0]
    return False, ""


def eval_call(ctx, D, i, b64, settings, c, res, checks, pending, generated):
    """Oracle + Coq terms for one driven call (all its repeats)."""
    m, st, kind = c["m"], c["state"], c["kind"]
    case = {"kind": "call", "request_b64": b64, "settings": settings, "selective": m.get("selective"), "spec": c["spec"], "state": st, "method": m}
    ctx.case({"lib": i, "rpc": m["rpc"], "kind": kind, "mode": c["mode"], "state": st, "auto": m["auto"]},
             feature=[f"call-{kind}", f"mode-{c['mode']}", "auto-listed" if m["auto"] else "method-without-settings",
                      f"request-message-in-{m.get('where', 'same')}-package-{kind}" if m["auto"] else "request-unlisted",
                      f"internal-method-with-settings-{kind}" if m.get("internal") and m["auto"] else "public-method",
                      "api-with-uuid.proto" if m.get("uuid_proto") else "api-without-uuid.proto",
                      "http-body-" + str(m["body"])])
    label = f"lib#{i} {m.get('client_name', m['rpc'])} (request message in {'sub-package common' if m.get('where') == 'common' else 'the service package'}) {kind} {c['mode']} auto={m['auto']} state={json.dumps(st)}"
    if not res.get("ok"):
        pending.append((None, f"{label}: the call raised {res.get('error')}", case))
        return
    seen = res["grpc_calls"] if kind != "rest" else res["http_calls"]
    if len(seen) != c["spec"]["repeat"]:
        pending.append((None, f"{label}: {len(seen)} requests reached the server for {c['spec']['repeat']} calls", case))
        return
    tag = f"L{i}_{m['rpc']}"
    BS = f"BS{'a' if kind == 'grpc_asyncio' else 's'}_{tag}"
    for k, g in enumerate(seen):
        obs = {}
        for f in m["fields"]:
            if f["name"] == "parent":
                continue
            obs[f["name"]] = sent_value_grpc(D, m, g, f["name"]) if kind != "rest" else sent_value_rest(m, g, f["name"])
        # ---- direct oracle: the property's sentence ----
        for f in m["fields"]:
            n = f["name"]
            if n == "parent":
                continue
            present, val = obs[n]
            given = st[n] if c["mode"] != "kwargs" or n in (c.get("passed") or []) else None
            listed = n in m["auto"]
            unset = given is None or (given == "" and not f["optional"])
            if listed and unset:
                if not (present and isinstance(val, str) and UUID4.match(val)):
                    pending.append((None, f"{label} call {k}: field {n} left unset/empty by the caller was sent as {val!r} (present={present}), not a version-4 UUID", case))
                else:
                    generated.append((val, label, k, n))
            else:
                if listed and f["optional"] and given == "":
                    ctx.features[f"optional-set-empty-listed-{kind}"] += 1
                    if c["mode"] == "kwargs":
                        ctx.features[f"optional-set-empty-as-keyword-{kind}"] += 1
                want_present, want_val = (given is not None, given or "") if f["optional"] else (bool(given), given or "")
                if (present, val) != (want_present, want_val):
                    why = "a caller-provided value was altered" if given else ("a field that is not auto-populated was touched" if not listed else "an optional field set to the empty string was overwritten")
                    pending.append((None, f"{label} call {k}: {why}: field {n} sent as {val!r} (present={present}), caller gave {given!r}", case))
        # ---- model = implementation, inside Coq ----
        stv = coq.lst(f"({coq.s(n)}, VStr {coq.s(v)})" for n, v in st.items() if v is not None and (c["mode"] != "kwargs" or n in (c.get("passed") or [])))
        order = []
        for n in m["auto"]:
            present, val = obs[n]
            given = st[n] if c["mode"] != "kwargs" or n in (c.get("passed") or []) else None
            if present and val != (given or "") and n not in [x for x, _ in order]:
                order.append((n, val))
        us = coq.slist(v for _, v in order)
        sent_terms = []
        for f in m["fields"]:
            n = f["name"]
            if n == "parent":
                continue
            present, val = obs[n]
            sent_terms.append(f"({coq.s(n)}, " + (f"Some (VStr {coq.s(val)})" if present else "None") + ")")
        checks.append((f"{label} call {k} sent={json.dumps(obs)}",
                       f"match {BS} with Some bs => forallb (fun p => call_matches FS_{tag} bs {stv} {us} (fst p) (snd p)) {coq.lst(sent_terms)} | None => false end"))


def library_defs(i, methods, settings):
    """Coq definitions shared by the checks of one library (evaluated once per cases file)."""
    out = [f"Definition S_L{i} := {coq_settings(settings)}."]
    for m in methods:
        M, FS = coq_method(m)
        tag = f"L{i}_{m['rpc']}"
        out += [f"Definition FS_{tag} := {FS}.", f"Definition M_{tag} := {M}.",
                f"Definition BSs_{tag} := Eval vm_compute in (client_blocks false M_{tag} S_L{i}).",
                f"Definition BSa_{tag} := Eval vm_compute in (client_blocks true M_{tag} S_L{i})."]
    return "\n".join(out)


def run_calls(ctx, n_libs, seed_tag="C18-lib"):
    jobs = []
    for i in range(n_libs):
        r = env.rng(seed_tag, i)
        files, methods, settings, selective = call_api(r, i)
        cd = gen.case_dir(f"c18lib{seed_tag}{i}")
        req = gen.with_params(apigen.request(files), ["transport=grpc+rest"], cd, service_yaml=service_yaml(settings, selective))
        for m in methods:
            m["selective"] = selective
        jobs.append((i, req, methods, settings, files))
    results = gen.pmap(lambda j: gen.run_generator(j[1]), jobs)
    checks, pending, drives, defs = [], [], [], []
    for (i, req, methods, settings, files), (res, err) in zip(jobs, results):
        defs.append(library_defs(i, methods, settings))
        if res is None:
            ctx.oblige(f"lib#{i}: generation succeeds for accepted settings {json.dumps(settings)[:200]}", False, err[-500:], "T1")
            continue
        fs = gen.files_of(res)
        S = coq_settings(settings)
        # ---- T1: emitted blocks of both clients = model ----
        base = "Base" if any(m.get("internal") for m in methods) else ""      # a service with internal methods is emitted as Base<Service>Client
        for fname, cls, is_async in (("client.py", base + "LibraryClient", False), ("async_client.py", base + "LibraryAsyncClient", True)):
            path = next((n for n in fs if n.endswith("/services/library/" + fname)), None)
            try:
                blocks = extract_blocks(fs[path], cls, [m["client_name"] for m in methods])
                blocks = {m["snake"]: blocks[m["client_name"]] for m in methods}
            except Exception as e:  # noqa
                ctx.oblige(f"lib#{i}: T1 extraction of the population blocks from {fname}", False, repr(e), "T1")
                continue
            for m in methods:
                checks.append((f"lib#{i} {cls}.{m['client_name']} (request message in {m['where']} package{', omitted by selective generation and kept as internal' if m.get('internal') else ''}) emitted population {blocks[m['snake']]} settings={json.dumps(settings)[:200]}",
                               f"lines_opt_eqb (option_map blocks_lines BS{'a' if is_async else 's'}_L{i}_{m['rpc']}) {coq.slist(blocks[m['snake']])}"))
        root = gen.materialize(res, gen.case_dir(f"c18root{seed_tag}{i}"))
        D = dyn.Dyn(req)
        r = env.rng(seed_tag + "-calls", i)
        calls = []
        for m in methods:
            for si, st in enumerate(caller_states(r, m)):
                msg = D.new(m["req_fqn"].lstrip("."))
                msg.parent = "projects/p1"
                for n, v in st.items():
                    if v is not None:
                        setattr(msg, n, v)       # optional '' keeps presence; plain '' is the default
                for kind, client in (("grpc", base + "LibraryClient"), ("grpc_asyncio", base + "LibraryAsyncClient"), ("rest", base + "LibraryClient")):
                    modes = ["message", "dict"] + (["kwargs", "kwargs"] if m["sig"] else [])
                    mode = r.choice(modes)
                    if m["sig"] and si in (1, 3):       # all fields "" / the proto3-optional fields "": always also as keyword arguments
                        mode = "kwargs"
                    rq = {"mode": mode, "cls": f"{m['types_mod']}:{m['rpc']}Request", "b64": dyn.Dyn.b64(msg)}
                    passed = None
                    if mode == "kwargs":            # a field whose state is None is simply not passed
                        passed = ["parent"] + [n for n in m["sig"][1:] if st.get(n) is not None]
                        rq["kwargs"] = passed
                    calls.append({"spec": {"service_module": "library", "client": client, "transport": kind, "method": m["client_name"], "request": rq,
                                           "repeat": r.choice([2, 3]), "http_default": {"status": 200, "body": "{}"}},
                                  "m": m, "state": st, "kind": kind, "mode": mode, "passed": passed})
        drives.append((i, req, methods, settings, root, D, calls))
    outs = gen.pmap(lambda d: gen.impl("drive", {"root": d[4], "package": "google.example.library_v1", "calls": [c["spec"] for c in d[6]]}), drives)
    for (i, req, methods, settings, root, D, calls), out in zip(drives, outs):
        b64 = apigen.req_b64(req)
        generated = []          # every value the library generated in this library's run: must be pairwise distinct
        for c, res in zip(calls, out):
            eval_call(ctx, D, i, b64, settings, c, res, checks, pending, generated)
        vals = [g[0] for g in generated]
        dup = {v for v in vals if vals.count(v) > 1}
        for v in list(dup)[:2]:
            where = [(g[1], g[2], g[3]) for g in generated if g[0] == v][:3]
            pending.append((None, f"lib#{i}: the generated value {v} was sent more than once (not fresh): {where}",
                            {"kind": "call", "request_b64": b64, "settings": settings, "duplicates": where}))
        ctx.features["generated-uuids"] += len(vals)
        gen.rm(root)
    failing, errors, nfiles = coq.eval_checks("c18lib" + re.sub(r"\W", "", seed_tag), IMPORTS, "\n".join(defs), checks)
    ctx.oblige(f"T1+T2 libraries: emitted population blocks = Model.client_blocks, and every field of every request at the server = Model.exec "
               f"({len(checks)} comparisons over {len(jobs)} generated libraries, {nfiles} cases files)",
               not failing and not errors and len(checks) > 0, "; ".join((failing + errors)[:5]), "T2")
    ctx.notes.setdefault("call_disagreements", []).extend(failing[:10])
    nolayout = [f"{w}/{k}" for w in ("common", "same") for k in ("grpc", "grpc_asyncio", "rest")
                if not ctx.features.get(f"request-message-in-{w}-package-{k}")]
    ctx.oblige("inputs: auto-populated methods whose request message lives in the service package AND in another package of the API were called "
               "through the sync, asyncio and REST paths", not nolayout or not drives, f"missing: {nolayout}", "T2")
    nointernal = [k for k in ("grpc", "grpc_asyncio", "rest") if not ctx.features.get(f"internal-method-with-settings-{k}")]
    ctx.oblige("inputs: an auto-populated method OMITTED by selective generation and kept as internal (_name) was called through the sync, asyncio "
               "and REST paths", not nointernal or len(drives) < 2, f"paths without such a call: {nointernal}", "T2")
    nokw = [k for k in ("grpc", "grpc_asyncio", "rest") if not ctx.features.get(f"optional-set-empty-as-keyword-{k}")]
    ctx.oblige('inputs: a listed proto3-optional field passed as the KEYWORD argument "" (flattened call) went through the sync, asyncio and REST paths',
               not nokw or not drives, f"paths without such a call: {nokw}", "T2")
    missing = [k for k in ("grpc", "grpc_asyncio", "rest") if not ctx.features.get(f"optional-set-empty-listed-{k}")]
    ctx.oblige("inputs: a listed proto3-optional field explicitly set to the empty string was sent through the sync, asyncio and REST paths",
               not missing or not drives, f"paths without such a call: {missing}", "T2")
    return pending


def witness_repeated(ctx):
    """The former gap (fixed by /repo 0fe08e8; Example former_gap_closed): method settings naming a REPEATED string UUID4 field
    must be rejected at generation time. Replayed in every run; a library coming out of it is reported with the old signature."""
    main = File("google/example/library/v1/library.proto", PKG, deps=list(apigen.STD_DEPS) + ["google/api/field_info.proto"])
    book = main.message("Book").field("name", 1, "string")
    rq = main.message("CreateBookRequest").field("parent", 1, "string").field("request_ids", 2, "string", repeated=True, uuid4=True)
    main.service("Library", host="library.example.com").rpc("CreateBook", rq.fqn, book.fqn, http=("post", "/v1/{parent=projects/*}/books"), body="*")
    settings = [{"selector": f"{PKG}.Library.CreateBook", "auto_populated_fields": ["request_ids"]}]
    req = gen.with_params(apigen.request([main]), ["transport=grpc"], gen.case_dir("c18witness"), service_yaml=service_yaml(settings))
    res, err = gen.run_generator(req)
    ctx.case({"witness": "repeated-string"}, feature=["witness-repeated-string"])
    case = {"kind": "witness-repeated", "request_b64": apigen.req_b64(req), "settings": settings}
    ctx.oblige("former gap (repeated string UUID4 field) stays closed: generation fails with MethodSettingsError",
               res is None and "MethodSettingsError" in err and "not of type string" in err, err[-300:] if res is None else "a library was generated", "T2")
    if res is None:
        return []
    return [(SIG_REPEATED, "method settings naming a REPEATED string field (format UUID4) are accepted although the field is not a string", case)]


def witness_oneof(ctx):
    """Known candidate defect, outside the model (whose fields are not oneof members): a listed field that is a member of a real
    oneof is accepted; at call time it is tested by truthiness, so a caller who set the *sibling* member loses that value, and an
    explicitly set empty string (oneof members have presence) is overwritten."""
    main = File("google/example/library/v1/library.proto", PKG, deps=list(apigen.STD_DEPS) + ["google/api/field_info.proto"])
    book = main.message("Book").field("name", 1, "string")
    rq = main.message("CreateBookRequest").field("parent", 1, "string").field("request_id", 2, "string", uuid4=True, oneof="id") \
        .field("numeric_id", 3, "int64", oneof="id")
    main.service("Library", host="library.example.com").rpc("CreateBook", rq.fqn, book.fqn, http=("post", "/v1/{parent=projects/*}/books"), body="*")
    settings = [{"selector": f"{PKG}.Library.CreateBook", "auto_populated_fields": ["request_id"]}]
    req = gen.with_params(apigen.request([main]), ["transport=grpc"], gen.case_dir("c18oneof"), service_yaml=service_yaml(settings))
    res, err = gen.run_generator(req)
    ctx.case({"witness": "oneof-member"}, feature=["witness-oneof-member"])
    if res is None:
        return []            # rejected at generation time: the defect is gone
    root = gen.materialize(res, gen.case_dir("c18oneofroot"))
    D = dyn.Dyn(req)
    msg = D.new(rq.fqn.lstrip("."))
    msg.parent, msg.numeric_id = "projects/p", 5
    spec = {"service_module": "library", "client": "LibraryClient", "transport": "grpc", "method": "create_book",
            "request": {"mode": "message", "cls": "google.example.library_v1.types:CreateBookRequest", "b64": dyn.Dyn.b64(msg)}}
    out = gen.impl("drive", {"root": root, "package": "google.example.library_v1", "calls": [spec]})[0]
    gen.rm(root)
    if not out.get("grpc_calls"):
        return [(None, f"oneof witness: the call did not reach the server: {out.get('error')}", {"kind": "witness-oneof", "request_b64": apigen.req_b64(req), "settings": settings})]
    sent = D.parse(rq.fqn.lstrip("."), out["grpc_calls"][0]["requests"][0])
    if sent.WhichOneof("id") == "numeric_id" and sent.numeric_id == 5:
        return []
    return [(SIG_ONEOF, "auto-populated field that is a member of a oneof: the caller set the sibling member numeric_id=5, the library populated "
             f"request_id and thereby erased the caller's value (request at the server: {str(sent).strip()!r})",
             {"kind": "witness-oneof", "request_b64": apigen.req_b64(req), "settings": settings, "spec": spec})]


# ---------------------------------------------------------------------------------------------- package layouts
LAYOUTS = {            # service -> proto sub-package (relative to the generated package; "" = declared directly in it)
    "top": {"Library": "", "Admin": ""},
    "mixed": {"Library": "", "Admin": "admin"},
    "mixed-rev": {"Library": "services", "Admin": ""},
    "allsub": {"Library": "services", "Admin": "admin"},
    "allsub-one": {"Library": "services", "Admin": "services"},
    "top-foreign-req": {"Library": "", "Admin": ""},          # request messages declared in sub-package <pkg>.common
    "allsub-foreign-req": {"Library": "services", "Admin": "admin"},
}
LAYOUT_FIELDS = [("parent", "string", {}, None), ("request_id", "string", {}, "UUID4"), ("opt_id", "string", {"optional": True}, "UUID4"),
                 ("name", "string", {"required": True}, None), ("count", "int32", {}, "UUID4"), ("note", "string", {}, None),
                 ("req_uuid", "string", {"required": True}, "UUID4"), ("rep_id", "string", {"repeated": True}, "UUID4")]


def layout_api(layout):
    """Services spread over proto sub-packages of the generated package (the messages they return live in <pkg>.resources, so the
    common package prefix stays <pkg> even when no service is declared directly in it)."""
    from google.api import field_info_pb2
    d = "/".join(PKG.split("."))
    res = File(f"{d}/resources/resources.proto", PKG + ".resources", deps=list(apigen.STD_DEPS))
    book = res.message("Book").field("title", 1, "string")
    files, desc, byfile = [res], {"methods": {}, "layout": layout}, {}
    reqfile = None
    if layout.endswith("foreign-req"):
        reqfile = File(f"{d}/common/requests.proto", PKG + ".common", deps=list(apigen.STD_DEPS) + ["google/api/field_info.proto"])
        files.append(reqfile)
    rpcs = {"Library": [("CreateBook", False, False), ("UpdateBook", False, False), ("WatchBooks", False, True), ("UploadBooks", True, False)],
            "Admin": [("CreateThing", False, False), ("GetThing", False, False)]}
    for svc_name, sub in LAYOUTS[layout].items():
        pkg = PKG + ("." + sub if sub else "")
        key = (sub, svc_name if LAYOUTS[layout]["Library"] != LAYOUTS[layout]["Admin"] or not sub else "both")
        fname = f"{d}/{sub + '/' if sub else ''}{svc_name.lower()}.proto"
        f = File(fname, pkg, deps=list(apigen.STD_DEPS) + ["google/api/field_info.proto", res.proto.name] + ([reqfile.proto.name] if reqfile else []))
        inner = (reqfile or f).message(svc_name + "Inner").field("request_id", 1, "string", uuid4=True)
        svc = f.service(svc_name, host="library.example.com")
        for rpc, cs, ss in rpcs[svc_name]:
            m = (reqfile or f).message(rpc + "Request")
            for i, (n, t, kw, fmt) in enumerate(LAYOUT_FIELDS, 1):
                m.field(n, i, t, **kw)
                if fmt:
                    m.proto.field[-1].options.Extensions[field_info_pb2.field_info].format = getattr(field_info_pb2.FieldInfo, fmt)
            m.field("inner", 20, inner.fqn)
            svc.rpc(rpc, m.fqn, book.fqn, cs=cs, ss=ss)
            desc["methods"][f"{pkg}.{svc_name}.{rpc}"] = {
                "cs": cs, "ss": ss, "sub": [sub] if sub else [], "service": svc_name, "rpc": rpc,
                "fields": [{"name": n, "string": t == "string", "required": bool(kw.get("required")), "uuid4": fmt == "UUID4",
                            "optional": bool(kw.get("optional")), "repeated": bool(kw.get("repeated"))} for n, t, kw, fmt in LAYOUT_FIELDS]
                + [{"name": "inner", "string": False, "required": False, "uuid4": False, "optional": False, "repeated": False}]}
        files.append(f)
    return files, desc


def layout_settings(r, desc, full):
    sel = {m["rpc"]: s for s, m in desc["methods"].items()}
    good_lib = {"selector": sel["CreateBook"], "auto_populated_fields": ["request_id", "opt_id"]}
    good_adm = {"selector": sel["CreateThing"], "auto_populated_fields": ["opt_id"]}
    bad = lambda rpc, fields: {"selector": sel[rpc], "auto_populated_fields": fields}
    out = [
        ("valid-library", [good_lib]), ("valid-admin", [good_adm]), ("valid-both", [good_lib, good_adm]),
        ("valid-no-fields", [{"selector": sel["CreateBook"], "auto_populated_fields": []}, {"selector": sel["GetThing"], "auto_populated_fields": []}]),
        ("empty-list", []),
        ("missing-method", [{"selector": sel["CreateBook"] + "s", "auto_populated_fields": ["request_id"]}]),
        ("missing-method", [good_adm, {"selector": sel["CreateThing"].replace("CreateThing", "CreateThings"), "auto_populated_fields": ["opt_id"]}]),
        ("missing-service", [{"selector": f"{PKG}.Nope.CreateBook", "auto_populated_fields": ["request_id"]}]),
        ("streaming", [bad("WatchBooks", ["request_id"])]), ("streaming", [good_adm, bad("UploadBooks", ["opt_id"])]),
        ("bad-field-required", [bad("CreateBook", ["name"])]), ("bad-field-required", [bad("CreateThing", ["req_uuid"]), good_lib]),
        ("bad-field-not-string", [bad("UpdateBook", ["count"])]), ("bad-field-no-format", [bad("CreateThing", ["note"])]),
        ("bad-field-nested", [bad("CreateBook", ["inner.request_id"])]), ("bad-field-missing", [bad("GetThing", ["nope"])]),
        ("bad-field-repeated", [bad("CreateBook", ["rep_id"])]),
        ("duplicate", [good_lib, dict(good_lib)]), ("duplicate", [good_adm, good_lib, {"selector": sel["CreateThing"], "auto_populated_fields": []}]),
    ]
    if not full:
        out = out[:3] + r.sample(out[3:], 4)
    return out


def coq_layout(desc):
    items = []
    for s, m in desc["methods"].items():
        fs = coq.lst(f"(mkRField {coq.s(f['name'])} {coq.b(f['string'])} {coq.b(f['required'])} {coq.b(f['uuid4'])} {coq.b(f['optional'])} {coq.b(f['repeated'])})"
                     for f in m["fields"])
        items.append(f"(mkLMethod {coq.slist(m['sub'])} (mkMethod {coq.s(s)} {coq.b(m['cs'])} {coq.b(m['ss'])} (Some {fs})))")
    return coq.lst(items)


def run_layouts(ctx, seed_tag="C18-layout", full_layouts=2, only=None):
    """Generation outcome through the real generator path (API.build + Generator.get_response: validation is lazy and runs on the
    view of the sub-package that owns each service), crossed with how the services are spread over proto sub-packages.
    The former gap (a sub-package view rejected valid settings naming a method outside it; fixed by /repo efe4cb8) is watched by the
    valid-* settings of the mixed / all-sub layouts and reported with its old signature if it comes back."""
    cases = []
    for li, layout in enumerate(LAYOUTS):
        r = env.rng(seed_tag, li)
        files, desc = layout_api(layout)
        todo = layout_settings(r, desc, full=ctx.tier != "quick" or layout in ("allsub", "mixed", "allsub-one", "top-foreign-req"))
        d = os.path.join(env.VERIF, "corpus", "C18")
        for n in sorted(os.listdir(d)) if os.path.isdir(d) else []:
            c = json.load(open(os.path.join(d, n))) if n.endswith(".json") else {}
            if c.get("kind") == "layout-corpus" and c["layout"] == layout:
                todo.insert(0, ("corpus:" + n, c["settings"]))
        for k, (kind, settings) in enumerate(todo):
            if only is not None and (layout, settings) != only:
                continue
            req = gen.with_params(apigen.request(files), ["transport=grpc"], gen.case_dir(f"c18lay{seed_tag}{layout}{k}"), service_yaml=service_yaml(settings))
            cases.append({"layout": layout, "kind": kind, "settings": settings, "desc": desc, "req": req})
    if only is not None and not cases:
        files, desc = layout_api(only[0])
        req = gen.with_params(apigen.request(files), ["transport=grpc"], gen.case_dir(f"c18layonly"), service_yaml=service_yaml(only[1]))
        cases.append({"layout": only[0], "kind": "replay", "settings": only[1], "desc": desc, "req": req})
    outs = []
    chunks = [cases[i:i + 4] for i in range(0, len(cases), 4)]
    for part in gen.pmap(lambda ch: gen.impl("msgen", [{"request_b64": apigen.req_b64(c["req"])} for c in ch]), chunks):
        outs += part
    checks, pending = [], []
    defs = "\n".join(f"Definition LAY_{re.sub(chr(45), '_', l)} := {coq_layout(layout_api(l)[1])}." for l in LAYOUTS)
    for c, o in zip(cases, outs):
        layout, settings, desc = c["layout"], c["settings"], c["desc"]
        subs = sorted({"/".join(m["sub"]) or "<top>" for m in desc["methods"].values()})
        ctx.case({"layout": layout, "settings": settings}, nontrivial=bool(settings),
                 feature=[f"layout-{layout}", f"layout-settings-{c['kind']}", f"layout-outcome-{o['outcome']}"])
        case = {"kind": "layout", "layout": layout, "settings": settings, "request_b64": apigen.req_b64(c["req"]), "outcome": {k: v for k, v in o.items() if k != "populated"}}
        if o["outcome"] == "harness-error":
            ctx.oblige("T2 layouts: impl script ran", False, json.dumps(o)[:500])
            continue
        short = json.dumps([[e["selector"].replace(PKG + ".", ""), e.get("auto_populated_fields")] for e in settings])
        label = f"layout={layout} (services in {subs}) {c['kind']} settings={short} generator={json.dumps({k: v for k, v in o.items() if k != 'populated'})[:240]}"
        checks.append((label, f"layout_outcome_matches LAY_{layout.replace('-', '_')} {coq_settings(settings)} {coq_outcome(o)}"))
        # ---- direct oracle: the property's sentence, judged against the methods of the whole API ----
        verdict = spec_verdict(desc, settings)
        failed = o["outcome"] != "accepted"
        if verdict == "must-fail" and not failed:
            pending.append((None, f"the generator produced a library for method settings that must be rejected (services in sub-packages {subs}; "
                                  f"emitted population: {json.dumps(o.get('populated'))[:300]}): {json.dumps(settings)}", case))
        if verdict == "must-succeed" and failed:
            errs = o.get("errors") or {}
            explained = (o["outcome"] == "rejected" and subs != ["<top>"] and errs
                         and all(v == ["Method was not found."] and k in desc["methods"] for k, v in errs.items()))
            pending.append((SIG_SUBVIEW if explained else None,
                            f"generation rejects method settings that are valid for the API (services in sub-packages {subs}): {json.dumps(settings)} -> {json.dumps(o)[:300]}", case))
        if o["outcome"] == "accepted" and verdict == "must-succeed":
            want = {}
            for e in settings:
                m = desc["methods"].get(e["selector"])
                if e.get("auto_populated_fields") and m is not None:
                    want.setdefault(snake(m["service"]), {})[snake(m["rpc"])] = list(e["auto_populated_fields"])
            got = {}
            for fname, per in (o.get("populated") or {}).items():
                mm = re.search(r"/services/(\w+)/(client|async_client)\.py$", fname)
                got.setdefault((mm.group(1), mm.group(2)), {}).update(per)
            for svc, per in want.items():
                for which in ("client", "async_client"):
                    if got.get((svc, which)) != per:
                        pending.append((None, f"layout={layout}: accepted settings {json.dumps(settings)} but {svc}/{which}.py populates {got.get((svc, which))} instead of {per}", case))
            for (svc, which), per in got.items():
                if per != want.get(svc):
                    pending.append((None, f"layout={layout}: {svc}/{which}.py populates {per} which the settings do not ask for", case))
    failing, errors, nfiles = coq.eval_checks("c18layout" + re.sub(r"\W", "", seed_tag), IMPORTS, defs, checks)
    ctx.oblige(f"T2 layouts: generator outcome (API.build + Generator.get_response) = Model.view_outcomes on {len(checks)} (layout, settings) pairs ({nfiles} cases files)",
               not failing and not errors and (len(checks) > 0 or only is not None), "; ".join((failing + errors)[:5]))
    ctx.notes.setdefault("layout_disagreements", []).extend(failing[:10])
    return pending


def report(ctx, pending):
    groups = {}
    for p in pending:
        if p[0] is None:
            key = re.sub(r"[0-9a-f]{8}-[0-9a-f-]{27}|lib#\d+|api#\d+|'[^']*'|\"[^\"]*\"|\d+", "#", p[1])[:60]
            groups.setdefault(key, []).append(p)
    for g in list(groups.values())[:5]:
        ctx.violation(g[0][1], g[0][2], None)
    seen = set()
    for sig, what, c in pending:
        if sig is not None and sig not in seen:
            seen.add(sig)
            ctx.violation(what, c, sig)
    ctx.notes["oracle_disagreements_by_signature"] = {str(k): sum(1 for p in pending if p[0] == k) for k in {p[0] for p in pending}}


def run(ctx):
    pending = []
    pending += run_validation(ctx, ctx.n(3, 40), ctx.n(16, 48))
    pending += run_calls(ctx, ctx.n(3, 30))
    pending += run_layouts(ctx)
    pending += witness_repeated(ctx)
    pending += witness_oneof(ctx)
    report(ctx, pending)


def search(ctx, broken):
    pending = []
    pending += run_validation(ctx, 12, 48, seed_tag="C18-search-val")
    pending += run_layouts(ctx, seed_tag="C18-search-layout")
    pending += run_calls(ctx, 10, seed_tag="C18-search-lib")
    report(ctx, [p for p in pending if p[0] is None])


def replay(ctx, rep):
    c = rep.get("case", {})
    if c.get("kind") == "validation":
        files_req = apigen.req_from_b64(c["request_b64"])
        sel = c.get("selective")
        req = gen.with_params(files_req, ["transport=grpc"], gen.case_dir("c18replay"), service_yaml=service_yaml(c["settings"], sel))
        o = gen.impl("msettings", [{"request_b64": apigen.req_b64(req)}])[0]
        verdict = spec_verdict(c["desc"], c["settings"], sel)
        print(f"replay: settings {json.dumps(c['settings'])}\nreplay: selective_gapic_generation: {json.dumps(sel)}\nreplay: implementation: {json.dumps(o)}\nreplay: the property's sentence: {verdict}")
        failed = o["outcome"] != "accepted"
        if (verdict == "must-fail" and not failed) or (verdict == "must-succeed" and failed):
            ctx.violation(rep.get("what", "validation disagrees with the property"), c, rep.get("signature"))
        failing, errors, _ = coq.eval_checks("c18replay", IMPORTS, "", [("replay", f"outcome_eqb (enforce {coq_table(c['desc'], sel)} {coq_settings(c['settings'])}) {coq_outcome(o)}")])
        ctx.oblige("replay: Model.enforce = implementation", not failing and not errors, "; ".join(failing + errors)[:600])
    elif c.get("kind") == "layout":
        pending = run_layouts(ctx, seed_tag="C18-replay-layout", only=(c["layout"], c["settings"]))
        pending = [(p[0] or rep.get("signature"), p[1], p[2]) for p in pending]
        report(ctx, pending)
        for p in pending:
            print("replay:", p[1])
        if not pending:
            print("replay: the oracle no longer fails on this case")
    elif c.get("kind") == "call" and "spec" in c:
        files_req = apigen.req_from_b64(c["request_b64"])
        req = gen.with_params(files_req, ["transport=grpc+rest"], gen.case_dir("c18replay"), service_yaml=service_yaml(c["settings"], c.get("selective")))
        res, err = gen.run_generator(req)
        if res is None:
            ctx.oblige("replay: generation succeeds", False, err[-500:])
            return
        root = gen.materialize(res, gen.case_dir("c18replayroot"))
        out = gen.impl("drive", {"root": root, "package": "google.example.library_v1", "calls": [c["spec"]]})[0]
        D = dyn.Dyn(req)
        print(f"replay: caller valuation {json.dumps(c['state'])}; auto-populated fields {c['method']['auto']}; ok={out.get('ok')} {out.get('error')}")
        for g in out.get("grpc_calls", []):
            print("replay: request at the gRPC server:", str(D.parse(c["method"]["req_fqn"].lstrip("."), g["requests"][0])).replace("\n", "; "))
        for h in out.get("http_calls", []):
            print("replay: request at the HTTP server:", h["verb"], h["path"], h["query"], h["body"])
        checks, pending, generated = [], [], []
        call = {"spec": c["spec"], "m": c["method"], "state": c["state"], "kind": c["spec"]["transport"], "mode": c["spec"]["request"]["mode"],
                "passed": c["spec"]["request"].get("kwargs")}
        eval_call(ctx, D, 0, c["request_b64"], c["settings"], call, out, checks, pending, generated)
        failing, errors, _ = coq.eval_checks("c18replaycall", IMPORTS, library_defs(0, [c["method"]], c["settings"]), checks)
        ctx.oblige("replay: requests at the server = Model.exec", not failing and not errors, "; ".join(failing + errors)[:600])
        pending = [(p[0] or rep.get("signature"), p[1], p[2]) for p in pending]
        report(ctx, pending)
        for p in pending:
            print("replay:", p[1])
        if not pending:
            print("replay: the oracle no longer fails on this case")
    else:
        run(ctx)
