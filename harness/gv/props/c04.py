"""C04 — REST calls transcode each request exactly as its google.api.http rule prescribes."""
import ast, base64, json, os, re, urllib.parse
from google.api import annotations_pb2
from google.api_core import path_template
from google.protobuf import json_format
from google.protobuf.descriptor import FieldDescriptor as FD
from .. import env, coq, gen, apigen, dyn, t0
from . import c04_api as A
from . import c04_oracle as O

RULE = ("random APIs from a grammar of google.api.http rules: verbs get/put/post/delete/patch; uri shapes {v=lit/*}, "
        "{v=a/*/b/*}, {v}, {v=files/**}, {v=**}:verb, nested {m.name=..}, {m.inner.code=*}, reserved-word variables {kw=..} "
        "and {m.kw=..}, two variables, adjacent */** variables, no variable, '.' in a literal; body absent / '*' / a message "
        "field (also reserved-word named); 0-2 additional bindings; request messages with required/optional/repeated "
        "scalars of every kind, enums, repeated enums, maps, repeated messages, FieldMask/Timestamp; a rule-less, a "
        "custom-only and a client-streaming method; x rest-numeric-enums in {off, on}. For each method random request "
        "valuations (dyn.Dyn.random, path variables then set to matching / mismatching / empty values per binding) are "
        "sent through the emitted REST client to a loopback HTTP server. A case is one (API, option, method, request); "
        "distinct = distinct canonical JSON of it; non-trivial = the method has at least one binding. The contract "
        "path_template.transcode is compared with the model on (bindings, request) pairs of the same grammar, and "
        "convert_uri_fieldnames / try_parse_http_rule / to_camel_case / validate on generated strings.")
TRUSTED = [
    "Model/Http.v + Model/HttpValues.v: hand-written model of HttpRule.try_parse_http_rule, Method.http_options/path_params/"
    "query_params, the __REQUIRED_FIELDS_DEFAULT_VALUES table, uri_conv.convert_uri_fieldnames, to_camel_case and of the emitted "
    "call path of rest_base.py.j2/_shared_macros.j2/rest.py.j2 (tied by T1 to the emitted literals and by T2 to behaviour)",
    "contract: google.api_core.path_template (_VARIABLE_RE on the http.proto grammar, expand, validate, get_field, delete_field, "
    "transcode) behaves as Model/Http.v transcode/applies/rmatch (validated on every run against the installed library)",
    "contract: json_format.MessageToJson renders lowerCamel names, enums by name or number, and rest_helpers.flatten_query_params "
    "(strict) renders dotted keys and str() values as query_pairs/dflt_pairs say (validated through the emitted transport)",
    "Model/Reserved.v (field_attr, fix_path, body_attr, to_json_name) over Gen/Kw.v regenerated from /repo (T0); Model/Case.v (snake, capitalize)",
    "harness: c04_api.leaves_of (abstraction of a message to leaves), ast readers of rest_base.py/rest.py, impl/drive.py loopback "
    "HTTP server, impl/c04_pure.py, apigen + DescriptorPool, c04_oracle.py (ParseDict re-assembly)",
]
ASSUMES = [
    "uri templates follow the google/api/http.proto grammar: balanced, non-nested braces, dotted identifier variable names, no "
    "wildcard outside a variable, URL-safe literal characters [A-Za-z0-9/_.~:-]",
    "path variables name singular string fields; a named body names a top-level message field; proto3 (no explicit default values)",
    "the first rule has a verb pattern whenever the method has any binding; request messages are proto-plus types of the API's own package",
    "field names are lower_snake_case (names_agree: to_camel_case and protobuf's JSON name coincide; evaluated on every generated method)",
    "presence of EMPTY sub-messages is not represented (a query string cannot carry it); values contain no newline",
    "C04_required_defaults_complete_partial: requests sent through an additional binding are covered only w.r.t. the FIRST rule",
    "C04_wire_names_uri / C04_uri_names_proto: the converted uri tokens are printable and no field or variable component is a reserved "
    "word followed by '_' (two such fields share one attribute); both evaluated on every generated uri and on sampled requests",
]

SVC_MOD = "tc_service"
CLIENT = "TcServiceClient"


def _t0_literals():
    """Literals of /repo (and of the installed api_core contract) the model was written against; fail-closed."""
    tree = ast.parse(open(os.path.join(env.REPO, "gapic/schema/wrappers.py"), encoding="utf-8").read())
    out = {}
    for cls in [n for n in tree.body if isinstance(n, ast.ClassDef)]:
        for fn in [n for n in cls.body if isinstance(n, ast.FunctionDef)]:
            if cls.name == "Method" and fn.name == "path_params":
                pats = [n.value.value for n in ast.walk(fn) if isinstance(n, ast.Assign) and getattr(n.targets[0], "id", "") == "pattern"
                        and isinstance(n.value, ast.Constant)]
                calls = [ast.unparse(n) for n in ast.walk(fn) if isinstance(n, ast.Call) and ast.unparse(n.func) == "re.findall"]
                urls = [ast.unparse(n.value) for n in ast.walk(fn) if isinstance(n, ast.Assign) and getattr(n.targets[0], "id", "") == "url"]
                guards = [ast.unparse(n.test) for n in ast.walk(fn) if isinstance(n, ast.If) and ast.unparse(n.body[0]) == "return []"]
                # since /repo 9c45d02: url = self.http_opt['url']; a primary rule without a standard pattern (url not a str) names no parameter
                if (len(pats) != 1 or calls != ["re.findall(pattern, url)"] or urls != ["self.http_opt['url']"]
                        or guards != ["self.http_opt is None", "not isinstance(url, str)"]):
                    raise ValueError("Method.path_params: url = self.http_opt['url']; guard on non-string url; pattern = r'...'; "
                                     "re.findall(pattern, url) not found")
                out["PATH_PARAMS_RE_src"] = pats[0]
            if cls.name == "HttpRule" and fn.name == "try_parse_http_rule":
                cmp_ = [ast.unparse(n) for n in ast.walk(fn) if isinstance(n, ast.If) and "custom" in ast.unparse(n.test)]
                tests = [ast.unparse(n.test) for n in ast.walk(fn) if isinstance(n, ast.If)]
                out["TRY_PARSE_TESTS_src"] = " ; ".join(tests)
            if cls.name == "Method" and fn.name == "query_params":
                out["QUERY_PARAMS_RETURN_src"] = " ; ".join(ast.unparse(n.value) for n in ast.walk(fn) if isinstance(n, ast.Return) and n.value is not None)
                out["QUERY_PARAMS_SUFFIX_src"] = " ; ".join(f"if {ast.unparse(n.test)}: {ast.unparse(n.body[0])}" for n in ast.walk(fn)
                                                            if isinstance(n, ast.If) and any(isinstance(x, ast.SetComp) for x in ast.walk(n)))
    for k in ("PATH_PARAMS_RE_src", "TRY_PARSE_TESTS_src", "QUERY_PARAMS_RETURN_src", "QUERY_PARAMS_SUFFIX_src"):
        if k not in out:
            raise ValueError(f"{k}: anchor not found in gapic/schema/wrappers.py")
    # contract (installed api_core): the re.VERBOSE pattern without its comments and whitespace
    out["VARIABLE_RE_src"] = "".join("".join(l.split("#")[0] for l in path_template._VARIABLE_RE.pattern.split("\n")).split())
    out["SEGMENT_PATTERNS_src"] = path_template._SINGLE_SEGMENT_PATTERN + " " + path_template._MULTI_SEGMENT_PATTERN
    return out


def regen(ctx):
    t0.write_kw()
    lits = _t0_literals()
    text = ("(* Gen/HttpGen.v — REGENERATED from /repo (gapic/schema/wrappers.py, read with ast) and from the installed\n"
            "   google.api_core.path_template on every run (T0). Do not edit. *)\nFrom GV Require Import Base.Str.\n")
    for k in sorted(lits):
        text += f"Definition {k} : string := {coq.s(lits[k])}.\n"
    coq.write_gen("HttpGen", text)
    if ctx is not None:
        bad = [f"{k} = {lits[k]!r} (model written against {v!r})" for k, v in PINNED.items() if lits.get(k) != v]
        ctx.oblige("T0 literals of wrappers.py (path_params regex, try_parse tests, query_params returns) and of api_core's path_template "
                   "equal the ones Model/Http.v was written against (also pinned in Proofs/Http.v)", not bad, "; ".join(bad), "T0")


PINNED = {
    "PATH_PARAMS_RE_src": r"\{(\w+)(?:=.+?)?\}",
    "TRY_PARSE_TESTS_src": "method is None or method == 'custom' ; not uri ; body in utils.RESERVED_NAMES and (not body.endswith('_'))",
    "QUERY_PARAMS_RETURN_src": "set(self.input.fields) - params ; set() ; set()",
    "QUERY_PARAMS_SUFFIX_src": "if self.input.meta.address.is_proto_plus_type: params = {param + '_' if param in utils.RESERVED_NAMES else param for param in params}",
    "VARIABLE_RE_src": r"((?P<positional>\*\*?)|{(?P<name>[^/]+?)(?:=(?P<template>.+?))?})",
    "SEGMENT_PATTERNS_src": "([^/]+) (.+)",
}


def reserved_pool():
    ws = [w for w in t0.reserved_names() if re.fullmatch(r"[a-z][a-z0-9_]*", w) and not w.endswith("_")]
    return sorted(ws)


# ------------------------------------------------------------------ pure functions and contracts (T2)
def uri_forms(words):
    out = []
    for w in words:
        out += ["/v1/{%s=items/*}" % w, "/v1/{sub.%s=things/*}:go" % w, "/v1/{%s.name=a/*/b/*}/x/{%s}" % (w, w),
                "/v2/{a.%s.b=**}" % w, "/v1/lit/%s/{name}" % w, "/v1/{%s_x=*}/{x_%s}" % (w, w)]
    return out


def run_pure(ctx):
    words = reserved_pool() + ["name", "parent", "page_size", "f_int64", "update_mask", "book", "a1", "x_2b", "foo__bar", "http_v2_path"]
    uris = uri_forms(words) + ["/v1/things:list", "/", "/v1/{name}", "/v1.1/{name=items/*}", "/v1/{a=*}/{b=**}", "/v1/{name=files/**}:fetch"]
    rules = []
    for w in words[:25] + ["", "*", "class_", "from_"]:
        rules.append({"pat": "verb", "verb": "post", "uri": "/v1/{name=items/*}", "body": w})
    rules += [{"pat": "none", "body": ""}, {"pat": "custom", "body": ""}, {"pat": "verb", "verb": "get", "uri": "", "body": ""},
              {"pat": "verb", "verb": "delete", "uri": "/v1/{class=x/*}", "body": ""}, {"pat": "verb", "verb": "patch", "uri": "/v1/{b.class=x/*}", "body": "b"},
              {"pat": "verb", "verb": "put", "uri": "/v1/x", "body": "*"}]
    names = words + [w + "_" for w in reserved_pool()[:20]] + ["f_sint32", "f_double", "kinds", "page_size_", "a_b_c", "a1_b2"] + A.DIGIT_NAMES
    out = gen.impl("c04_pure", {"uris": uris, "rules": rules, "names": names})
    checks = []
    for u, got in zip(uris, out["uris"]):
        checks.append((f"convert_uri {u!r}", f"String.eqb (convert_uri {coq.s(u)}) {coq.s(got)}"))
        checks.append((f"wf_uri {u!r}", f"wf_uri {coq.s(u)}"))
    for r, got in zip(rules, out["rules"]):
        obs = "None" if got is None else "" if isinstance(got, dict) else f"(Some (mkBinding {coq.s(got[0])} {coq.s(got[1])} {coq.opt(got[2])}))"
        if isinstance(got, dict):
            ctx.violation(f"HttpRule.try_parse_http_rule raised {got['error']} on rule {r}", {"rule": r}, None)
            obs = f"(Some (mkBinding {coq.s('raised')} {coq.s(got['error'])} None))"
        checks.append((f"try_parse {r}", f"option_eqb binding_eqb (try_parse {A.rule_term(r)}) {obs}"))
    for n, got in zip(names, out["camel"]):
        checks.append((f"camel_case {n!r}", f"String.eqb (camel_case {coq.s(n)}) {coq.s(got)}"))
    # contract: tokenisation by _VARIABLE_RE, validate() on instances, near-instances and hostile strings
    r = env.rng("C04-validate", 0)
    tmpls = ["/v1/{name=items/*}", "/v1/{name=shelves/*/books/*}", "/v1/{a=*}/{b=**}", "/v1/{name}", "/v1.1/{name=items/*}:go",
             "/v1/{name=files/**}", "/v1/{n=**}:fetch", "/v1/items/{name}/detail", "/v1/things:list", "/v1/{a.b=x/*}/{c}"]
    for t in tmpls:
        found = [[m.group("name"), m.group("template")] for m in path_template._VARIABLE_RE.finditer(t)]
        term = coq.lst(f"UVar {coq.s(n)} {coq.opt(tp)}" for n, tp in found)
        checks.append((f"_VARIABLE_RE {t!r}", f"list_eqb utok_eqb (filter is_uvar (utoks {coq.s(t)})) {term}"))
        inst = [re.sub(r"\{[^}]*\}", lambda m: r.choice(["items/i1", "x", "a/b/c", "shelves/s/books/b", "files/a/b", "x.y", "it ems/é"]), t) for _ in range(6)]
        inst += [t.replace("{", "").replace("}", ""), "/v1/items/i1", "/v1/items/i1\n", "/v1x1/items/i1:go", "/v1/x/y/z", "/v1/files/a\nb", "/v1/things:list", ""]
        for p in inst:
            checks.append((f"validate {t!r} {p!r}", f"Bool.eqb (rmatch (uri_rtoks (utoks {coq.s(t)})) {coq.s(p)}) {coq.b(path_template.validate(t, p))}"))
    for lbl, _ in checks:
        ctx.case({"pure": lbl}, nontrivial=True, feature="pure")
    defs = ("Definition utok_eqb (a b : utok) : bool := match a, b with ULit x, ULit y => String.eqb x y "
            "| UVar n t, UVar n' t' => String.eqb n n' && option_eqb String.eqb t t' | _, _ => false end.\n"
            "Definition is_uvar (t : utok) : bool := match t with UVar _ _ => true | _ => false end.\n")
    failing, errors, _ = coq.eval_checks("c04pure", IMPORTS, defs, checks)
    ctx.oblige(f"T2 model = implementation on {len(checks)} evaluations of convert_uri_fieldnames / try_parse_http_rule / to_camel_case "
               f"and of the contracts _VARIABLE_RE / validate", not failing and not errors, "; ".join((failing + errors)[:8]))
    ctx.notes["pure_disagreements"] = failing[:20]
    return failing


IMPORTS = "From GV Require Import Gen.Kw Model.Reserved Model.Case Model.HttpValues Model.Http."


# ------------------------------------------------------------------ requests
def _instantiate(r, sub):
    segs = []
    for k, t in sub:
        if k == "lit":
            segs.append(t)
        elif k == "*":
            segs.append(r.choice(A.SAFE_SEGS))
        else:
            segs.extend(r.choice(A.SAFE_SEGS) for _ in range(r.randint(1, 3)))
    return "/".join(segs)


def _set_path(msg, dotted, value):
    parts = dotted.split(".")
    o = msg
    for p in parts[:-1]:
        o = getattr(o, p)
    if value is None:
        o.ClearField(parts[-1])
    else:
        setattr(o, parts[-1], value)


def _fill_repeated(msg):
    for fd, val in msg.ListFields():
        if fd.type != FD.TYPE_MESSAGE or fd.message_type.full_name in A.LEAF_WKT or fd.message_type.GetOptions().map_entry:
            continue
        for v in (val if fd.label == FD.LABEL_REPEATED else [val]):
            _fill_repeated(v)
            if fd.label == FD.LABEL_REPEATED and not v.ListFields():
                f0 = v.DESCRIPTOR.fields[0]
                setattr(v, f0.name, "c" if f0.type == FD.TYPE_STRING else 1)


def _clear_repeated_messages(msg):
    for fd, val in list(msg.ListFields()):
        if fd.type != FD.TYPE_MESSAGE or fd.message_type.full_name in A.LEAF_WKT or fd.message_type.GetOptions().map_entry:
            continue
        if fd.label == FD.LABEL_REPEATED:
            msg.ClearField(fd.name)
        else:
            _clear_repeated_messages(val)


def make_request(r, d, ms, family="normal"):
    """A random valuation whose path variables are then steered towards one target binding."""
    m = d.random(r, ms["input"], fill=r.choice([0.25, 0.6, 0.9]))
    if r.random() < 0.8:
        _clear_repeated_messages(m)       # they make every non-body placement a refusal; keep most requests sendable
    _fill_repeated(m)
    binds = O.bindings_of(ms)
    if not binds:
        return m
    target = r.randrange(len(binds))
    order = [i for i in range(len(binds)) if i != target] + [target]
    for i in order:
        for name, sub in binds[i]["tmpl"]["vars"].items():
            x = r.random()
            if i == target and x < 0.85 or i != target and x < 0.4:
                v = _instantiate(r, sub)
            elif x < 0.93 and i == target or i != target and x < 0.75:
                v = None
            else:
                v = r.choice(["wrong/" + _instantiate(r, sub), "items", _instantiate(r, sub) + "/extra", "x"])
            if family == "hostile" and i == target and v:
                v = v + r.choice(["?q", "#frag", "%41b", "%2F"])
            if family == "cross" and i == target and sub == [("*", "*")] and v:
                v = v + "/" + r.choice(A.SAFE_SEGS)
            _set_path(m, name, v)
    return m


def make_reply(r, d, ms):
    if ms["output"] == ".google.protobuf.Empty":
        return None, "{}", False
    m = d.random(r, ms["output"], fill=0.7)
    proto_names = r.random() < 0.3
    obj = json.loads(json_format.MessageToJson(m, use_integers_for_enums=r.random() < 0.5, preserving_proto_field_name=proto_names))
    obj["zzUnknownField"] = {"x": [1, 2]}
    return m, json.dumps(obj), proto_names


# ------------------------------------------------------------------ T1 readers (ast, fail-closed)
def _kw(call, name):
    for k in call.keywords:
        if k.arg == name:
            return k.value
    return None


def read_rest_base(src):
    tree = ast.parse(src)
    base = [c for c in tree.body if isinstance(c, ast.ClassDef) and re.fullmatch(r"_Base\w+RestTransport", c.name)]
    if len(base) != 1:
        raise ValueError("expected exactly one _Base<Service>RestTransport class")
    out = {}
    for cls in [n for n in base[0].body if isinstance(n, ast.ClassDef) and n.name.startswith("_Base")]:
        info = {"options": None, "table": None, "body_json": False, "ints": [], "alt": None, "update": False, "pins": []}
        for node in cls.body:
            if isinstance(node, ast.AnnAssign) and getattr(node.target, "id", "") == "__REQUIRED_FIELDS_DEFAULT_VALUES":
                if not isinstance(node.value, ast.Dict):
                    raise ValueError("defaults table is not a dict literal")
                tbl = []
                for k, v in zip(node.value.keys, node.value.values):
                    if not (isinstance(k, ast.Constant) and isinstance(k.value, str)):
                        raise ValueError("non-literal key in the defaults table")
                    if isinstance(v, ast.Dict) and not v.keys:
                        tv = "DEmpty"
                    elif isinstance(v, ast.Constant) and isinstance(v.value, str):
                        tv = f"(DStr {coq.s(v.value)})"
                    elif isinstance(v, ast.Constant) and v.value is False:
                        tv = "DBool"
                    elif isinstance(v, ast.Constant) and type(v.value) is int and v.value == 0:
                        tv = "DInt"
                    elif isinstance(v, ast.Constant) and type(v.value) is float and v.value == 0.0:
                        tv = "DFloat"
                    elif isinstance(v, ast.Constant) and v.value == b"":
                        tv = "DBytes"
                    else:
                        # a literal the model has no counterpart for: the comparison fails (it can never equal a model value),
                        # but the library is still driven so that the oracle can name a failing call
                        tv = f"(DStr {coq.s('<unexpected literal ' + ast.unparse(v) + '>')})"
                        info["pins"].append((f"default literal of {k.value}", ast.unparse(v), "one of '', {}, 0, 0.0, False, b''"))
                    tbl.append((k.value, tv))
                info["table"] = tbl
            elif isinstance(node, ast.FunctionDef) and node.name == "_get_unset_required_fields":
                ret = next((s for s in node.body if isinstance(s, ast.Return)), None)
                info["pins"].append(("unset_required", ast.unparse(ret.value) if ret else "",
                                     "{k: v for k, v in cls.__REQUIRED_FIELDS_DEFAULT_VALUES.items() if k not in message_dict}"))
            elif isinstance(node, ast.FunctionDef) and node.name == "_get_http_options":
                lst = next((s.value for s in node.body if isinstance(s, (ast.AnnAssign, ast.Assign)) and isinstance(s.value, ast.List)), None)
                ret = next((s for s in node.body if isinstance(s, ast.Return)), None)
                if lst is None or ret is None or ast.unparse(ret.value) != "http_options":
                    raise ValueError("unexpected shape of _get_http_options")
                opts = []
                for e in lst.elts:
                    if not isinstance(e, ast.Dict):
                        raise ValueError("http option is not a dict literal")
                    dct = {}
                    for k, v in zip(e.keys, e.values):
                        if not (isinstance(k, ast.Constant) and isinstance(v, ast.Constant) and isinstance(v.value, str)):
                            raise ValueError("non-literal http option entry")
                        dct[k.value] = v.value
                    if set(dct) - {"method", "uri", "body"} or not {"method", "uri"} <= set(dct):
                        raise ValueError(f"unexpected http option keys {sorted(dct)}")
                    opts.append(dct)
                info["options"] = opts
            elif isinstance(node, ast.FunctionDef) and node.name == "_get_transcoded_request":
                calls = [n for n in ast.walk(node) if isinstance(n, ast.Call) and ast.unparse(n.func) == "path_template.transcode"]
                info["pins"].append(("transcode_call", [ast.unparse(c) for c in calls], ["path_template.transcode(http_options, pb_request)"]))
                asg = [ast.unparse(s) for s in node.body if isinstance(s, ast.Assign) and getattr(s.targets[0], "id", "") == "pb_request"]
                info["pb_request"] = asg
            elif isinstance(node, ast.FunctionDef) and node.name in ("_get_request_body_json", "_get_query_params_json"):
                if node.name == "_get_request_body_json":
                    info["body_json"] = True
                for c in [n for n in ast.walk(node) if isinstance(n, ast.Call) and ast.unparse(n.func) == "json_format.MessageToJson"]:
                    v = _kw(c, "use_integers_for_enums")
                    if not (isinstance(v, ast.Constant) and isinstance(v.value, bool)):
                        raise ValueError("use_integers_for_enums is not a bool literal")
                    info["ints"].append(v.value)
                    want = "transcoded_request['body']" if node.name == "_get_request_body_json" else "transcoded_request['query_params']"
                    info["pins"].append((node.name + " argument", ast.unparse(c.args[0]) if c.args else "", want))
                if node.name == "_get_query_params_json":
                    for s in ast.walk(node):
                        if isinstance(s, ast.Assign) and isinstance(s.targets[0], ast.Subscript) and ast.unparse(s.targets[0].value) == "query_params":
                            key = s.targets[0].slice
                            if isinstance(key, ast.Constant) and isinstance(s.value, ast.Constant):
                                info["alt"] = (key.value, s.value.value)
                            else:
                                raise ValueError("unexpected query_params[...] assignment")
                        if isinstance(s, ast.Call) and ast.unparse(s.func) == "query_params.update":
                            info["update"] = True
                            info["pins"].append(("update argument", bool(re.fullmatch(r"[\w.]+\._get_unset_required_fields\(query_params\)", ast.unparse(s.args[0]))), True))
                    ret = next((s for s in node.body if isinstance(s, ast.Return)), None)
                    info["pins"].append(("query return", ast.unparse(ret.value) if ret else "", "query_params"))
        out[cls.name[len("_Base"):]] = info
    return out


def read_rest(src):
    """{method: {'not_implemented': bool, 'response': {...}}} from <Service>RestTransport."""
    tree = ast.parse(src)
    tr = [c for c in tree.body if isinstance(c, ast.ClassDef) and re.fullmatch(r"\w+RestTransport", c.name) and not c.name.startswith("_")]
    if len(tr) != 1:
        raise ValueError("expected exactly one <Service>RestTransport class")
    out = {}
    for cls in [n for n in tr[0].body if isinstance(n, ast.ClassDef) and n.name.startswith("_")]:
        call = next((n for n in cls.body if isinstance(n, ast.FunctionDef) and n.name == "__call__"), None)
        if call is None:
            continue
        raises = [s for s in call.body if isinstance(s, ast.Raise) and "NotImplementedError" in ast.unparse(s)]
        info = {"not_implemented": bool(raises), "pins": []}
        if not raises:
            order = []
            for i, st in enumerate(call.body):
                src = ast.unparse(st)
                if isinstance(st, ast.Assign) and "self._interceptor.pre_" in src:
                    order.append(("pre", i, src))
                if isinstance(st, ast.Assign) and "._get_transcoded_request(" in src:
                    order.append(("transcode", i, src))
            info["pins"].append(("pre-interceptor before transcoding", [k for k, _, _ in order], ["pre", "transcode"]))
            pre_src = next((x for k, _, x in order if k == "pre"), "")
            tr_src = next((x for k, _, x in order if k == "transcode"), "")
            info["pins"].append(("pre hook result is the request that is transcoded",
                                 [bool(re.fullmatch(r"request, metadata = self\._interceptor\.pre_\w+\(request, metadata\)", pre_src)),
                                  bool(re.fullmatch(r"transcoded_request = [\w.]+\._get_transcoded_request\(http_options, request\)", tr_src))], [True, True]))
        resp = next((n for n in cls.body if isinstance(n, ast.FunctionDef) and n.name == "_get_response"), None)
        if resp is not None:
            sess = [c for c in ast.walk(resp) if isinstance(c, ast.Call) and ast.unparse(c.func) == "getattr(session, method)"]
            if len(sess) != 1:
                raise ValueError("unexpected shape of _get_response")
            c = sess[0]
            info["pins"].append(("url", ast.unparse(c.args[0]) if c.args else "", "'{host}{uri}'.format(host=host, uri=uri)"))
            info["pins"].append(("params", ast.unparse(_kw(c, "params")) if _kw(c, "params") else "", "rest_helpers.flatten_query_params(query_params, strict=True)"))
            info["data"] = ast.unparse(_kw(c, "data")) if _kw(c, "data") is not None else None
            info["kwargs"] = [k.arg or "**" for k in c.keywords]
            info["stream_kw"] = ast.unparse(_kw(c, "stream")) if _kw(c, "stream") is not None else None
            asg = {getattr(s.targets[0], "id", ""): ast.unparse(s.value) for s in resp.body if isinstance(s, ast.Assign)}
            info["pins"].append(("uri/method", [asg.get("uri"), asg.get("method")], ["transcoded_request['uri']", "transcoded_request['method']"]))
        if not raises:
            parses = [ast.unparse(c) for c in ast.walk(call) if isinstance(c, ast.Call) and ast.unparse(c.func) == "json_format.Parse"]
            info["parses"] = parses
            info["pb_resp"] = [ast.unparse(st) for st in call.body if isinstance(st, ast.Assign) and getattr(st.targets[0], "id", "") in ("pb_resp", "resp")]
        out[cls.name[1:]] = info
    return out


# ------------------------------------------------------------------ one generated library
def run_library(job):
    """Generate, read the artefacts, drive the calls.  Runs in a worker thread."""
    idx, numeric, req, ncalls, families = job["idx"], job["numeric"], job["req"], job["ncalls"], job["families"]
    res = {"idx": idx, "numeric": numeric, "calls": [], "error": None}
    params = ["transport=grpc+rest"] + (["rest-numeric-enums"] if numeric else [])
    if job.get("async"):
        # the asyncio REST transport is emitted only when the service config enables it for the package
        sy = {"type": "google.api.Service", "config_version": 3, "name": "tc.example.com",
              "publishing": {"library_settings": [{"version": A.PKG, "python_settings": {"experimental_features": {"rest_async_io_enabled": True}}}]}}
        preq = gen.with_params(req, params, gen.case_dir(f"c04-yaml-{idx}-{int(numeric)}-{job.get('seed_tag', '')}"), service_yaml=sy)
    else:
        preq = gen.with_params(req, params)
    out, err = gen.run_generator(preq)
    if out is None:
        res["error"] = f"generation failed: {gen.error_kind(err)}: {err.strip().splitlines()[-1][:300] if err.strip() else ''}"
        return res
    files = gen.files_of(out)
    base = next((v for k, v in files.items() if k.endswith(f"services/{SVC_MOD}/transports/rest_base.py")), None)
    rest = next((v for k, v in files.items() if k.endswith(f"services/{SVC_MOD}/transports/rest.py")), None)
    try:
        res["base"] = read_rest_base(base)
        res["rest"] = read_rest(rest)
    except Exception as e:  # noqa
        res["error"] = f"T1 extraction: {type(e).__name__}: {e}"
        return res
    d = dyn.Dyn(req)
    schema = A.schema_of(req)
    calls, meta = [], []
    for ms in schema:
        if job.get("async") and (ms["server_streaming"] or ms["client_streaming"]):
            continue            # asyncio REST: unary calls only (request side and reply decoding)
        for j in range(ncalls if O.bindings_of(ms) and not ms["client_streaming"] else 1):
            fam = families[j % len(families)] if O.bindings_of(ms) else "normal"
            if job.get("async") and fam.startswith("intercept-"):
                fam = "normal"
            r = env.rng(f"C04-call-{idx}-{ms['name']}", j) if "seed_tag" not in job else env.rng(f"C04-{job['seed_tag']}-{idx}-{ms['name']}", j)
            fx = job["fixed"][ms["name"]][j] if job.get("fixed") and ms["name"] in job["fixed"] and j < len(job["fixed"][ms["name"]]) else None
            intercept, caller = None, None
            if isinstance(fx, dict) and job.get("async"):
                fx = fx["msg_b64"]          # no interceptor on the asyncio driver: send the post-hook request directly
            if isinstance(fx, dict):          # recorded case with a REST pre-interceptor: caller's request, hook mode, request after the hook
                m, caller, intercept = d.parse(ms["input"], fx["msg_b64"]), d.parse(ms["input"], fx["caller_b64"]), fx["intercept"]
                fam = "intercept-" + intercept
            elif fx is not None:
                m = d.parse(ms["input"], fx) if isinstance(fx, str) else fx
            elif fam.startswith("intercept-"):
                # the caller passes one valuation, the pre_<method> hook turns it into another (other path variables, query and body fields)
                intercept = fam.split("-")[1]
                caller = make_request(env.rng(f"C04-caller-{job.get('seed_tag', '')}-{idx}-{ms['name']}", j), d, ms, "normal")
                m = make_request(r, d, ms, "normal")
            else:
                m = make_request(r, d, ms, fam)
            reply, reply_json, reply_proto_names = make_reply(r, d, ms)
            if job.get("fixed_reply") and ms["name"] in job["fixed_reply"]:
                rb, reply_json, reply_proto_names = job["fixed_reply"][ms["name"]]
                reply = d.parse(ms["output"], rb)
            stream_b64 = None
            if ms["server_streaming"] and not ms["client_streaming"] and O.bindings_of(ms):
                # server-streaming over REST: the reply is a JSON array, the call returns an iterator of the declared type
                items = [make_reply(r, d, ms) for _ in range(r.randint(1, 3))]
                stream_b64 = [d.b64(x[0]) for x in items]
                reply, reply_proto_names = None, False
                reply_json = "[" + ",".join(json.dumps({k: v for k, v in json.loads(x[1]).items()} if not x[2] else
                                                       json.loads(json_format.MessageToJson(x[0]))) for x in items) + "]"
            spec = {"service_module": SVC_MOD, "client": CLIENT, "transport": "rest", "method": ms["py"],
                    "http_default": {"status": 200, "body": reply_json}}
            if stream_b64 is not None:
                spec["consume"] = "stream"
            if job.get("async"):
                spec.update({"transport": "rest_asyncio", "client": CLIENT.replace("Client", "AsyncClient")})
            cls = A.py_class(req, ms["input"])
            if ms["client_streaming"]:
                spec["request"] = {"mode": "stream", "cls": cls, "stream": [d.b64(m)]}
            else:
                spec["request"] = {"mode": "message", "cls": cls, "b64": d.b64(caller if intercept else m)}
            if intercept:
                spec["intercept"] = {"mode": intercept, "b64": d.b64(m)}
            calls.append(spec)
            # msg_b64 is the request the transport has to put on the wire: the one AFTER the pre-interceptor
            meta.append({"method": ms["name"], "family": fam, "msg_b64": d.b64(m), "reply_b64": d.b64(reply) if reply is not None else None,
                         "reply_proto_names": reply_proto_names, "intercept": intercept, "caller_b64": d.b64(caller) if intercept else None,
                         "reply_stream_b64": stream_b64, "async": bool(job.get("async"))})
    root = gen.case_dir(f"c04-{idx}-{int(numeric)}-{job.get('seed_tag', '')}")
    try:
        gen.materialize(out, root)
        outc = gen.impl("c04_drive", {"root": root, "package": A.PYPKG, "calls": calls}, timeout=600)
    except Exception as e:  # noqa
        res["error"] = f"driving the emitted library failed: {str(e)[-600:]}"
        return res
    finally:
        gen.rm(root)
    for mt, o in zip(meta, outc):
        res["calls"].append({**mt, "ok": o["ok"], "error": o.get("error"), "http": o["http_calls"], "result": o.get("result"),
                             "hook_calls": o.get("hook_calls", 0)})
    return res


def observed_term(c):
    """The implementation's observation of one call as a Coq [outcome] (or None when it has no counterpart)."""
    if not c["ok"]:
        e, msg = c["error"]["exception"], c["error"]["message"]
        if e == "NotImplementedError":
            return "(Fail NotImplemented)"
        if e == "ValueError" and msg.startswith("Invalid request."):
            return "(Fail NoBinding)"
        if e == "KeyError" and "body" in msg:
            return "(Fail BodyKeyError)"
        if e == "ValueError" and "query params may not contain repeated dicts or lists" in msg:
            return "(Fail QueryRepeatedMessage)"
        return None
    if len(c["http"]) != 1:
        return None
    h = c["http"][0]
    body = "None" if h["body"] == "" else f"(Some {A.pairs_term(A.flatten_json(json.loads(h['body'])))})"
    return (f"(Sent {coq.s(h['verb'].lower())} {coq.s(urllib.parse.unquote(h['path']))} "
            f"{A.pairs_term([tuple(p) for p in h['query']])} {body})")


def evaluate(ctx, jobs, results, tag):
    """T1 + T2 + oracle over the driven libraries.  Returns the list of T2 disagreements (replayable cases)."""
    reserved = set(t0.reserved_names())
    checks, defs, t2cases = [], [], {}
    seen_defs = set()
    pins_bad, no_counterpart, gen_errors = [], [], []
    for job, res in zip(jobs, results):
        req, idx, numeric = job["req"], job["idx"], job["numeric"]
        base_case = {"api_index": idx, "numeric": numeric, "request_b64": apigen.req_b64(req)}
        if res["error"]:
            gen_errors.append(f"#{idx} numeric={numeric}: {res['error']}")
            if res["error"].startswith("generation failed") or res["error"].startswith("driving"):
                ctx.violation(f"API #{idx} (rest-numeric-enums={'on' if numeric else 'off'}): {res['error'][:400]}",
                              {**base_case, "methods": [(m["name"], m["rule"], m["more"]) for m in A.schema_of(req)]}, None)
            continue
        d = dyn.Dyn(req)
        schema = {ms["name"]: ms for ms in A.schema_of(req)}
        for name, ms in schema.items():
            mid = f"m_{idx}_{name}"
            inm = A.in_model(ms)
            if inm and mid not in seen_defs:
                seen_defs.add(mid)
                defs.append(f"Definition {mid} := {A.method_term(ms)}.")
                checks.append((f"#{idx} {name}: names_agree", f"names_agree {mid}"))
                for x in [ms["rule"]] + ms["more"]:
                    if x["pat"] == "verb":
                        checks.append((f"#{idx} {name}: wf_uri {x['uri']}", f"wf_uri {coq.s(x['uri'])}"))
                        checks.append((f"#{idx} {name}: printable/clash-free {x['uri']}",
                                       f"printable (map fix_tok (utoks {coq.s(x['uri'])})) && names_clash_free (utoks {coq.s(x['uri'])})"))
            b, rt = res["base"].get(name), res["rest"].get(name)
            lbl = f"#{idx}{'n' if numeric else ''} {name}"
            if b is None or rt is None:
                ctx.oblige(f"T1 {lbl}: _Base{name} / _{name} classes present", False, f"{sorted(res['base'])} {sorted(res['rest'])}", "T1")
                continue
            if not inm:
                ctx.features["method-outside-model"] += 1
                continue
            # ---- T1: emitted literals vs model ----
            if b["options"] is None:
                checks.append((f"T1 {lbl}: no _get_http_options", f"match http_options {mid} with [] => true | _ => m_client_streaming {mid} end"))
            else:
                obs = coq.lst(f"mkBinding {coq.s(o['method'])} {coq.s(o['uri'])} {coq.opt(o.get('body'))}" for o in b["options"])
                checks.append((f"T1 {lbl}: _get_http_options {b['options']}",
                               f"negb (m_client_streaming {mid}) && list_eqb binding_eqb (http_options {mid}) {obs}"))
                tbl = "None" if b["table"] is None else "(Some " + coq.lst(f"({coq.s(k)}, {v})" for k, v in b["table"]) + ")"
                checks.append((f"T1 {lbl}: __REQUIRED_FIELDS_DEFAULT_VALUES {b['table']}", f"table_eqb (defaults_table {mid}) {tbl}"))
                checks.append((f"T1 {lbl}: body JSON method present={b['body_json']}", f"Bool.eqb (body_spec {mid}) {coq.b(b['body_json'])}"))
                checks.append((f"T1 {lbl}: data=body passed={rt.get('data')}", f"Bool.eqb (body_spec {mid}) {coq.b(rt.get('data') == 'body')}"))
                checks.append((f"T1 {lbl}: session call keywords {rt.get('kwargs')} (server_streaming={ms['server_streaming']})",
                               f"list_eqb String.eqb (response_kwargs (body_spec {mid}) false {coq.b(ms['server_streaming'])}) {coq.slist(rt.get('kwargs') or [])}"))
                if rt.get("stream_kw") not in (None, "True"):
                    pins_bad.append(f"{lbl}: stream={rt.get('stream_kw')}")
                if b["update"] != (b["table"] is not None):
                    pins_bad.append(f"{lbl}: query_params.update called={b['update']} but table present={b['table'] is not None}")
                if any(v is not numeric for v in b["ints"]) or len(b["ints"]) != (2 if b["body_json"] else 1):
                    pins_bad.append(f"{lbl}: use_integers_for_enums literals {b['ints']} with rest-numeric-enums={numeric}")
                if numeric:
                    a = b["alt"] or ("", "")
                    checks.append((f"T1 {lbl}: $alt literal {b['alt']}", f"str_pair_eqb alt_pair ({coq.s(a[0])}, {coq.s(a[1])})"))
                elif b["alt"] is not None:
                    pins_bad.append(f"{lbl}: query_params[{b['alt'][0]!r}] assigned although rest-numeric-enums is off")
                # proto-plus (API package) types are converted with .pb(), dependency (plain protobuf) types are used as they are:
                # the REQUEST by its own type, the REPLY by the declared response type
                in_pkg, out_pkg = A.in_package(ms["input"]), A.in_package(ms["output"])
                want_req = [True] if in_pkg else [False]
                got_req = [bool(re.fullmatch(r"pb_request = [\w.]+\.pb\(request\)", a)) for a in b.get("pb_request", [])]
                if got_req != want_req or (not in_pkg and b.get("pb_request") != ["pb_request = request"]):
                    pins_bad.append(f"{lbl}: request conversion {b.get('pb_request')} for a request type {'inside' if in_pkg else 'outside'} the API package")
                if ms["output"] != ".google.protobuf.Empty" and not ms["server_streaming"]:
                    conv = [x for x in rt.get("pb_resp", []) if x.startswith("pb_resp = ")]
                    ok_conv = len(conv) == 1 and (bool(re.fullmatch(r"pb_resp = [\w.]+\.pb\(resp\)", conv[0])) if out_pkg else conv[0] == "pb_resp = resp")
                    if not ok_conv:
                        pins_bad.append(f"{lbl}: reply conversion {conv} for a response type {'inside' if out_pkg else 'outside'} the API package "
                                        f"(request type {'inside' if in_pkg else 'outside'})")
                for pn, got, want in b["pins"] + rt["pins"]:
                    if got != want:
                        pins_bad.append(f"{lbl}: {pn}: {got!r} != {want!r}")
                ok_parse = [p for p in rt.get("parses", []) if p.endswith("ignore_unknown_fields=True)")]
                if ms["output"] != ".google.protobuf.Empty" and not ms["server_streaming"] and len(ok_parse) != 1:
                    pins_bad.append(f"{lbl}: response parsing calls {rt.get('parses')}")
            checks.append((f"T1 {lbl}: __call__ raises NotImplementedError={rt['not_implemented']}",
                           f"Bool.eqb (match http_options {mid} with [] => true | _ => m_client_streaming {mid} end) {coq.b(rt['not_implemented'])}"))
        # ---- T2 + oracle per call ----
        for ci, c in enumerate(res["calls"]):
            ms = schema[c["method"]]
            msg = d.parse(ms["input"], c["msg_b64"])
            case = {**base_case, "method": c["method"], "family": c["family"], "msg_b64": c["msg_b64"]}
            if c.get("async"):
                case["async"] = True
            if c.get("intercept"):
                case.update({"intercept": c["intercept"], "caller_b64": c["caller_b64"],
                             "caller_request": json_format.MessageToDict(d.parse(ms["input"], c["caller_b64"]), preserving_proto_field_name=True)})
            binds = O.bindings_of(ms)
            feats = [f"family={c['family']}", f"bindings={len(binds)}", "numeric" if numeric else "names",
                     f"request-{'api' if A.in_package(ms['input']) else 'dep'}/reply-{'api' if A.in_package(ms['output']) else 'dep'}",
                     "asyncio-rest" if c.get("async") else "sync-rest",
                     "server-streaming" if ms["server_streaming"] else "client-streaming" if ms["client_streaming"] else "unary"]
            if c["ok"] and len(c["http"]) == 1:
                feats.append("verb=" + c["http"][0]["verb"].lower())
            elif not c["ok"]:
                feats.append("raised=" + c["error"]["exception"])
            for bnd in binds[:1]:
                feats.append("body=" + ("*" if bnd["body"] == "*" else "field" if bnd["body"] else "none"))
            ctx.case({k: case.get(k) for k in ("api_index", "numeric", "method", "msg_b64", "intercept", "caller_b64")}, nontrivial=bool(binds), feature=feats)
            # oracle (with a pre-interceptor, "the request" is the one the hook returned / left behind)
            probs = []
            if c.get("intercept") and c["hook_calls"] != 1 and (c["ok"] or c["error"]["exception"] != "NotImplementedError"):
                probs.append((f"pre_{ms['py']} of the custom REST interceptor ran {c['hook_calls']} times for one call", None))
            if c["ok"]:
                if len(c["http"]) != 1:
                    probs.append((f"{len(c['http'])} HTTP requests for one call", None))
                else:
                    h = c["http"][0]
                    try:
                        probs += O.check_sent(ms, d.cls(ms["input"]), msg, numeric, h["verb"], h["path"], [tuple(p) for p in h["query"]], h["body"], reserved)
                    except O.Problem as e:
                        probs.append((str(e), None))
                    ct = dict((k.lower(), v) for k, v in h["headers"]).get("content-type", "")
                    if "application/json" not in ct:
                        probs.append((f"Content-Type {ct!r}", None))
                    # the reply decodes into the declared response type
                    got = (c["result"] or [{}])[0]
                    if c.get("reply_stream_b64") is not None:
                        want = [d.parse(ms["output"], b) for b in c["reply_stream_b64"]]
                        have = [d.parse(ms["output"], x["b64"]) for x in got.get("items", []) if x.get("kind") == "msg"] if got.get("kind") == "stream" else None
                        if have != want:
                            probs.append((f"server-streaming JSON array reply of {len(want)} {ms['output']} messages did not decode into the declared "
                                          f"response type: client returned {str(got)[:200]}", None))
                    elif c["reply_b64"] is None:
                        if got.get("kind") != "none":
                            probs.append((f"void method returned {got.get('kind')}", None))
                    elif got.get("kind") != "msg" or d.parse(ms["output"], got["b64"]) != d.parse(ms["output"], c["reply_b64"]):
                        sent = d.parse(ms["output"], c["reply_b64"])
                        kwleaf = [l for l in A.leaves_of(sent) if any(k == "F" and v in reserved for k, v in l["path"])]
                        sig = "http.reply_proto_name_reserved_word" if c.get("reply_proto_names") and kwleaf and got.get("kind") == "msg" else None
                        have = json_format.MessageToDict(d.parse(ms["output"], got["b64"]), preserving_proto_field_name=True) if got.get("kind") == "msg" else got
                        probs.append((f"JSON reply {json_format.MessageToDict(sent, preserving_proto_field_name=True)} "
                                      f"{'(keyed by the original proto field names) ' if c.get('reply_proto_names') else ''}"
                                      f"did not decode into the declared response type {ms['output']}: client returned {str(have)[:300]}", sig))
            else:
                probs += O.check_error(ms, msg, c["error"]["exception"], c["error"]["message"], reserved)
            for what, sig in probs:
                if c.get("intercept"):
                    what = f"[REST pre-interceptor, {c['intercept']}: the wire must carry the request AFTER pre_{ms['py']}] {what}"
                ctx.violation(f"{ms['name']} ({'asyncio REST, ' if c.get('async') else ''}rest-numeric-enums={'on' if numeric else 'off'}): {what}",
                              {**case, "rule": ms["rule"], "more": ms["more"], "request": json_format.MessageToDict(msg, preserving_proto_field_name=True),
                               "observed": c["http"] if c["ok"] else c["error"]}, sig)
            # T2
            pvals = [O.get_path(msg, n) for bnd in binds for n in bnd["tmpl"]["vars"]]
            if not A.in_model(ms) or c["family"] == "hostile" or any(isinstance(v, str) and set(v) & O.HOSTILE for v in pvals):
                continue          # what `requests` does to '?', '#', '%XX' inside a path is not modelled: oracle only
            obs = observed_term(c)
            lbl = f"T2 #{idx}{'n' if numeric else ''} {c['method']}[{ci}]"
            if obs is None:
                no_counterpart.append(f"{lbl}: {str(c['error'] or len(c['http']))[:200]}")
                t2cases[lbl] = case
                continue
            checks.append((lbl, f"outcome_eqb (run {coq.b(numeric)} m_{idx}_{c['method']} {A.req_term(A.leaves_of(msg))}) {obs}"))
            if ci % 5 == 0:
                checks.append((f"#{idx} {c['method']}[{ci}]: req_clash_free", f"req_clash_free {A.req_term(A.leaves_of(msg))}"))
            t2cases[lbl] = case
    failing, errors, nfiles = coq.eval_checks(f"c04{tag}", IMPORTS, "\n".join(defs), checks)
    t1f = [f for f in failing if f.startswith("T1")] + pins_bad
    t2f = [f for f in failing if f.startswith("T2")]
    hyp = [f for f in failing if not f.startswith("T1") and not f.startswith("T2")]
    n1 = sum(1 for l, _ in checks if l.startswith("T1"))
    n2 = sum(1 for l, _ in checks if l.startswith("T2"))
    ctx.oblige(f"T1 [{tag}] emitted _get_http_options / __REQUIRED_FIELDS_DEFAULT_VALUES / body and $alt literals / NotImplementedError branches "
               f"= model output ({n1} comparisons) and the call-path shape pins", not t1f and not errors and n1 > 0, "; ".join((t1f + errors)[:8]), "T1")
    ctx.oblige(f"T2 [{tag}] emitted REST transport = model run on {n2} driven calls (verb, path, query multiset, body JSON, errors)",
               not t2f and not errors and not no_counterpart, "; ".join((t2f + no_counterpart)[:8]))
    ctx.oblige(f"[{tag}] generated methods satisfy the model's hypotheses (wf_uri, names_agree, printable, clash-free)", not hyp, "; ".join(hyp[:8]))
    ctx.oblige(f"[{tag}] every library is generated, read with ast (fail-closed) and driven ({len(jobs)} libraries)", not gen_errors,
               "; ".join(gen_errors[:6]), "T1")
    dis = [t2cases[f] for f in t2f if f in t2cases] + [t2cases[x.split(':')[0]] for x in no_counterpart if x.split(':')[0] in t2cases]
    ctx.notes.setdefault("t2_disagreements", []).extend(dis[:10])
    ctx.notes.setdefault("t1_disagreements", []).extend(t1f[:10])
    return dis, t1f


def make_jobs(ctx, n_apis, ncalls, tag="e2e", start=0):
    words = reserved_pool()
    jobs = []
    for i in range(start, start + n_apis):
        r = env.rng(f"C04-api-{tag}", i)
        try:
            req = A.build_api(r, words, use_reserved=True)
        except apigen.Invalid as e:
            ctx.features["invalid-candidate"] += 1
            continue
        for numeric in (False, True):
            jobs.append({"idx": i, "numeric": numeric, "req": req, "ncalls": ncalls,
                         "families": ["normal", "intercept-copy", "normal", "hostile", "intercept-inplace", "cross", "normal", "normal"]})
        if (i - start) % 10 == 0:       # the asyncio REST transport of the same API (unary calls)
            jobs.append({"idx": 500 + i, "numeric": bool(i % 20), "req": req, "ncalls": ncalls, "async": True, "seed_tag": "async",
                         "families": ["normal", "normal", "normal", "hostile", "normal", "cross", "normal", "normal"]})
    return jobs


# ------------------------------------------------------------------ contract: path_template.transcode vs model
def run_contract(ctx, n_apis, nreq):
    checks, defs = [], []
    for i in range(n_apis):
        r = env.rng("C04-contract-api", i)
        try:
            req = A.build_api(r, [], use_reserved=False)
        except apigen.Invalid:
            continue
        d = dyn.Dyn(req)
        for ms in A.schema_of(req):
            binds = O.bindings_of(ms)
            if not binds or not A.in_model(ms):
                continue
            opts = [{"method": b["verb"], "uri": b["uri"], **({"body": b["body"]} if b["body"] else {})} for b in binds]
            oterm = coq.lst(f"mkBinding {coq.s(o['method'])} {coq.s(o['uri'])} {coq.opt(o.get('body'))}" for o in opts)
            attrs = coq.slist(f["name"] for f in ms["fields"])
            defs.append(f"Definition o_{i}_{ms['name']} := {oterm}.\nDefinition a_{i}_{ms['name']} := {attrs}.")
            for j in range(nreq):
                rr = env.rng(f"C04-contract-{i}-{ms['name']}", j)
                m = make_request(rr, d, ms, "cross" if j % 7 == 6 else "normal")
                want = type(m)(); want.CopyFrom(m)
                try:
                    t = path_template.transcode(opts, m)
                    body = "None"
                    if "body" in t:
                        body = f"(Some {A.pairs_term(_pairs(A.leaves_of(t['body'])))})"
                    obs = f"(Some ({coq.s(t['method'])}, {coq.s(t['uri'])}, {body}, {A.pairs_term(_pairs(A.leaves_of(t['query_params'])))}))"
                except ValueError:
                    obs = "None"
                if m != want:
                    ctx.oblige("contract: transcode leaves the caller's message untouched", False, ms["name"])
                ctx.case({"contract": i, "method": ms["name"], "msg": d.b64(m)}, nontrivial=True, feature=["contract", f"bindings={len(binds)}", "matched" if obs != "None" else "no-binding"])
                checks.append((f"transcode #{i} {ms['name']}[{j}] {[o['uri'] for o in opts]} {json_format.MessageToDict(m, preserving_proto_field_name=True)}",
                               f"tobs_eqb (transcode_obs a_{i}_{ms['name']} o_{i}_{ms['name']} {A.req_term(A.leaves_of(m))}) {obs}"))
    failing, errors, nfiles = coq.eval_checks("c04contract", IMPORTS, "\n".join(defs), checks)
    ctx.oblige(f"T2 contract: google.api_core.path_template.transcode = model transcode on {len(checks)} (bindings, request) pairs",
               not failing and not errors and len(checks) > 0, "; ".join((failing + errors)[:4]))
    ctx.notes["contract_disagreements"] = failing[:10]


def _pairs(leaves):
    """(json key path joined by the unit separator, text with enums by name) of leaves, as body_pairs false 0 renders them."""
    def jn(n):
        out, cap = [], False
        for ch in n:
            if ch == "_":
                cap = True
            else:
                out.append(ch.upper() if cap else ch); cap = False
        return "".join(out)
    return [("\x1f".join(jn(v) if k == "F" else v for k, v in l["path"]), l["text"] if l["enum"] is None else l["enum"][0]) for l in leaves]


# ------------------------------------------------------------------ witnesses of the _refuted lemmas, replayed on the implementation
def witness_api():
    f = apigen.File("google/example/tc/v1/tc.proto", A.PKG, deps=list(apigen.STD_DEPS))
    rep = f.message("Reply"); rep.field("ok", 1, "bool")
    a = f.message("AddRequest"); a.field("name", 1, "string", required=True).field("parent", 2, "string")
    k = f.message("KwRequest"); k.field("class", 1, "string", required=True)
    b = f.message("BodyRequest"); b.field("name", 1, "string").field("parent", 2, "string").field("title", 3, "string")
    s = f.message("SegRequest"); s.field("a", 1, "string").field("b", 2, "string")
    y = f.message("BytesRequest"); y.field("name", 1, "string").field("blob", 2, "bytes", required=True).field("tags", 3, "string", repeated=True, required=True)
    svc = f.service(A.SVC, host="tc.example.com")
    svc.rpc("Add", a.fqn, rep.fqn, http=("get", "/v1/{name=items/*}"), more_http=[("get", "/v1/{parent=ps/*}/items", None)])
    svc.rpc("Kw", k.fqn, rep.fqn, http=("get", "/v1/{class=items/*}"))
    svc.rpc("Body", b.fqn, rep.fqn, http=("get", "/v1/{name=items/*}"), more_http=[("post", "/v1/{parent=ps/*}/items", "*")])
    svc.rpc("Seg", s.fqn, rep.fqn, http=("get", "/v1/{a=*}/{b=**}"))
    svc.rpc("Bytes", y.fqn, rep.fqn, http=("get", "/v1/{name=items/*}"))
    # the running example of Proofs/Http.v (ex_method / ex_req)
    kind = f.enum("Kind", ["KIND_UNSPECIFIED", "KIND_A", "KIND_B"])
    sub = f.message("Sub"); sub.field("class", 1, "string").field("count", 2, "int32")
    o = f.message("OneRequest")
    o.field("name", 1, "string", required=True).field("class", 2, "string", required=True).field("sub", 3, sub.fqn, required=True)
    o.field("page_size", 4, "int32", required=True).field("kind", 5, ("enum", kind), required=True).field("flag", 6, "bool", required=True)
    o.field("ratio", 7, "double", required=True).field("blob", 8, "bytes", required=True).field("big", 9, "int64", required=True)
    o.field("tags", 10, "string", repeated=True, required=True).field("from", 11, "string")
    o.map_field("labels", 12, "string", "string")
    svc.rpc("One", o.fqn, rep.fqn, http=("post", "/v1/{name=items/*}/{sub.class=things/*}:one"), body="sub",
            more_http=[("get", "/v1/{class=cls/*}", None), ("put", "/v2/{name=items/*}", "*")])
    # required query parameters whose names have a letter after a digit in a later word (seeded change C04-e)
    c = f.message("CrcRequest")
    c.field("name", 1, "string").field("data_crc32c", 2, "uint32", required=True).field("utf8string_value", 3, "string", required=True)
    c.field("api_v2beta", 4, "bool", required=True)
    svc.rpc("Crc", c.fqn, rep.fqn, http=("get", "/v1/{name=items/*}:crc"))
    # a request message WITHOUT any REQUIRED field, enums in query and body (seeded change C04-h: $alt must not depend on
    # the message having required fields)
    pl = f.message("PlainRequest")
    pl.field("parent", 1, "string").field("kind", 2, ("enum", kind)).field("sub", 3, sub.fqn).field("filter", 4, "string")
    svc.rpc("Plain", pl.fqn, rep.fqn, http=("get", "/v1/{parent=shelves/*}/things"))
    svc.rpc("PlainBody", pl.fqn, rep.fqn, http=("post", "/v1/{parent=shelves/*}/things:search"), body="*")
    # server-streaming rpcs over REST with body "*", a named body field and no body (seeded change C04-j: the body of a
    # streaming call must reach the wire like that of a unary call)
    w = f.message("WatchRequest"); w.field("name", 1, "string", required=True).field("sub", 2, sub.fqn).field("filter", 3, "string")
    w.field("kind", 4, ("enum", kind))
    svc.rpc("Watch", w.fqn, rep.fqn, ss=True, http=("post", "/v1/{name=items/*}:watch"), body="*")
    svc.rpc("Tail", w.fqn, rep.fqn, ss=True, http=("post", "/v1/{name=items/*}:tail"), body="sub")
    svc.rpc("Follow", w.fqn, rep.fqn, ss=True, http=("get", "/v1/{name=items/*}:follow"))
    # unsupported bindings (custom verb / no pattern) before, between and after standard ones (seeded change C04-n): they
    # are skipped, the later bindings stay.  BodyRequest has no REQUIRED field.
    svc.rpc("MidCustom", b.fqn, rep.fqn, http=("get", "/v1/{name=items/*}:mc"), more_http=[("get", "/v1/{parent=ps/*}/mc", None)])
    A.insert_unsupported(svc.proto.method[-1], 0, True)
    svc.rpc("MidEmpty", b.fqn, rep.fqn, http=("post", "/v1/{name=items/*}:me"), body="*",
            more_http=[("post", "/v1/{title=ts/*}:me", "*"), ("post", "/v1/{parent=ps/*}:me", "*")])
    A.insert_unsupported(svc.proto.method[-1], 1, False)
    svc.rpc("LastCustom", b.fqn, rep.fqn, http=("get", "/v1/{name=items/*}:lc"))
    A.insert_unsupported(svc.proto.method[-1], 0, True)
    svc.rpc("CustomFirst", b.fqn, rep.fqn, http=("get", "/v1/placeholder"), more_http=[("get", "/v1/{name=items/*}:cf", None), ("get", "/v1/{parent=ps/*}:cf", None)])
    cp = svc.proto.method[-1].options.Extensions[annotations_pb2.http].custom
    cp.kind, cp.path = "HEAD", "/v1/cf"
    # REQUIRED query parameters of every scalar kind (and an enum), left at their defaults and set (seeded change C04-m)
    kd = f.message("KindsRequest"); kd.field("name", 1, "string")
    for n_, t_ in enumerate(sorted(apigen.SCALARS), 2):
        kd.field("q_" + t_, n_, t_, required=True)
    kd.field("q_enum", 30, ("enum", kind), required=True)
    svc.rpc("Kinds", kd.fqn, rep.fqn, http=("get", "/v1/{name=items/*}:kinds"))
    e = f.message("EchoRequest"); e.field("name", 1, "string")
    # request / reply on either side of the API package boundary (seeded change C04-l): proto-plus types are converted
    # with .pb(), dependency types are plain protobuf.  Crc etc. are api/api; these are dep/dep, dep/api, api/dep
    f.dep("google/type/expr.proto"); f.dep("google/protobuf/empty.proto"); f.dep("google/iam/v1/policy.proto")
    EXPR = ".google.type.Expr"
    svc.rpc("Eval", EXPR, EXPR, http=("get", "/v1/{title=items/*}:eval"))
    svc.rpc("Lookup", EXPR, rep.fqn, http=("post", "/v1/{title=items/*}:lookup"), body="*")
    svc.rpc("GetSettings", ".google.protobuf.Empty", rep.fqn, http=("get", "/v1/settings"))
    svc.rpc("Describe", e.fqn, EXPR, http=("get", "/v1/{name=items/*}:describe"))
    svc.rpc("ReadPolicy", e.fqn, ".google.iam.v1.Policy", http=("post", "/v1/{name=items/*}:readPolicy"), body="*")
    kr = f.message("KwReply"); kr.field("ignore_unknown_fields", 1, "string").field("note", 2, "string")
    svc.rpc("Echo", e.fqn, kr.fqn, http=("get", "/v1/{name=items/*}:echo"))
    return apigen.request([f])


def kinds_request(d, filled):
    """KindsRequest with every REQUIRED query parameter at its default (filled=False) or set (filled=True)."""
    m = d.new(A.PKG + ".KindsRequest", name="items/k")
    if filled:
        for t in apigen.SCALARS:
            v = {"string": "s", "bytes": b"\x01\xff", "bool": True, "double": 1.5, "float": -2.25}.get(t, 7)
            setattr(m, "q_" + t, v)
        m.q_enum = 2
    return m


def run_witnesses(ctx):
    req = witness_api()
    d = dyn.Dyn(req)
    P = A.PKG
    fixed = {
        "Add": [d.b64(d.new(P + ".AddRequest", parent="ps/p"))],
        "Kw": [d.b64(d.new(P + ".KwRequest", **{"class": "items/c"}))],
        "Body": [d.b64(d.new(P + ".BodyRequest", parent="ps/p", title="t"))],
        "Seg": [d.b64(d.new(P + ".SegRequest", a="x/y", b="z"))],
        "Bytes": [d.b64(d.new(P + ".BytesRequest", name="items/i"))],
        "Echo": [d.b64(d.new(P + ".EchoRequest", name="items/i"))],
    }
    fixed["Crc"] = [d.b64(d.new(P + ".CrcRequest", name="items/i", data_crc32c=123456, utf8string_value="u", api_v2beta=True)),
                    d.b64(d.new(P + ".CrcRequest", name="items/i"))]
    # REST pre-interceptor: the hook returns another message (copy) / edits the caller's object (inplace); path variable,
    # query field and body field all change, and the wire has to carry the request after the hook
    fixed["Crc"].append({"caller_b64": d.b64(d.new(P + ".CrcRequest", name="items/a", data_crc32c=1)), "intercept": "copy",
                         "msg_b64": d.b64(d.new(P + ".CrcRequest", name="items/b", data_crc32c=7, utf8string_value="z"))})
    watch = d.new(P + ".WatchRequest", name="items/i7", filter="state=open", kind=1)
    setattr(watch.sub, "class", "c7"); watch.sub.count = 7
    for mname in ("Watch", "Tail", "Follow"):
        fixed[mname] = [d.b64(watch)]
    expr = d.new("google.type.Expr", title="items/e1", description="d", expression="a > b")
    fixed.update({"Eval": [d.b64(expr)], "Lookup": [d.b64(expr)], "GetSettings": [d.b64(d.new("google.protobuf.Empty"))],
                  "Describe": [d.b64(d.new(P + ".EchoRequest", name="items/i"))], "ReadPolicy": [d.b64(d.new(P + ".EchoRequest", name="items/i"))]})
    later = d.b64(d.new(P + ".BodyRequest", parent="ps/p", title="t"))        # matches only the LAST binding
    fixed.update({"MidCustom": [later, d.b64(d.new(P + ".BodyRequest", name="items/i"))], "MidEmpty": [later],
                  "LastCustom": [d.b64(d.new(P + ".BodyRequest", name="items/i"))],
                  "CustomFirst": [d.b64(d.new(P + ".BodyRequest", name="items/i")), later]})
    fixed["Kinds"] = [d.b64(kinds_request(d, False)), d.b64(kinds_request(d, True))]
    plain = d.new(P + ".PlainRequest", parent="shelves/s1", kind=2, filter="x")
    plain.sub.count = 4
    fixed["Plain"] = [d.b64(plain), d.b64(d.new(P + ".PlainRequest", parent="shelves/s1"))]
    fixed["PlainBody"] = [d.b64(plain)]
    one = d.new(P + ".OneRequest", name="items/i1", kind=1, tags=["a", "b"], labels={"k.x": "v"}, **{"from": "f"})
    setattr(one.sub, "class", "things/t1"); one.sub.count = 3
    one2 = d.new(P + ".OneRequest", name="items/i9", kind=2, page_size=5, **{"from": "g"})
    setattr(one2.sub, "class", "things/t9"); one2.sub.count = 9
    fixed["One"] = [d.b64(one), d.b64(d.new(P + ".OneRequest", **{"class": "cls/c1"})), d.b64(d.new(P + ".OneRequest", name="items/i3", big=5)),
                    d.b64(d.new(P + ".OneRequest", name="items/i3")),
                    {"caller_b64": d.b64(one), "intercept": "inplace", "msg_b64": d.b64(one2)}]
    kw_reply = d.new(P + ".KwReply", note="n", ignore_unknown_fields="c")
    fixed_reply = {"Echo": (d.b64(kw_reply), json.dumps({"ignore_unknown_fields": "c", "note": "n"}), True)}
    jobs = [{"idx": 900 + int(numeric), "numeric": numeric, "req": req, "ncalls": 5, "families": ["normal"], "fixed": fixed,
             "fixed_reply": fixed_reply, "seed_tag": "wit"} for numeric in (False, True)]
    jobs.append({"idx": 902, "numeric": False, "req": req, "ncalls": 5, "families": ["normal"], "fixed": fixed, "fixed_reply": fixed_reply,
                 "seed_tag": "wit-async", "async": True})
    results = gen.pmap(run_library, jobs)
    before = len(ctx.violations)
    evaluate(ctx, jobs, results, "witness")
    sigs = {v["signature"] for v in ctx.violations[before:]}
    ctx.notes["witness_signatures"] = sorted(s for s in sigs if s)
    return jobs, results


CRASH_SIG = "http.custom_primary_required_field"


def crash_api():
    """Witness of finding C04-custom-primary-required-field: a custom primary rule, a standard additional binding and a
    request message with REQUIRED fields."""
    f = apigen.File("google/example/tc/v1/tc.proto", A.PKG, deps=list(apigen.STD_DEPS))
    rep = f.message("Reply"); rep.field("ok", 1, "bool")
    q = f.message("QRequest"); q.field("name", 1, "string", required=True).field("size", 2, "int32", required=True)
    svc = f.service(A.SVC, host="tc.example.com")
    svc.rpc("Q", q.fqn, rep.fqn, http=("get", "/v1/placeholder"), more_http=[("get", "/v1/{name=items/*}:q", None)])
    cp = svc.proto.method[-1].options.Extensions[annotations_pb2.http].custom
    cp.kind, cp.path = "HEAD", "/v1/q"
    return apigen.request([f])


def run_gated_witnesses(ctx):
    """Inputs that hit a finding which is not registered yet are run only once findings/known_findings.json lists the
    signature (the default run stays clean until the coordinator has decided)."""
    try:
        listed = {x.get("signature") for x in json.load(open(os.path.join(env.VERIF, "findings", "known_findings.json"))) if x.get("property") == "C04"}
    except FileNotFoundError:
        listed = set()
    ctx.notes["gated_witnesses"] = {CRASH_SIG: CRASH_SIG in listed}
    if CRASH_SIG not in listed:
        return
    req = crash_api()
    out, err = gen.run_generator(gen.with_params(req, ["transport=grpc+rest"]))
    case = {"request_b64": apigen.req_b64(req), "numeric": False, "methods": [(m["name"], m["rule"], m["more"]) for m in A.schema_of(req)]}
    ctx.case({"gated": CRASH_SIG}, nontrivial=True, feature="gated-witness")
    if out is None:
        last = err.strip().splitlines()[-1][:300] if err.strip() else ""
        ctx.violation(f"generation fails for a method with a custom primary rule, a standard additional binding and REQUIRED request fields: {last}",
                      case, CRASH_SIG if "CustomHttpPattern" in last else None)
        return
    # generation works (fixed): the additional binding must be usable over REST
    d = dyn.Dyn(req)
    job = {"idx": 950, "numeric": False, "req": req, "ncalls": 1, "families": ["normal"], "seed_tag": "gated",
           "fixed": {"Q": [d.b64(d.new(A.PKG + ".QRequest", name="items/i", size=3))]}}
    before = len(ctx.violations)
    res = run_library(job)
    for c in res["calls"]:
        if not c["ok"]:
            ctx.violation(f"Q: client raised {c['error']['exception']}: {c['error']['message'][:160]} although binding get /v1/{{name=items/*}}:q applies", case, None)
        elif [h["path"] for h in c["http"]] != ["/v1/items/i:q"]:
            ctx.violation(f"Q: sent {[h['verb'] + ' ' + h['path'] for h in c['http']]} instead of GET /v1/items/i:q", case, None)
    if res["error"]:
        ctx.violation(f"custom-primary witness: {res['error'][:300]}", case, None)


def run_corpus(ctx):
    """corpus/C04/*.json: recorded (API, option, method, request) cases, grouped per API and driven first."""
    d = os.path.join(env.VERIF, "corpus", "C04")
    files = sorted(f for f in os.listdir(d) if f.endswith(".json")) if os.path.isdir(d) else []
    groups = {}
    for f in files:
        c = json.load(open(os.path.join(d, f)))
        groups.setdefault((c["request_b64"], bool(c.get("numeric")), bool(c.get("async"))), []).append(c)
    jobs = []
    for i, ((rb, numeric, is_async), cs) in enumerate(sorted(groups.items())):
        fixed = {}
        for c in cs:
            fixed.setdefault(c["method"], []).append(
                {"msg_b64": c["msg_b64"], "caller_b64": c["caller_b64"], "intercept": c["intercept"]} if c.get("intercept") else c["msg_b64"])
        jobs.append({"idx": 800 + i, "numeric": numeric, "req": apigen.req_from_b64(rb), "ncalls": max(len(v) for v in fixed.values()),
                     "families": ["normal"], "fixed": fixed, "seed_tag": "corpus", "async": is_async})
    if jobs:
        results = gen.pmap(run_library, jobs)
        evaluate(ctx, jobs, results, "corpus")
    ctx.notes["corpus_cases"] = len(files)


# ------------------------------------------------------------------ entry points
def run(ctx):
    import time
    t = [time.time()]

    def lap(name):
        t.append(time.time())
        ctx.notes.setdefault("stage_seconds", {})[name] = round(t[-1] - t[-2], 1)

    run_pure(ctx); lap("pure")
    run_contract(ctx, ctx.n(4, 60), ctx.n(6, 10)); lap("contract")
    run_witnesses(ctx); lap("witnesses")
    run_corpus(ctx); lap("corpus")
    run_gated_witnesses(ctx); lap("gated")
    jobs = make_jobs(ctx, ctx.n(6, 150), ctx.n(6, 8))
    results = gen.pmap(run_library, jobs); lap("generate+drive")
    evaluate(ctx, jobs, results, "e2e"); lap("evaluate")
    ctx.notes["libraries"] = len(jobs)


def search(ctx, broken):
    """A correspondence broke without an oracle failure: drive many more requests on fresh APIs looking for one."""
    before = len(ctx.violations)
    jobs = make_jobs(ctx, 8, 14, tag="search")
    for j in jobs:
        j["seed_tag"] = "search"
    results = gen.pmap(run_library, jobs)
    ctx.obligations, saved = [], ctx.obligations
    try:
        evaluate(ctx, jobs, results, "search")
    finally:
        ctx.obligations = saved
    ctx.notes["search_found"] = len(ctx.violations) - before


def replay(ctx, rep):
    c = rep.get("case", {})
    if "request_b64" not in c:
        cases = (rep.get("notes") or {}).get("t2_disagreements") or []
        if not cases:
            if "rule" in c:
                run_pure(ctx)
                return
            return run(ctx)
        c = cases[0]
    req = apigen.req_from_b64(c["request_b64"])
    job = {"idx": c.get("api_index", 0), "numeric": bool(c.get("numeric")), "req": req, "ncalls": 1, "families": ["normal"],
           "fixed": {c["method"]: [{"msg_b64": c["msg_b64"], "caller_b64": c["caller_b64"], "intercept": c["intercept"]} if c.get("intercept")
                                   else c["msg_b64"]]} if "method" in c else {}, "seed_tag": "replay", "async": bool(c.get("async"))}
    results = gen.pmap(run_library, [job])
    for res in results:               # keep only the recorded call
        if "method" in c:
            res["calls"] = [x for x in res["calls"] if x["method"] == c["method"]]
    evaluate(ctx, [job], results, "replay")
    for res in results:
        if res["error"]:
            print(f"replayed API: {res['error'][:300]}")
        for x in res["calls"] if "method" in c else []:
            print(f"replayed {c['method']}: ok={x['ok']} http={x['http']} error={x['error']}")
    for v in ctx.violations:
        print(f"  oracle: [{v['signature']}] {v['what'][:300]}")
